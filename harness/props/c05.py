"""C05  Slices, concat, extension and clog2 address exactly the named bits.

spec/BV.tla (Slice, SetSlice, Concat, Zext, Sext, Trunc, Red*, BitLen, Clog2 from their bit-level
meaning; self-checked), spec/BitsObj.tla (GetBit/GetSlice/SetBit/SetSlice for EVERY lo, hi, step in
Int u {None}: valid iff 0 <= lo < hi <= w and no step, otherwise an error; values wider than the slice are
errors; writes frame all other bits), spec/BitsTable.tla, spec/BitsObjTrace.tla.
  1. BV self check (as C04).
  2. spec -> code, exhaustive: TLC computes the admitted outcomes of x[i] and x[lo:hi] for every value of
     every width <= 6 and every i, lo, hi in {None} u -2..w+2 (steps 0, 1, 2, -1 for widths <= 3), of
     x[i] = v / x[lo:hi] = v for widths <= 4 (5) with every Bits value of width <= 3 and every int in -9..9,
     of concat (2 operands, total width <= 8; 3 operands, <= 6), zext / sext / trunc (widths <= 8),
     reduce_and/or/xor (widths <= 8) and clog2(N), N <= 2^13 (2^14); every row runs on the real API
     (Bits / BitsN / mk_bits; helper width given as int and as type). The BitsObj state machine with
     SetBit / SetSlice is model-checked for widths 1..2 and every transition of its state graph replayed.
  3. code -> spec: seeded random sequences of reads, slice writes, concat, extensions and reductions on
     real objects at 21 widths up to 1023 bits (bounds biased to 0, None, w, limb edges, invalid pairs);
     clog2(2^k + d) for every k <= 1023, d in {-1, 0, 1}, plus random N up to 1023 bits; all validated by
     TLC (values as limbs).
  4. canaries.
  5. signal slices: s.in_[lo:hi] and slices of slices s.in_[a:b][lo:hi] of a port (legal in connect
     statements), every bound pair in -1..w+1: rejected exactly when the same expression on a Bits value is
     an error, and otherwise the net member reads exactly the bits the Bits expression names.

NOTE: exhaustive for widths <= 6 (reads) / 4-5 (writes); larger widths sampled. A slice step is an error
whatever its value (also 0). Open in the statement, hence any outcome admitted: zext/sext to a narrower and
trunc to a wider width, concat beyond 1023 bits, clog2(N <= 0); a Bits value narrower than the slice and a
negative int within the signed range of the slice may be rejected or written (zero-extended / two's
complement). The exception class is not constrained.
"""
import common
import bitsobj_lib as L

READY = True


def _x(R, rec, w):
    if R.random() < 0.55:
        return {"k": "self"}, rec.obj.nbits
    return L.gen_bits(R, w), w


def _step(R):
    return R.choice([0, 1, 2, -1, 0]) if R.random() < 0.06 else None


def _slice_value(R, w, lo, hi):
    """value for a slice write: mostly fitting, sometimes one bit too wide / narrow / negative / huge"""
    l = 0 if lo is None else lo
    h = w if hi is None else hi
    s = h - l if 0 <= l < h <= w else R.choice([1, 2, max(1, w // 2)])
    s = max(1, min(s, 1023))
    c = R.random()
    if c < 0.5:
        return L.gen_bits(R, s)
    if c < 0.7:
        return L.enc_int(L.gen_value(R, s))
    if c < 0.8:
        return L.gen_bits(R, max(1, min(1023, s + R.choice([-1, 1, 1, 2, 15]))))
    if c < 0.92:
        return L.enc_int(R.choice([-1, -(1 << (s - 1)), -(1 << (s - 1)) - 1, 1 << s, (1 << s) + 1, -(1 << s), -2]))
    return L.enc_int(L.gen_assign_int(R, s))


def _event(R, rec, w):
    c = R.random()
    ow = rec.obj.nbits
    if c < 0.22:
        x, xw = _x(R, rec, w)
        lo, hi = L.gen_bounds(R, xw)
        rec.call("getslice", [x, L.idx(lo), L.idx(hi), L.idx(_step(R))])
    elif c < 0.32:
        x, xw = _x(R, rec, w)
        rec.call("getbit", [x, L.gen_index(R, xw)])
    elif c < 0.54:
        lo, hi = L.gen_bounds(R, ow)
        rec.call("setslice", [L.idx(lo), L.idx(hi), L.idx(_step(R)), _slice_value(R, ow, lo, hi)])
    elif c < 0.64:
        i = L.gen_index(R, ow)
        k = R.random()
        v = L.enc_bits(1, R.randrange(2)) if k < 0.4 else L.enc_int(R.choice([0, 1, 0, 1, -1, 2, -2, 3])) if k < 0.8 \
            else L.gen_bits(R, R.choice([2, 3, ow]))
        rec.call("setbit", [i, v])
    elif c < 0.72:
        n = R.choice([2, 2, 3, 4])
        xs, total = [], 0
        for _ in range(n):
            if R.random() < 0.3:
                xs.append({"k": "self"})
                total += ow
            else:
                ww = R.choice([1, 2, w, w, max(1, w // 2), 15, 16, R.choice(L.WIDTHS)])
                xs.append(L.gen_bits(R, ww))
                total += ww
        if total > 1023 and R.random() < 0.8:
            xs = xs[:1] + [L.gen_bits(R, 1)]
        rec.call("concat", xs)
    elif c < 0.86:
        op = R.choice(["zext", "sext", "trunc"])
        x, xw = _x(R, rec, w)
        if op == "trunc":
            n = R.choice([1, xw, max(1, xw - 1), max(1, xw // 2), R.randint(1, xw), min(xw, 15), min(xw, 16)])
        else:
            n = R.choice([xw, min(1023, xw + 1), 1023, min(1023, 2 * xw), R.randint(xw, 1023),
                          min(1023, (xw // 15 + 1) * 15), min(1023, (xw // 15 + 1) * 15 + 1)])
        if R.random() < 0.04:
            n = R.choice([max(1, xw - 1), min(1023, xw + 1)])          # possibly outside the defined range
        rec.call(op, [x, n])
    elif c < 0.92:
        x, xw = _x(R, rec, w)
        rec.call(R.choice(["reduce_and", "reduce_or", "reduce_xor"]), [x])
    elif c < 0.97:
        v = L.gen_bits(R, ow) if R.random() < 0.7 else L.enc_int(L.gen_assign_int(R, ow))
        rec.call("assign", [v])
    else:
        if L.observe(rec.obj)["nxt"]["some"] and R.random() < 0.6:
            rec.call("flip", [])
        else:
            rec.call("nbassign", [L.gen_bits(R, ow)])


def _gen_traces(ntraces_per_w, nev):
    R = common.rng("c05-traces")
    traces = []
    for w in L.WIDTHS:
        for t in range(ntraces_per_w):
            rec = L.Recorder(w, L.STYLES[(t + w) % 3])
            for _ in range(nev):
                _event(R, rec, w)
            traces.append(rec.trace())
    return traces


def _clog2_traces(nrandom):
    R = common.rng("c05-clog2")
    ns = []
    for k in range(0, 1024):
        for d in (-1, 0, 1):
            n = (1 << k) + d
            if n >= 1:
                ns.append(n)
    for _ in range(nrandom):
        bits = R.randint(10, 1023)
        n = R.getrandbits(bits) | (1 << (bits - 1))
        if R.random() < 0.3:                      # a power of two plus a small / sparse offset
            n = (1 << (bits - 1)) + R.choice([2, 3, 1 << R.randrange(bits - 1), R.getrandbits(8)])
        ns.append(n)
    traces = []
    for i in range(0, len(ns), 128):
        rec = L.Recorder(1, "Bits")
        for n in ns[i:i + 128]:
            rec.call("clog2", [L.enc_int(n)])
        traces.append(rec.trace())
    return traces, len(ns)


def _signal_slices(res, quick):
    """x[lo:hi] and x[a:b][lo:hi] written on a SIGNAL (legal in connect statements) must name exactly the
    bits the same expression names on a Bits value -- which this run validates against BitsObj.tla for
    every lo, hi of every width <= 6 -- and must be rejected exactly when it is rejected there."""
    from pymtl3 import Bits, Component, DefaultPassGroup, InPort, OutPort, connect, mk_bits
    W = 6 if quick else 7
    vals = [0b101101 & ((1 << W) - 1), 0b1010011 & ((1 << W) - 1), (1 << W) - 1]
    rg = range(-1, W + 2)

    def ref(v, sls):
        x = Bits(W, v)
        try:
            for (lo, hi) in sls:
                x = x[lo:hi]
            return int(x), x.nbits
        except Exception:      # noqa: BLE001
            return None
    cases = [((a, b),) for a in rg for b in rg]
    for a in range(W):
        for b in range(a + 1, W + 1):
            n = b - a
            cases += [((a, b), (lo, hi)) for lo in range(-1, n + 2) for hi in range(-1, n + 2)]
            if not quick and n >= 2:
                cases += [((a, b), (0, n), (lo, hi)) for lo in range(-1, n + 2) for hi in range(-1, n + 2)]
    nvalid = nrej = 0
    for sls in cases:
        exp = ref(vals[0], sls)
        text = "s.in_" + "".join("[%d:%d]" % sl for sl in sls)

        class T(Component):
            def construct(s):
                s.in_ = InPort(mk_bits(W))
                v = s.in_
                for (lo, hi) in sls:
                    v = v[lo:hi]
                s.out = OutPort(mk_bits(exp[1] if exp else 1))
                connect(s.out, v)
        try:
            t = T()
            t.elaborate()
            got = "accepted"
        except Exception as e:      # noqa: BLE001
            got = type(e).__name__
            t = None
        res.add_evals()
        res.distinct(("sigslice", sls))
        if exp is None:
            nrej += 1
            if t is not None:
                res.violation("signal-slice:w=%d:%s:invalid-slice-accepted" % (W, text),
                              "connect( s.out, %s ) on a Bits%d port is accepted although the same slice of a Bits%d "
                              "value is an error (bounds outside 0 <= lo < hi <= width)" % (text, W, W))
            continue
        nvalid += 1
        if t is None:
            res.violation("signal-slice:w=%d:%s:valid-slice-rejected:%s" % (W, text, got),
                          "connect( s.out, %s ) on a Bits%d port raises %s although the slice is valid" % (text, W, got))
            continue
        t.apply(DefaultPassGroup())
        t.sim_reset()
        for v in vals:
            t.in_ @= v
            t.sim_eval_combinational()
            want = ref(v, sls)[0]
            if int(t.out) != want:
                res.violation("signal-slice:w=%d:%s:wrong-bits" % (W, text),
                              "%s of value %s reads %s through the net, the Bits value gives %s"
                              % (text, bin(v), bin(int(t.out)), bin(want)))
                break
    if nvalid < 50 or nrej < 50:
        raise common.MachineryError("signal slice family degenerate: %d valid, %d invalid" % (nvalid, nrej))
    res.note("signal_slices", {"width": W, "valid": nvalid, "invalid": nrej})


def run(res, tier):
    quick = tier == "quick"
    WS = 4 if quick else 5
    _signal_slices(res, quick)
    with common.scratch() as sd, L.new_pool() as pool:
        bv = L.bv_selfcheck_submit(tier, pool)
        jobs = [("setslice", WS, WS, 0), ("setslice", 1, WS - 1, 0), ("clog2", 1, 1, 8192 if quick else 16384),
                ("getslice", 6, 6, 0), ("getslice", 1, 5, 0), ("getbit", 1, 6, 0), ("getstep", 1, 3, 0),
                ("setbit", 1, WS, 0), ("setstep", 1, 3, 0), ("concat2", 1, 7, 8), ("concat3", 1, 4, 6),
                ("ext", 1, 8, 8), ("red", 1, 8, 0)]
        tf = L.tables(jobs, sd, pool)

        traces = _gen_traces(10 if quick else 150, 40 if quick else 50)
        ctr, nclog = _clog2_traces(300 if quick else 6000)
        res.note("clog2_wide_arguments", nclog)
        res.sample({"kind": "impl trace event", **{k: traces[50]["ev"][0][k] for k in ("op", "refl", "args", "out")}})
        found = L.validate(res, traces, pool, sd, need_actions=("ReadEv", "HelperEv", "SetEv", "AssignEv"))
        foundc = L.validate(res, ctr, pool, sd, need_actions=("Clog2Ev",), label="clog2-trace")
        bad = {f[0] for f in found}
        L.canaries(res, [t for i, t in enumerate(traces) if i not in bad] +
                   [t for i, t in enumerate(ctr) if i not in {f[0] for f in foundc}][:6], pool, sd)
        ops = {}
        for t in traces + ctr:
            for e in t["ev"]:
                k = e["op"] + ":" + e["out"]["k"]
                ops[k] = ops.get(k, 0) + 1
                res.distinct((e["op"], e["post"]["w"], e["out"]["k"],
                              tuple(a.get("k") if isinstance(a, dict) else len(a) if isinstance(a, list) else "i"
                                    for a in e["args"])))
        for op in ("getbit", "getslice", "setbit", "setslice", "concat", "zext", "sext", "trunc", "reduce_and",
                   "reduce_or", "reduce_xor", "clog2"):
            for kind in ("err",) if op in ("getbit", "getslice", "setbit", "setslice") else ():
                if (op + ":" + kind) not in ops:
                    raise common.MachineryError("%s never raised in the random traces (invalid inputs missing)" % op)
            if not any(k.startswith(op + ":") and not k.endswith(":err") for k in ops):
                raise common.MachineryError("operator %s never exercised successfully by the random traces" % op)
        res.note("trace_calls_by_op_and_outcome", ops)

        L.graph_walk(res, (1, 2), (1, 2, 3), 3 if quick else 5, ("setbit", "setslice", "assign", "nbassign"), sd)

        for (job, fu) in tf:
            r, rows = fu.result()
            res.add_tlc(r)
            big = len(rows) > 30000
            L.check_rows(res, "%s[w=%d..%d]" % job[:3], rows, ("rotate",) if big else L.STYLES)
            if job[0] == "getslice" and job[1] == 6:
                res.sample({"kind": "TLC table row", **rows[len(rows) // 3]})
        L.bv_selfcheck_collect(res, bv)
    res.cov["exhaustive"] = True
    res.note("widths_sampled", L.WIDTHS)
    res.note("rule", "spec->code: TLC enumerates every row (width, value, lo, hi, step, written value / helper "
             "arguments / N) of the BitsTable families and every transition of the BitsObj state graph with "
             "SetBit/SetSlice; each is executed on the real API. code->spec: seeded random read / write / helper "
             "sequences at 21 widths up to 1023 bits with bounds biased to None, 0, w, limb edges and invalid pairs, "
             "and clog2(2^k+d) for all k<=1023; a case is one logged call (op, argument encodings, outcome)")
    res.assume("the exception class of a required error is not constrained")
    res.assume("zext/sext to a narrower width, trunc to a wider width, concat beyond 1023 bits, clog2(N<=0): "
               "any outcome admitted")
    res.assume("a Bits value narrower than the slice, or a negative int within the slice's signed range, may be "
               "rejected or written (zero-extended / two's complement)")
    res.assume("reads exhaustive for widths <= 6, writes for widths <= %d; larger widths sampled" % WS)
