"""C16  Waveform dumps replay the simulation exactly (VCD file and text wave).

spec/Vcd.tla (VCD reading rule, time scale / clock rule, packed layout, and a closed
simulator -> change-compressing writer -> file -> reader model), spec/VcdMC.tla (its tiny instance),
spec/VcdTrace.tla (trace validation), harness/vcdparse.py (independent VCD parser),
harness/vcd_designs.py (design library, random design generator, public-API observer).
  1. TLC checks Vcd.tla exhaustively on the instance of VcdMC (5 nets of 1-2 bits, one shared between
     two hierarchy levels, one never changing, every value sequence of N cycles): the reader's
     reconstruction equals the simulator's values at every cycle; seeded writer faults must violate.
  2. spec -> code: every complete behaviour of that model is replayed on the real design `Tiny` under
     DefaultPassGroup(vcdwave=..); the real file must be the model's file up to symbol names and
     redundant re-emissions (same $var set, same effective changes per stamp and signal).
  3. code -> spec: library designs (nets shared across levels, struct / nested / list / wide fields,
     constants, never-changing signals, slices, lists, interfaces, > 94 nets, 4 levels, non-zero reset
     values) x {DefaultPassGroup, SimpleSimPass} x {no reset, manual reset, sim_reset()} with revisiting
     input sequences, every input sequence of length L over the 1- and 2-bit inputs of `Small2`, and
     random hierarchical designs; each run's parsed .vcd + public-API snapshots + textwave_dict are
     validated by VcdTrace.  "Blind" twins repeat a run without any outside sim_eval_combinational() call
     and are validated against the observed twin's snapshots (the dump must see evaluated values itself).
  4. canaries: corrupted copies of accepted traces (value flipped, change dropped, timestamp shifted,
     wrong $var width, symbol of a net member swapped, initial value dropped, snapshot / text wave
     entry flipped) must be rejected with the expected clause.

NOTE: trusted base: Component.get_all_value_nets() (membership of the clock net), repr()/get_host_component()
for names, and reading a signal's value as top.<path> after sim_eval_combinational(); the cycles inside
top.sim_reset() cannot be observed through the public API - there the VCD is only required to agree with
the text wave. Cycle c is stamped #100c (read off dump_vcd_inner); the members of the clock net follow the
clock rule instead of the snapshot (the simulator's own s.clk stays 0). Only DefaultPassGroup and
SimpleSimPass support tracing (the mamba groups ignore `waveform`).
"""
import copy
import gc
import itertools

import tlc
import vcd_designs as D
from common import MachineryError, rng, scratch

READY = True

# C1-only JIT and two GC threads: trace validation is many short single-worker TLC runs in parallel
JOPTS = {"JAVA_TOOL_OPTIONS": "-XX:TieredStopAtLevel=1 -XX:ParallelGCThreads=2"}

MC_CFG = ("SPECIFICATION Spec\nCHECK_DEADLOCK FALSE\nCONSTANTS Sigs <- MC_Sigs\n Width <- MC_Width\n SymOf <- MC_SymOf\n"
          " Dom <- MC_Dom\n ClkSym = \"K\"\n NCycles = %d\n Period = 100\n Half = 50\n Fault = \"%s\"\n")
MC_INVS = "INVARIANT ReaderAccepts\nINVARIANT ReplayExact\nINVARIANT AllDeclared\nINVARIANT Complete\nINVARIANT Compressed\n"
MC_ACTIONS = ("WHeader", "WDump", "WClose", "Header", "Change", "Time", "Eof")
FAULTS = {"last-not-updated": "ReplayExact", "no-init": "ReaderAccepts", "clock-phase": "ReaderAccepts",
          "rep-of-other-net": "ReplayExact"}


# ----------------------------------------------------------------------------------------------
# 1. the model itself
# ----------------------------------------------------------------------------------------------

def _model_check(res, ncyc):
    r = tlc.run("VcdMC", cfg_text=MC_CFG % (ncyc, "none") + MC_INVS, coverage=True, timeout=3000)
    res.add_tlc(r)
    if r.violated:
        res.violation("model:Vcd:N=%d:%s" % (ncyc, r.violated), "Vcd.tla violates %s" % r.violated, r.out[-3000:])
    elif not r.ok:
        raise MachineryError("TLC failed on VcdMC: %s\n%s" % (r.errors, r.out[-2000:]))
    for act in MC_ACTIONS:
        if r.coverage.get(act, (0, 0))[1] == 0:
            raise MachineryError("action %s never taken in VcdMC (vacuous)" % act)
    res.note("model_cycles", ncyc)
    # redundant re-emission is admitted by the specification
    r = tlc.run("VcdMC", cfg_text=MC_CFG % (2, "benign-redundant") + MC_INVS, timeout=1800)
    res.add_tlc(r)
    if not r.ok:
        raise MachineryError("Vcd.tla rejects a writer that re-emits unchanged values: %s %s" % (r.violated, r.errors))
    # seeded writer faults: the invariants must notice
    for f, inv in sorted(FAULTS.items()):
        r = tlc.run("VcdMC", cfg_text=MC_CFG % (3, f) + MC_INVS, timeout=1800)
        res.add_tlc(r)
        if inv not in r.violated:
            raise MachineryError("model canary: fault %s does not violate %s (%s %s)" % (f, inv, r.violated, r.errors))
    res.note("model_faults_detected", len(FAULTS))


# ----------------------------------------------------------------------------------------------
# 2. spec -> code
# ----------------------------------------------------------------------------------------------

def _effective(events):
    """(stamp, symbol, value) of every change that alters the value of its symbol; stamp -1 = initial section.
    Also the $var table.  (Replay comparison only; verdicts about values come from VcdTrace.)"""
    cur, now, out = {}, -1, []
    for e in events:
        if e["k"] == "time":
            now = e["t"]
        elif e["k"] == "change":
            if cur.get(e["sym"]) != e["v"]:
                cur[e["sym"]] = e["v"]
                out.append((now, e["sym"], e["v"]))
    return out


def _graph_walk(res, lib, ncyc, traces):
    r, states, init, edges = tlc.dump_graph("VcdMC", cfg_text=MC_CFG % (ncyc, "none"))
    res.add_tlc(r)
    if r.errors or r.violated:
        raise MachineryError("VcdMC graph dump failed: %s %s" % (r.errors, r.violated))
    finals = [s for s in states.values() if s["phase"] == "done" and s["pos"] > len(s["file"])]
    if len(finals) != 16 ** ncyc:
        raise MachineryError("expected %d complete behaviours of VcdMC, found %d" % (16 ** ncyc, len(finals)))
    finals.sort(key=lambda s: repr(s["snap"]))
    n = 0
    firstbad = {}
    for st in finals:
        snap = st["snap"]
        mfile = [dict(e) for e in st["file"]]
        ses = D.Session(lib.Tiny, group="default", vcdname="walk%d" % n, textwave=True)
        for row in snap:
            ses.cycle({"s." + k: int(row[k], 2) for k in ("a", "b", "d")})
        tr = ses.finish("walk:" + ";".join("%s%s%s" % (row["a"], row["b"], row["d"]) for row in snap))
        traces.append(tr)
        n += 1
        # $var table and symbol sharing
        mvars = {(e["name"], e["w"]) for e in mfile if e["k"] == "var"}
        mcls = {}
        for e in mfile:
            if e["k"] == "var":
                mcls.setdefault(e["sym"], set()).add(e["name"])
        rvars, rcls, stack = set(), {}, []
        for e in tr["ev"]:
            if e["k"] == "scope":
                stack.append(e["name"])
            elif e["k"] == "upscope":
                stack.pop()
            elif e["k"] == "var":
                nm = ".".join(stack[1:] + [e["name"]])
                rvars.add((nm, e["w"]))
                rcls.setdefault(e["sym"], set()).add(nm)
        # per signal (the model shares one symbol per net; sharing is allowed, not required)
        me = sorted((t, nm, v) for (t, y, v) in _effective(mfile) for nm in mcls[y])
        re_ = sorted((t, nm, v) for (t, y, v) in _effective(tr["ev"]) for nm in rcls[y])
        if rvars != mvars:
            bad = ("vars", "Tiny: $var table %s differs from the model's %s" % (sorted(rvars), sorted(mvars)), None)
        elif me != re_:
            bad = ("changes", "Tiny driven with a,b,d = %s: effective value changes (stamp, signal, value) of the real "
                   "file differ from the model's file: %s" % (tr["name"][5:], sorted(set(me) ^ set(re_))[:6]),
                   {"model": me, "real": re_})
        else:
            bad = None
        if bad and bad[0] not in firstbad:      # one key per kind: the first failing input sequence
            firstbad[bad[0]] = True
            res.violation("replay:Tiny:%s:%s" % (bad[0], tr["name"][5:]), bad[1], bad[2])
        res.add_evals()
        res.distinct(("walk", tr["name"]))
        if n % 64 == 0:
            gc.collect()
    mid = finals[len(finals) // 2]
    res.sample({"kind": "spec->code behaviour", "inputs": [{k: row[k] for k in ("a", "b", "d")} for row in mid["snap"]],
                "model_file_tail": [dict(e) for e in mid["file"][-6:]]})
    res.note("spec_to_code_behaviours_replayed", n)


# ----------------------------------------------------------------------------------------------
# 3. code -> spec
# ----------------------------------------------------------------------------------------------

def _script(ses, R, ncyc, variant, hold=0.4):
    """The stimulus of one run: a list of ("set", inputs) / ("simreset",) / ("cycle", inputs, reset) steps."""
    pools = {p: D.pool_of(ses.intypes[p], R) for p in ses.inports}
    steps = []
    if variant == "manual":
        for _ in range(R.choice([1, 2, 3])):
            steps.append(("cycle", {p: R.choice(pools[p]) for p in ses.inports}, 1))
        steps.append(("cycle", {p: R.choice(pools[p]) for p in ses.inports if R.random() < 0.5}, 0))
    elif variant == "simreset":
        steps.append(("set", {p: R.choice(pools[p]) for p in ses.inports if R.random() < 0.5}))
        steps.append(("simreset",))
    for c in range(ncyc):
        rst = None
        if variant == "manual":
            rst = 1 if R.random() < 0.05 else 0
        steps.append(("cycle", {p: R.choice(pools[p]) for p in ses.inports if c == 0 or R.random() > hold}, rst))
    return steps


def _play(ses, steps, observe=True):
    for st in steps:
        if st[0] == "set":
            for p, v in st[1].items():
                ses.set_input(p, v)
        elif st[0] == "simreset":
            ses.sim_reset()
        else:
            ses.cycle(st[1], reset=st[2], observe=observe)


def _blind_twin(cls, group, vcdname, steps, tr, textwave=True):
    """The same run without any sim_eval_combinational() call from outside: the dump functions inside
    sim_tick must see evaluated values on their own.  Validated against the observed twin's snapshots."""
    ses = D.Session(cls, group=group, vcdname=vcdname, textwave=textwave)
    _play(ses, steps, observe=False)
    t2 = ses.finish(tr["name"] + ":blind")
    t2["snap"] = tr["snap"]
    if "_src" in tr:
        t2["_src"] = tr["_src"]
    return t2


def _lib_traces(res, lib, traces, nseeds, ncyc):
    for name in D.LIB:
        for group in ("default", "simple"):
            for variant in ("plain", "manual", "simreset"):
                for sd in range(nseeds):
                    R = rng("c16/lib/%s/%s/%s/%d" % (name, group, variant, sd))
                    tw = not (sd == 1 and variant == "plain")      # one run per design without the text wave
                    ses = D.Session(getattr(lib, name), group=group, vcdname="%s_%s_%s_%d" % (name, group, variant, sd),
                                    textwave=tw)
                    steps = _script(ses, R, ncyc, variant)
                    _play(ses, steps)
                    tr = ses.finish("lib:%s:%s:%d" % (name, variant, sd))
                    _layout(res, ses, tr)
                    traces.append(tr)
                    if sd == 0:
                        traces.append(_blind_twin(getattr(lib, name), group, "%s_%s_%s_b" % (name, group, variant),
                                                  steps, tr))
                    res.distinct(("lib", name, group, variant, sd))
        gc.collect()


def _seq_traces(res, lib, traces, length):
    """every input sequence of `length` cycles over (a: 1 bit) x (b: 2 bits) on Small2"""
    dom = [(a, b) for a in range(2) for b in range(4)]
    n = 0
    for seq in itertools.product(dom, repeat=length):
        group = "default" if n % 2 == 0 else "simple"
        ses = D.Session(lib.Small2, group=group, vcdname="seq%d" % n)
        if n % 3 == 2:
            ses.cycle({"s.a": seq[0][0], "s.b": seq[0][1]}, reset=1)
        for (a, b) in seq:
            ses.cycle({"s.a": a, "s.b": b}, reset=0)
        tr = ses.finish("seq:Small2:" + ",".join("%d%d" % ab for ab in seq))
        traces.append(tr)
        if n % 3 == 1:
            steps = [("cycle", {"s.a": a, "s.b": b}, 0) for (a, b) in seq]
            traces.append(_blind_twin(lib.Small2, group, "seq%d_b" % n, steps, tr))
        n += 1
        if n % 128 == 0:
            gc.collect()
    res.distinct(("seq", length))
    res.note("exhaustive_input_sequences", "Small2: all %d sequences of %d cycles over a(1 bit) x b(2 bits)" % (n, length))
    res.count("distinct_seq_cases", n)


def _rand_traces(res, traces, d, nrand, ncyc):
    for k in range(nrand):
        R = rng("c16/rand/%d" % k)
        src = D.PRELUDE + D.gen_random(R, k)
        try:
            m = D.load_source(src, d, stem="c16_rand")
            group = "default" if R.random() < 0.5 else "simple"
            variant = R.choice(["plain", "manual", "simreset"])
            ses = D.Session(getattr(m, "RandTop%d" % k), group=group, vcdname="rand%d" % k)
        except Exception as e:
            raise MachineryError("random design %d is not a legal pymtl3 design (%s: %s)\n%s"
                                 % (k, type(e).__name__, str(e)[:300], src[len(D.PRELUDE):]))
        steps = _script(ses, R, ncyc, variant)
        _play(ses, steps)
        tr = ses.finish("rand:%d:%s" % (k, variant))
        tr["_src"] = src[len(D.PRELUDE):]
        _layout(res, ses, tr)
        traces.append(tr)
        if k % 2 == 0:
            traces.append(_blind_twin(getattr(m, "RandTop%d" % k), group, "rand%d_b" % k, steps, tr))
        res.distinct(("rand", k))
        if k % 40 == 0:
            gc.collect()
        if k == 1:
            res.sample({"kind": "random design", "source": tr["_src"][:1500]})


def _layout(res, ses, tr):
    for (p, c, lv, ref) in ses.layout_disagreements[:3]:
        res.violation("layout:%s:%s" % (tr["name"], p),
                      "%s: to_bits() of %s in cycle %d is %s but the fields, first field most significant, give %s"
                      % (tr["name"], p, c, ref, lv))


def _strip(tr):
    return {k: v for k, v in tr.items() if not k.startswith("_")}


def _cycle_of(tr, pos):
    now = -1
    for e in tr["ev"][:max(0, pos - 1)]:
        if e["k"] == "time":
            now = e["t"]
    return now


def _validate(res, traces):
    runs, verdicts = tlc.validate_traces("VcdTrace", {"traces": [_strip(t) for t in traces]}, env=JOPTS, timeout=3000)
    for r in runs:
        res.add_tlc(r)
    res.add_traces(len(traces))
    res.add_evals(sum(len(t["ev"]) for t in traces))
    kinds = set()
    seqfail = {}
    for t, (err, pos) in zip(traces, verdicts):
        kinds |= {e["k"] for e in t["ev"]}
        if err == "ok":
            if pos != len(t["ev"]) + 1:
                raise MachineryError("trace %s accepted without reading all events (%d of %d)" % (t["name"], pos, len(t["ev"])))
            continue
        if err.startswith("bad-trace"):
            raise MachineryError("harness produced an ill-formed trace %s: %s" % (t["name"], err))
        stamp = _cycle_of(t, pos)
        what = "%s under %s: %s when leaving #%s (event %d: %s)" % (t["name"], t["group"], err, stamp, pos, t["ev"][pos - 1])
        detail = {"clause": err, "event": pos, "stamp": stamp, "design_source": t.get("_src"),
                  "sigs": [s["name"] for s in t["sigs"]], "events_before": t["ev"][max(0, pos - 12):pos]}
        if t["name"].startswith("seq:") or t["name"].startswith("walk:"):
            kind, design_or_seq = t["name"].split(":", 1)
            k = "%s:%s:%s" % (kind, t["group"], err)
            if k not in seqfail:       # one key per (family, group, clause): the first failing sequence
                seqfail[k] = True
                res.violation("trace:%s:%s:%s" % (t["name"], t["group"], err), what, detail)
        else:
            res.violation("trace:%s:%s:%s" % (t["name"], t["group"], err), what, detail)
    for k in ("scope", "upscope", "var", "enddefs", "change", "time", "eof"):
        if k not in kinds and not res.violations and not res.known:
            raise MachineryError("no %s event in any trace (vacuous)" % k)
    return verdicts


# ----------------------------------------------------------------------------------------------
# 4. canaries
# ----------------------------------------------------------------------------------------------

def _sym_sigs(tr):
    """symbol -> indices of the signals declared with it (by path / name), from the trace itself"""
    decl, stack = {}, []
    for e in tr["ev"]:
        if e["k"] == "scope":
            stack.append(e["name"])
        elif e["k"] == "upscope":
            stack.pop()
        elif e["k"] == "var":
            decl[(tuple(stack), e["name"])] = e["sym"]
    out = {}
    for i, s in enumerate(tr["sigs"]):
        out.setdefault(decl[(tuple(s["path"]), s["vname"])], []).append(i)
    return out


def _canaries(tr, R):
    """list of (kind, corrupted trace, tuple of acceptable clause prefixes)"""
    out = []
    ev = tr["ev"]
    ss = _sym_sigs(tr)
    data_syms = {y for y, idx in ss.items() if any(not tr["sigs"][i]["clk"] for i in idx)}
    # effective data changes after the first #0 (their stamp is a sampled cycle)
    cur, now, eff = {}, -1, []
    for i, e in enumerate(ev):
        if e["k"] == "time":
            now = e["t"]
        elif e["k"] == "change":
            if cur.get(e["sym"]) != e["v"] and now >= 0 and e["sym"] in data_syms and now < tr["period"] * tr["ncyc"]:
                eff.append(i)
            cur[e["sym"]] = e["v"]
    observed = [c for c in range(tr["ncyc"]) if tr["snap"][c]]
    twsyms = {y for y, idx in ss.items() if any(tr["sigs"][i]["tw"] and not tr["sigs"][i]["clk"] for i in idx)}
    vm = ("value-mismatch", "textwave-differs-from-vcd")

    def noticed(i):
        """a corrupted change event i is certainly noticed: its cycle was observed, or a member of its net is
        in the text wave"""
        return bool(tr["snap"][_cycle_of(tr, i + 1) // tr["period"]]) or ev[i]["sym"] in twsyms
    eff = [i for i in eff if noticed(i)]
    if eff:
        i = R.choice(eff)
        c = copy.deepcopy(tr)
        v = c["ev"][i]["v"]
        j = R.randrange(len(v))
        c["ev"][i]["v"] = v[:j] + ("1" if v[j] == "0" else "0") + v[j + 1:]
        out.append(("flip-one-value-change", c, vm))
        i = R.choice(eff)
        c = copy.deepcopy(tr)
        del c["ev"][i]
        out.append(("drop-a-change", c, vm))
    times = [i for i, e in enumerate(ev) if e["k"] == "time" and e["t"] > 0]
    if times:
        i = R.choice(times)
        c = copy.deepcopy(tr)
        c["ev"][i]["t"] += R.choice([-10, 10, 7])
        out.append(("shift-one-timestamp", c, ("clock-edge-missing", "clock-level-wrong", "time-not-increasing",
                                               "file-does-not-end")))
        c = copy.deepcopy(tr)
        for e in c["ev"]:
            if e["k"] == "time":
                e["t"] += tr["period"]
        out.append(("delay-all-timestamps", c, vm + ("file-does-not-end", "textwave")))
    vars_ = [i for i, e in enumerate(ev) if e["k"] == "var"]
    i = R.choice(vars_)
    c = copy.deepcopy(tr)
    c["ev"][i]["w"] += R.choice([1, -1]) if c["ev"][i]["w"] > 1 else 1
    out.append(("wrong-width-in-var", c, ("var-width-mismatch", "symbol-declared-with-two-widths")))
    # a net member declared with the symbol of another net of the same width
    byw = {}
    for i in vars_:
        byw.setdefault(ev[i]["w"], set()).add(ev[i]["sym"])
    nvars = {}
    for i in vars_:
        nvars[ev[i]["sym"]] = nvars.get(ev[i]["sym"], 0) + 1
    cand = [i for i in vars_ if len(byw[ev[i]["w"]] & data_syms) > 1 and ev[i]["sym"] in data_syms
            and nvars[ev[i]["sym"]] > 1]
    if cand and observed:
        # the other symbol must differ in value at the stamp of an observed cycle
        hist = {}
        cur = {}
        now = -1
        for e in ev:
            if e["k"] == "change":
                cur[e["sym"]] = e["v"]
            elif e["k"] in ("time", "eof"):
                if now >= 0 and now % tr["period"] == 0 and now // tr["period"] in observed:
                    for y, v in cur.items():
                        hist.setdefault(y, []).append(v)
                now = e.get("t", now)
        R.shuffle(cand)
        for i in cand:
            others = [y for y in byw[ev[i]["w"]] & data_syms if y != ev[i]["sym"] and hist.get(y) != hist.get(ev[i]["sym"])]
            if others:
                c = copy.deepcopy(tr)
                c["ev"][i]["sym"] = sorted(others)[0]
                out.append(("wrong-symbol-for-a-net-member", c, vm + ("textwave-mismatch",)))
                break
    inits = [i for i, e in enumerate(ev) if e["k"] == "change" and i < (times[0] if times else len(ev))
             and _cycle_of(tr, i + 1) == -1]
    if inits:
        i = R.choice(inits)
        c = copy.deepcopy(tr)
        del c["ev"][i]
        out.append(("drop-an-initial-value", c, ("initial-value-missing",)))
    if observed:
        cc = R.choice(observed)
        data = [i for i, s in enumerate(tr["sigs"]) if not s["clk"]]
        i = R.choice(data)
        c = copy.deepcopy(tr)
        lf = c["snap"][cc][i]
        j = R.randrange(len(lf))
        b = lf[j]
        lf[j] = ("1" if b[0] == "0" else "0") + b[1:]
        out.append(("flip-a-snapshot-bit", c, ("value-mismatch",)))
    twi = [i for i, s in enumerate(tr["sigs"]) if s["tw"] and not s["clk"] and tr["tw"][i]]
    if twi:
        i = R.choice(twi)
        c = copy.deepcopy(tr)
        cc = R.randrange(len(c["tw"][i]))
        v = c["tw"][i][cc]
        c["tw"][i][cc] = v[:-1] + ("1" if v[-1] == "0" else "0")
        out.append(("flip-a-textwave-entry", c, ("textwave-mismatch", "textwave-differs-from-vcd")))
        c = copy.deepcopy(tr)
        c["tw"][i] = [c["tw"][i][0]] + c["tw"][i]          # appended once too often / before evaluation
        out.append(("textwave-shifted-by-one", c, ("textwave",)))
    return out


def _run_canaries(res, traces, verdicts, ncan):
    R = rng("c16/canary")
    good = [t for t, v in zip(traces, verdicts) if v[0] == "ok"]
    if not good:
        return
    pick = [t for t in good if t["name"].startswith("lib:")][:ncan] + \
           [t for t in good if t["name"].startswith("rand:")][:ncan // 2] + \
           [t for t in good if t["name"].startswith("seq:")][5:5 + ncan // 2]
    cans = []
    for t in pick:
        cans += [(k, c, exp, t["name"]) for (k, c, exp) in _canaries(_strip(t), R)]
    if not cans:
        raise MachineryError("no canary could be built")
    _, cv = tlc.validate_traces("VcdTrace", {"traces": [c for (_k, c, _e, _n) in cans]}, env=JOPTS, timeout=3000)
    kinds = {}
    for (k, c, exp, nm), (err, pos) in zip(cans, cv):
        if err == "ok":
            raise MachineryError("canary %s on %s accepted by VcdTrace" % (k, nm))
        if not any(err.startswith(p) for p in exp):
            raise MachineryError("canary %s on %s rejected for an unexpected reason: %s" % (k, nm, err))
        kinds[k] = kinds.get(k, 0) + 1
    need = {"flip-one-value-change", "drop-a-change", "shift-one-timestamp", "wrong-width-in-var",
            "wrong-symbol-for-a-net-member", "drop-an-initial-value", "flip-a-snapshot-bit", "flip-a-textwave-entry"}
    if need - set(kinds) and not res.violations and not res.known:
        # (with violations around, too few accepted traces may be left to build every kind)
        raise MachineryError("canary kinds never built: %s" % sorted(need - set(kinds)))
    res.note("canaries_rejected", kinds)


# ----------------------------------------------------------------------------------------------

def run(res, tier):
    quick = tier == "quick"
    _model_check(res, 3 if quick else 4)
    traces = []
    with scratch() as d:
        lib = D.load_source(D.LIB_SRC, d)
        _graph_walk(res, lib, 2 if quick else 3, traces)
        _lib_traces(res, lib, traces, 2 if quick else 12, 14 if quick else 30)
        _seq_traces(res, lib, traces, 3 if quick else 4)
        _rand_traces(res, traces, d, 40 if quick else 1500, 12 if quick else 24)
    res.sample({"kind": "impl trace (head)", "name": traces[300]["name"], "group": traces[300]["group"],
                "sigs": [s["name"] for s in traces[300]["sigs"]][:12], "events": traces[300]["ev"][20:32]})
    verdicts = _validate(res, traces)
    _run_canaries(res, traces, verdicts, 16 if quick else 48)
    res.note("signals_checked", sum(len(t["sigs"]) for t in traces))
    res.note("cycles_checked", sum(t["ncyc"] for t in traces))
    res.note("widths_covered", sorted({s["w"] for t in traces for s in t["sigs"]})[:40])
    res.note("max_symbols_in_one_file", max(len({e["sym"] for e in t["ev"] if e["k"] == "var"}) for t in traces))
    res.note("rule", "a case is one simulation run (design, pass group, reset variant, input sequence): library "
             "designs x 2 groups x 3 reset variants x seeds with inputs drawn from 2-4 value pools (full domain for "
             "1-2 bit ports) held with probability 0.4 so that values are revisited; all input sequences of Small2; "
             "every complete behaviour of the TLC model replayed on Tiny; random hierarchical designs composed of "
             "nets, registers, slices, struct packers, update blocks, constants, undriven wires and component lists")
    res.assume("cycle c is stamped #100c and sampled after the changes written there (the dump function runs in "
               "sim_tick after the combinational schedule and before the flip-flops)")
    res.assume("members of the net of top.clk follow the clock rule (high on [100c,100c+50), low on [100c+50,100c+100)) "
               "instead of the simulator value of s.clk, which stays 0")
    res.assume("cycles executed inside top.sim_reset() are checked only for VCD == text wave (not observable)")
    res.assume("text wave: every top-level signal whose field name is not clk/reset, plus s.reset, is expected in "
               "textwave_dict; '0b' + packed bits")
    res.assume("list fields of a bitstruct are packed arrays: element 0 least significant (bitstructs.py)")
