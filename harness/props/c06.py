"""C06  Bitstruct packing is a lossless, order-preserving bijection.

spec/BitStruct.tla (shapes, NBits, Layout, Pack/Unpack over bit sequences, object state machine
with @=, <<=, _flip, clone, deepcopy, from_bits, default construction and leaf mutation),
spec/BitStructMC.tla (bounded family of shapes), spec/BitStructTiny.tla (exhaustive object machine for
a tiny shape), spec/BitStructDecl.tla (declaration histories under one class name: the type returned
is the type declared, whatever was declared before), spec/BitStructTrace.tla (trace validation).
  1. TLC enumerates every shape of the bounded family (depth <= 3, <= 3 fields, 1-/2-dimensional
     lists with dimensions 1 or 2, leaf widths 1..3, at most K shape nodes), checks for each one the
     layout partition / field order / width / both round trips (over all bit vectors up to ExhBits
     bits) and walks the aliasing script with the spec's Step function (frame property: only the
     destination object changes, <<= invisible until the flip, default-constructed objects share nothing).
  2. spec -> code: the case table TLC wrote (shape, nbits, layout, sample values with packed bits,
     script with the packed destination value after every step) is replayed on classes built
     through BOTH @bitstruct source in a scratch .py file and mk_bitstruct: nbits, to_bits,
     from_bits, layout by field reads, ==/!=, hash consistency, clone, deepcopy, and after every
     script step all three objects are compared (field reads and to_bits).  For tiny shapes the
     complete state graph of the object machine is dumped and every transition replayed.
     Declaration histories: TLC enumerates every sequence of <= 3 declarations (through @bitstruct and
     mk_bitstruct) of 7 (thorough 11) shapes that are permutations / re-typings of each other (field order
     rotated / exchanged, leaf widths exchanged, another list dimension, nested type, nested type permuted)
     and share ONE class name, checks HistoryIndependent / KeySound for the cache key pymtl3 uses (an
     order-forgetting key must be rejected: canary of the model), and every maximal history is replayed on
     the real API in one process; after EVERY declaration the class just returned is validated against the
     TLC expectation of the declared shape (nbits, keyword and positional construction, to_bits,
     from_bits, layout by field reads, field order) and the classes returned earlier are validated again.
  3. code -> spec: random shapes up to 1023 bits (nesting depth <= 4, lists up to 2 dimensions,
     awkward field names), random histories of all operations on three real objects; the recorded
     events (values read field by field after each call, to_bits results, measured layout, nbits,
     ==, hash) are validated by BitStructTrace.  Re-declaration groups: a random shape and variants of it
     (fields permuted at the top / in a nested struct, one leaf width or list dimension changed, the types
     of two fields exchanged, the identical declaration again) are declared one after the other under the
     same class name through alternating routes, each returned class driving its own validated history.
  4. canaries: corrupted copies of accepted traces (swapped fields, reversed list order, flipped
     packed bit, aliasing, <<= visible early, ignored flip, wrong ==) and corrupted expectation
     tables (family and declaration) must be rejected.

NOTE: _flip() of an object that has no complete pending value (never the target of <<=, or a leaf
was replaced by a new Bits object since) raises AttributeError in pymtl3; the statement says
nothing about it, the spec disables Flip there and the generators avoid it.  Constructing T(...) from
list / nested-struct argument objects stores the caller's objects (plain Python reference semantics,
not covered by the statement); only from_bits, default construction T(), clone, deepcopy, @= and <<= are
required to produce / keep independent objects.  Every declaration history runs under its own class
name in the one process of the check (pymtl3's class cache is process-wide and cannot be reset).
Trusted base: the harness reads objects field by field (getattr / list index / int(Bits)) and builds
values with the class constructors; the packing order itself is known only to the TLA+ modules.
"""
import collections
import concurrent.futures as cf
import copy
import json
import multiprocessing
import os

import c06_lib as L
import tlc
from common import MachineryError, rng, scratch

READY = True

NM = ("x", "y", "z")
CREATING = ("frombits", "default", "clone", "deepcopy")


def _ncpu():
    return max(2, min(os.cpu_count() or 4, 16))


def _tup(v):
    return tuple(_tup(x) for x in v) if isinstance(v, (list, tuple)) else v


# --------------------------------------------------------------------------------------
# comparing real objects with expectations that come from TLC
# --------------------------------------------------------------------------------------

def _mismatch(obj, cls, shape, layout, bits, nbits):
    """None if the real object holds exactly the value whose packed form is `bits` (judged by
    field reads through the TLC layout AND by to_bits()); otherwise a description."""
    try:
        L.project(obj, shape, cls)          # structure (types, list lengths, leaf widths)
        for e in layout:
            got = L.bits_of(L.nav(obj, e["path"]), e["hi"] - e["lo"], ".".join(e["path"]))
            if got != bits[e["lo"]:e["hi"]]:
                return "field %s holds %s, expected %s" % (".".join(e["path"]), got, bits[e["lo"]:e["hi"]])
        tb = L.bits_of(obj.to_bits(), nbits, "to_bits()")
        if tb != bits:
            return "to_bits() gives %s, expected %s (fields are right)" % (tb, bits)
    except L.Structure as ex:
        return "structure: %s" % ex
    return None


def _check_case(case, cls, route, V):
    """spec -> code for one shape and one construction route. V collects violations."""
    shape, nbits, layout = case["shape"], case["nbits"], case["layout"]
    sstr = L.shape_str(shape)
    nn = L.n_nodes(shape)
    nev = 0

    def viol(kind, what, detail=None):
        V.append({"kind": kind, "route": route, "shape": sstr, "size": nn, "what": what, "detail": detail})

    def guarded(kind, fn):
        try:
            return True, fn()
        except L.Structure as ex:
            viol(kind, "%s: %s" % (kind, ex))
        except Exception as ex:  # noqa: BLE001 - anything the real code raises is a finding here
            viol(kind + ":raises", "%s raised %s: %s" % (kind, type(ex).__name__, ex))
        return False, None

    if cls.nbits != nbits:
        viol("nbits", "nbits is %r, the sum of the leaf widths is %d" % (cls.nbits, nbits))
        return nev
    objs = []
    for val in case["vals"]:
        b, v = val["b"], val["v"]
        nev += 1
        ok, o = guarded("constructor", lambda: L.build_value(cls, shape, v))
        if not ok:
            return nev
        ok, got = guarded("to_bits", lambda: L.bits_of(o.to_bits(), nbits, "to_bits()"))
        if not ok:
            return nev
        if got != b:
            viol("to_bits", "to_bits() of value %s gives bits (LSB first) %s, specification %s" % (v, got, b))
            return nev
        ok, got = guarded("to_bits", lambda: (L.scribble(o.to_bits()), L.bits_of(o.to_bits(), nbits, "to_bits()"))[1])
        if not ok:
            return nev
        if got != b:
            viol("to_bits-aliases-field", "after overwriting the Bits object returned by to_bits() in place, to_bits() "
                 "of value %s gives %s, specification %s" % (v, got, b))
            return nev
        ok, f = guarded("from_bits", lambda: cls.from_bits(L.mkbits(b)))
        if not ok:
            return nev
        ok, pv = guarded("from_bits", lambda: L.project(f, shape, cls))
        if not ok:
            return nev
        if pv != v:
            viol("from_bits", "from_bits(%s) has fields %s, specification %s" % (b, pv, v))
            return nev
        mm = _mismatch(f, cls, shape, layout, b, nbits)
        if mm:
            viol("layout", "from_bits(%s): %s" % (b, mm))
            return nev
        ok, rt = guarded("roundtrip", lambda: (cls.from_bits(o.to_bits()) == o, f == o, f != o))
        if not ok:
            return nev
        if rt != (True, True, False):
            viol("eq", "from_bits(to_bits(v)) == v, from_bits(b) == v, from_bits(b) != v give %s for v=%s" % (rt, v))
            return nev
        for nm, mk in (("clone", lambda: o.clone()), ("deepcopy", lambda: copy.deepcopy(o))):
            ok, c = guarded(nm, mk)
            if not ok:
                return nev
            mm = _mismatch(c, cls, shape, layout, b, nbits)
            if mm is None and (c is o or not (c == o)):
                mm = "copy is the same object" if c is o else "copy != original"
            if mm:
                viol(nm, "%s of value %s: %s" % (nm, v, mm))
                return nev
        objs.append((b, o, f))
    # equality and hashing agree with the packed value, for every pair of sample values
    hash_done = False
    for i, (bi, oi, fi) in enumerate(objs):
        for j, (bj, oj, fj) in enumerate(objs):
            if j < i:
                continue
            nev += 1
            ok, eq = guarded("eq", lambda: (oi == fj, oi != fj))
            if not ok:
                return nev
            if eq != (bi == bj, bi != bj):
                viol("eq", "(a == b, a != b) is %s for packed values %s and %s" % (eq, bi, bj))
                return nev
            if bi == bj and not hash_done:
                kind, h = L.hash_pair(oi, fj, shape)
                if kind == "hash-list-field":
                    viol("hash-list-field", "hash() of a bitstruct with a list field raises TypeError (%s); "
                         "smallest shape seen: %s" % (h, sstr))
                    hash_done = True
                elif kind:
                    viol("hash:raises", "hash() raised %s" % h)
                    hash_done = True
                elif h[0] != h[1]:
                    viol("hash", "equal objects (packed %s) hash differently" % bi)
                    hash_done = True
    # the aliasing script
    real, exp = {}, {}
    for k, step in enumerate(case["script"]):
        a = step["a"]
        nev += 1
        try:
            L.apply_action(real, cls, a)
        except Exception as ex:  # noqa: BLE001
            viol("script:%s:raises" % a["op"], "step %d %s raised %s: %s" % (k + 1, L.act_str(a), type(ex).__name__, ex),
                 {"steps": [L.act_str(s["a"]) for s in case["script"][:k + 1]]})
            return nev
        exp[a["d"]] = step["bits"]
        for n in NM:
            if n not in exp:
                continue
            mm = _mismatch(real[n], cls, shape, layout, exp[n], nbits)
            if mm:
                clause = "wrong-result" if n == a["d"] else "changed-another-object"
                viol("script:%s:%s" % (a["op"], clause),
                     "step %d %s: object %s: %s" % (k + 1, L.act_str(a), n, mm),
                     {"steps": [L.act_str(s["a"]) for s in case["script"][:k + 1]]})
                return nev
    return nev


def _replay_part(args):
    """Worker: replay a slice of the family case files through both construction routes."""
    files, part, sdir = args
    cases = []
    for fn in files:
        cases += json.load(open(fn))
    V = []
    feats = collections.Counter()
    nev = 0
    src = L.SrcModule("c06_fam_%d" % part)
    names = [src.add(c["shape"], "F%d" % part) for c in cases]
    src.load(sdir)
    sample = None
    for c, nm in zip(cases, names):
        for f in L.features(c["shape"]):
            feats[f] += 1
        nev += _check_case(c, src.get(nm), "src", V)
        nev += _check_case(c, L.build_mk(c["shape"], "M%d" % part), "mk", V)
        if sample is None and L.has_list(c["shape"]) and L.depth(c["shape"]) >= 2:
            sample = {"kind": "spec->code case", "shape": L.shape_str(c["shape"]), "nbits": c["nbits"],
                      "layout": [(".".join(e["path"]), e["lo"], e["hi"]) for e in c["layout"]],
                      "script_steps": len(c["script"])}
    can = [c for c in cases if len(c["layout"]) >= 2 and len(c["script"]) > 6][:1]
    return {"V": V, "feats": dict(feats), "nev": nev, "n": len(cases), "sample": sample,
            "shapes": [L.shape_str(c["shape"]) for c in cases], "canary": can[0] if can else None}


def _report(res, V, prefix=""):
    """At most 3 violations per (kind, route): the smallest shapes, deterministically."""
    groups = collections.defaultdict(list)
    for v in V:
        groups[(v["kind"], v["route"])].append(v)
    for (kind, route), vs in sorted(groups.items()):
        vs.sort(key=lambda v: (v["size"], len(v["shape"]), v["shape"]))
        if kind == "hash-list-field":
            res.violation("hash-list-field", vs[0]["what"] + " (%d shapes with a list field affected)" %
                          len({v["shape"] for v in V if v["kind"] == kind}), {"shape": vs[0]["shape"]})
            continue
        for v in vs[:3]:
            res.violation("%s%s:%s:%s" % (prefix, kind, route, v["shape"]),
                          "bitstruct %s (built by %s): %s" % (v["shape"], "@bitstruct source" if route.endswith("src")
                                                              else "mk_bitstruct", v["what"]),
                          {"shape": v["shape"], "route": route, "detail": v["detail"],
                           "others_of_this_kind": len(vs) - 1})


def _family(res, K, exh, sdir):
    cfg = ("SPECIFICATION Spec\nCONSTANTS MaxNodes = %d\n MaxFields = 3\n Widths = {1, 2, 3}\n ListNs = {1, 2}\n"
           " ExhBits = %d\n"
           "INVARIANT ShapeInv\nINVARIANT NotStuck\nINVARIANT Complete\nPROPERTY Frame\nCHECK_DEADLOCK FALSE\n")
    odir = os.path.join(sdir, "family")
    os.makedirs(odir)
    r = tlc.run("BitStructMC", cfg_text=cfg % (K, exh), env={"VERIF_OUT": odir}, timeout=6 * 3600,
                deadlock=False, heap="4g")
    res.add_tlc(r)
    if r.violated:
        res.violation("model:family:K=%d:%s" % (K, sorted(set(r.violated))),
                      "BitStruct.tla violates %s on a shape of the bounded family" % r.violated, r.out[-3000:])
        return
    if not r.ok:
        raise MachineryError("TLC failed on BitStructMC: %s\n%s" % (r.errors, r.out[-2500:]))
    files = sorted(os.path.join(odir, f) for f in os.listdir(odir))
    total_states = r.distinct
    nparts = _ncpu()
    ctx = multiprocessing.get_context("fork")
    with cf.ProcessPoolExecutor(max_workers=nparts, mp_context=ctx) as pp:
        results = list(pp.map(_replay_part, [(files[p::nparts], p, sdir) for p in range(nparts)]))
    n = sum(r["n"] for r in results)
    want = L.family_count(K)
    shapes = set()
    for r in results:
        shapes.update(r["shapes"])
    if not res.violations and (n != want or len(shapes) != want):
        raise MachineryError("family of %d nodes: TLC produced %d cases (%d distinct), expected %d"
                             % (K, n, len(shapes), want))
    if total_states < 10 * n:
        raise MachineryError("the script actions were not taken in BitStructMC (vacuous): %d states for %d shapes"
                             % (total_states, n))
    V = []
    feats = collections.Counter()
    for r in results:
        V += r["V"]
        feats.update(r["feats"])
        res.add_evals(r["nev"])
        if r["sample"]:
            res.sample(r["sample"], cap=2)
    for s in shapes:
        res.distinct(("shape", s))
    for f in ("1-element-list", "2d-list", "list-of-structs", "equal-width-siblings", "struct-in-struct",
              "depth=3", "fields=3"):
        if not feats.get(f):
            raise MachineryError("the bounded family contains no shape with feature %s" % f)
    res.note("family_shapes", n)
    res.note("family_features", dict(sorted(feats.items())))
    _report(res, V)
    # canary: a corrupted expectation table must be noticed by the replay
    can = next(r["canary"] for r in results if r["canary"] and len(r["canary"]["layout"]) >= 2)
    bad = []
    c1 = copy.deepcopy(can)                       # two leaves swapped in the layout
    c1["layout"][0]["path"], c1["layout"][1]["path"] = c1["layout"][1]["path"], c1["layout"][0]["path"]
    c2 = copy.deepcopy(can)                       # one bit of an expected packed value flipped
    c2["vals"][3]["b"][0] ^= 1
    c3 = copy.deepcopy(can)                       # script: a step's expected result perturbed
    c3["script"][5]["bits"][0] ^= 1
    c4 = copy.deepcopy(can)
    c4["nbits"] += 1
    for i, c in enumerate((c1, c2, c3, c4)):
        VV = []
        _check_case(c, L.build_mk(c["shape"], "CAN"), "mk", VV)
        if not [v for v in VV if v["kind"] != "hash-list-field"]:
            bad.append(i)
    if bad:
        raise MachineryError("corrupted expectation tables %s were accepted by the replay" % bad)
    res.count("canaries_rejected", 4)


# --------------------------------------------------------------------------------------
# declaration histories (spec/BitStructDecl.tla): one class name, declared again and again
# --------------------------------------------------------------------------------------

def _decl_shapes(tier):
    """A handful of shapes that are permutations / re-typings of each other; all are declared under ONE
    class name (nested struct classes too), so any cache key that forgets what distinguishes two of them
    hands out the wrong type."""
    lf, st, ls = L.leaf, L.struct, L.lst
    inner = st([("x", lf(1)), ("y", lf(2))])
    shapes = [
        st([("a", lf(2)), ("b", lf(3)), ("c", ls(2, lf(1)))]),        # base
        st([("c", ls(2, lf(1))), ("a", lf(2)), ("b", lf(3))]),        # field order: rotation
        st([("b", lf(3)), ("a", lf(2)), ("c", ls(2, lf(1)))]),        # field order: first two exchanged
        st([("a", lf(3)), ("b", lf(2)), ("c", ls(2, lf(1)))]),        # same names, leaf widths exchanged
        st([("a", lf(2)), ("b", lf(3)), ("c", ls(3, lf(1)))]),        # another list dimension
        st([("a", lf(2)), ("n", inner)]),                             # nested type
        st([("a", lf(2)), ("n", st([("y", lf(2)), ("x", lf(1))]))]),  # nested type with its fields permuted
    ]
    if tier != "quick":
        shapes += [
            st([("a", lf(2)), ("b", lf(3)), ("c", ls(1, ls(2, lf(1))))]),   # 1x2 list instead of 2
            st([("n", inner), ("a", lf(2))]),                               # nested type first
            st([("a", lf(2)), ("n", st([("x", lf(2)), ("y", lf(1))]))]),    # nested type, widths exchanged
            st([("a", lf(2)), ("n", ls(1, inner))]),                        # list of the nested type
        ]
    return shapes


def _check_decl(case, cls, light=False):
    """Is `cls` the type the declared shape denotes?  -> list of (clause, text).  Judged by nbits, the field
    order, construction by keyword AND by position, to_bits, from_bits and field reads through the TLC layout."""
    shape, nbits, layout = case["shape"], case["nbits"], case["layout"]
    out = []
    try:
        if cls.nbits != nbits:
            return [("nbits", "nbits is %r, the declared leaves sum to %d" % (cls.nbits, nbits))]
        vals = case["vals"][:3] if light else case["vals"]
        for val in vals:
            b, v = val["b"], val["v"]
            o = L.build_value(cls, shape, v)                      # keyword construction
            got = L.bits_of(o.to_bits(), nbits, "to_bits()")
            if got != b:
                out.append(("to_bits", "to_bits() of value %s gives bits (LSB first) %s, specification %s" % (v, got, b)))
                break
            f = cls.from_bits(L.mkbits(b))
            pv = L.project(f, shape, cls)
            if pv != v:
                out.append(("from_bits", "from_bits(%s) has fields %s, specification %s" % (b, pv, v)))
                break
            mm = _mismatch(f, cls, shape, layout, b, nbits)
            if mm:
                out.append(("layout", "from_bits(%s): %s" % (b, mm)))
                break
        for val in () if light else vals:
            b, v = val["b"], val["v"]
            o = L.build_value(cls, shape, v)
            parts = [copy.deepcopy(getattr(o, fd["n"])) for fd in shape["fs"]]
            try:
                p = cls(*parts)                                   # positional construction, declared order
                got = L.bits_of(p.to_bits(), nbits, "to_bits()")
            except Exception as ex:  # noqa: BLE001
                out.append(("positional-init", "T(*fields in declared order) raised %s: %s" % (type(ex).__name__, ex)))
                break
            if got != b:
                out.append(("positional-init", "T(*fields in declared order).to_bits() gives %s, specification %s" % (got, b)))
                break
        order = list(cls.__bitstruct_fields__)
        if order != [f["n"] for f in shape["fs"]]:
            out.append(("field-order", "__bitstruct_fields__ lists %s, declared %s" % (order, [f["n"] for f in shape["fs"]])))
    except L.Structure as ex:
        out.append(("structure", str(ex)))
    except Exception as ex:  # noqa: BLE001
        out.append(("raises", "%s: %s" % (type(ex).__name__, ex)))
    return out


def _decl_label(cases, i, r=None):
    return ("%s:" % r if r else "") + L.shape_str(cases[i - 1]["shape"])


def _decl_part(args):
    """Worker: replay declaration histories; every history under its own fresh class name."""
    hists, cases, part = args
    V, ndecl, nchk = [], 0, 0
    for hi, hist in enumerate(hists):
        name = "H%d_%d" % (part, hi)
        made = []
        for k, (i, r, g) in enumerate(hist):
            ndecl += 1
            try:
                cls = L.declare(cases[i - 1]["shape"], name, r)
            except Exception as ex:  # noqa: BLE001
                V.append({"kind": "decl:raises", "route": r, "size": k, "what": "declaring raised %s: %s" % (type(ex).__name__, ex),
                          "shape": "%s after [%s]" % (_decl_label(cases, i), ", ".join(_decl_label(cases, a, b) for a, b, _ in hist[:k])),
                          "detail": {"history": hist[:k + 1]}})
                break
            made.append([i, r, g, cls, True])
            for m, (i2, r2, g2, c2, was_ok) in enumerate(made):
                newest = m == len(made) - 1
                if not was_ok:
                    continue                         # already reported at its own declaration
                nchk += 1
                for clause, text in _check_decl(cases[g2 - 1], c2, light=not newest):
                    made[m][4] = False
                    V.append({"kind": "decl:%s%s" % (clause, "" if newest else ":earlier-type-changed"), "route": r2, "size": k,
                              "shape": "%s after [%s]" % (_decl_label(cases, i2),
                                                          ", ".join(_decl_label(cases, a, b) for a, b, _ in hist[:m])),
                              "what": ("the class returned for this declaration is not the declared type: %s" % text) if newest
                              else ("after declaring %s the class returned EARLIER for this declaration changed: %s"
                                    % (_decl_label(cases, i, r), text)),
                              "detail": {"history": [list(h) for h in hist[:k + 1]], "declared": cases[i2 - 1]["shape"]}})
    return {"V": V, "ndecl": ndecl, "nchk": nchk}


def _decl_histories(res, tier, sdir):
    shapes = _decl_shapes(tier)
    fin = os.path.join(sdir, "decl_in.json")
    fout = os.path.join(sdir, "decl_cases.json")
    with open(fin, "w") as f:
        json.dump({"shapes": shapes}, f)
    maxlen = 3
    cfg = ("SPECIFICATION Spec\nCONSTANTS MaxLen = %d\n Routes = {\"src\", \"mk\"}\n KeyKind = \"%s\"\n"
           "INVARIANT HistoryIndependent\nINVARIANT AllReturnedRight\nINVARIANT KeySound\n"
           "INVARIANT DeclaredIsHistory\nCHECK_DEADLOCK FALSE\n")
    r, states, init, edges = tlc.dump_graph("BitStructDecl", cfg_text=cfg % (maxlen, "ordered"),
                                            env={"VERIF_INPUT": fin, "VERIF_OUT": fout}, timeout=3000)
    res.add_tlc(r)
    if r.violated:
        res.violation("model:decl:%s" % sorted(set(r.violated)), "BitStructDecl.tla violates %s" % r.violated, r.out[-3000:])
        return
    if not r.ok:
        raise MachineryError("TLC failed on BitStructDecl: %s\n%s" % (r.errors, r.out[-2500:]))
    # canary of the model: a cache key that forgets the field order must be rejected by TLC
    rc = tlc.run("BitStructDecl", cfg_text=cfg % (2, "unordered"), env={"VERIF_INPUT": fin, "VERIF_OUT": ""},
                 workers=2, timeout=3000)
    res.add_tlc(rc)
    if not ({"HistoryIndependent", "KeySound", "AllReturnedRight"} & set(rc.violated)):
        raise MachineryError("BitStructDecl with the order-forgetting cache key was not rejected by TLC:\n%s" % rc.out[-1500:])
    res.count("canaries_rejected", 1)
    cases = json.load(open(fout))
    if len(cases) != len(shapes) or [c["shape"] for c in cases] != shapes:
        raise MachineryError("BitStructDecl wrote %d cases for %d shapes" % (len(cases), len(shapes)))
    out = collections.defaultdict(list)
    for (s, d, name, args_) in edges:
        if name != "Declare":
            raise MachineryError("unexpected action %s in the BitStructDecl graph" % name)
        out[s].append((d, args_))
    (s0,) = tuple(init)
    hists = []

    def walk(s, pre):
        if not out[s]:
            hists.append(pre)
            return
        for (d, a) in out[s]:
            h = states[d]["hist"]
            if len(h) != len(pre) + 1 or h[-1][0] != a[0] or h[-1][1] != a[1]:
                raise MachineryError("BitStructDecl graph: edge %s does not extend the history %s" % (a, h))
            walk(d, pre + [(h[-1][0], str(h[-1][1]), h[-1][2])])
    walk(s0, [])
    want = (2 * len(shapes)) ** maxlen
    if len(hists) != want or any(len(h) != maxlen for h in hists):
        raise MachineryError("BitStructDecl: %d maximal histories, expected %d" % (len(hists), want))
    nparts = _ncpu()
    ctx = multiprocessing.get_context("fork")
    with cf.ProcessPoolExecutor(max_workers=nparts, mp_context=ctx) as pp:
        results = list(pp.map(_decl_part, [(hists[p::nparts], cases, p) for p in range(nparts)]))
    V = []
    for rr in results:
        V += rr["V"]
    nd = sum(rr["ndecl"] for rr in results)
    res.add_evals(sum(rr["nchk"] for rr in results))
    res.count("spec_to_code_transitions_replayed", nd)
    res.note("declaration_histories", {"shapes": [L.shape_str(t) for t in shapes], "max_len": maxlen,
                                       "histories": len(hists), "declarations": nd, "states": len(states)})
    for h in hists[:: max(1, len(hists) // 400)]:
        res.distinct(("decl-history", tuple((a, b) for a, b, _ in h)))
    res.sample({"kind": "spec->code declaration history", "class_name": "H<n>", "history":
                [_decl_label(cases, a, b) for a, b, _ in hists[len(hists) // 3]]}, cap=4)
    _report(res, V)
    # canary: corrupted expectations must be noticed by _check_decl
    bad = []
    for i, mut in enumerate(("layout", "bits", "nbits", "order")):
        c = copy.deepcopy(cases[0])
        if mut == "layout":
            c["layout"][0]["path"], c["layout"][1]["path"] = c["layout"][1]["path"], c["layout"][0]["path"]
        elif mut == "bits":
            c["vals"][3]["b"][0] ^= 1
        elif mut == "nbits":
            c["nbits"] += 1
        else:
            c["shape"]["fs"][0], c["shape"]["fs"][1] = c["shape"]["fs"][1], c["shape"]["fs"][0]
            for v in c["vals"]:
                v["v"][0], v["v"][1] = v["v"][1], v["v"][0]
        if not _check_decl(c, L.declare(cases[0]["shape"], "DeclCanary", "mk")):
            bad.append(mut)
    if _check_decl(cases[0], L.declare(cases[0]["shape"], "DeclCanary", "mk")):
        raise MachineryError("the uncorrupted declaration expectation is rejected: %s"
                             % _check_decl(cases[0], L.declare(cases[0]["shape"], "DeclCanary", "mk")))
    if bad:
        raise MachineryError("corrupted declaration expectations %s were accepted" % bad)
    res.count("canaries_rejected", 4)


# --------------------------------------------------------------------------------------
# tiny shapes: every transition of the object machine
# --------------------------------------------------------------------------------------

TINY = [
    L.struct([("a", L.lst(2, L.leaf(1)))]),                                     # 2-element list
    L.struct([("a", L.leaf(1)), ("b", L.struct([("c", L.leaf(1))]))]),          # equal-width siblings, nested
    L.struct([("p", L.lst(1, L.struct([("q", L.leaf(1))]))), ("r", L.leaf(1))]),  # list of structs
    L.struct([("m", L.lst(1, L.lst(2, L.leaf(1))))]),                           # 1x2 list
]
TINY_THOROUGH = [
    L.struct([("a", L.leaf(1)), ("b", L.lst(2, L.struct([("c", L.leaf(1))])))]),  # 3 bits
    L.struct([("u", L.lst(1, L.lst(1, L.leaf(2)))), ("v", L.leaf(1))]),
]


def _tiny_one(args):
    shape, idx, sdir = args
    fn = os.path.join(sdir, "tiny_%d.json" % idx)
    with open(fn, "w") as f:
        json.dump({"shape": shape}, f)
    cfg = ("SPECIFICATION Spec\nCONSTANTS Names = {\"x\", \"y\"}\n"
           "INVARIANT TypeOK\nINVARIANT PackedAgrees\nPROPERTY NoAliasing\nPROPERTY NbInvisible\n"
           "CHECK_DEADLOCK FALSE\n")
    r, states, init, edges = tlc.dump_graph("BitStructTiny", cfg_text=cfg, env={"VERIF_INPUT": fn}, timeout=3000)
    if r.violated or not r.ok:
        return {"run": r, "V": [], "edges": 0, "ops": {}}
    out = collections.defaultdict(list)
    for (s, d, name, args_) in edges:
        out[s].append((d, args_[0]))
    (s0,) = tuple(init)
    path = {s0: []}
    q = collections.deque([s0])
    while q:
        s = q.popleft()
        for (d, a) in out[s]:
            if d not in path:
                path[d] = path[s] + [a]
                q.append(d)
    if len(path) != len(states):
        raise MachineryError("tiny state graph not connected from init")
    mk = L.build_mk(shape, "T%d" % idx)
    sm = L.SrcModule("c06_tiny_%d" % idx)
    nm = sm.add(shape, "TS%d" % idx)
    sm.load(sdir)
    nb = L.total_bits(shape)
    V = []
    ops = collections.Counter()
    nedges = 0

    def norm(a):
        a = dict(a)
        for k in ("b", "x", "path"):
            if k in a:
                a[k] = list(a[k])
        return a

    for route, cls in (("mk", mk), ("src", sm.get(nm))):
        failed = set()
        for s in states:
            for (d, a) in out[s]:
                a = norm(a)
                nedges += 1
                ops[a["op"]] += 1
                if a["op"] in failed:
                    continue
                try:
                    real = {n: cls.from_bits(L.mkbits([0] * nb)) for n in ("x", "y")}
                    for pa in path[s]:
                        L.apply_action(real, cls, norm(pa))
                    L.apply_action(real, cls, a)
                    got = {n: _tup(L.project(real[n], shape, cls)) for n in real}
                except Exception as ex:  # noqa: BLE001
                    got = "%s: %s" % (type(ex).__name__, ex)
                want = {n: _tup(states[d]["objs"][n]["cur"]) for n in ("x", "y")}
                if got != want:
                    failed.add(a["op"])
                    clause = "wrong-result" if isinstance(got, str) or got[a["d"]] != want[a["d"]] \
                        else "changed-another-object"
                    V.append({"kind": "graph:%s:%s" % (a["op"], clause), "route": route, "shape": L.shape_str(shape),
                              "size": L.n_nodes(shape),
                              "what": "after %s, action %s: the specification expects %s, the objects hold %s"
                                      % ([L.act_str(norm(p)) for p in path[s]], L.act_str(a), want, got),
                              "detail": {"path": [norm(p) for p in path[s]], "action": a}})
    return {"run": r, "V": V, "edges": nedges, "ops": dict(ops), "states": len(states),
            "sample": {"kind": "spec->code edge", "shape": L.shape_str(shape), "from": str(states[s0]["objs"]),
                       "action": L.act_str(norm(out[s0][1][1]))}}


def _tiny(res, shapes, sdir):
    ctx = multiprocessing.get_context("fork")
    with cf.ProcessPoolExecutor(max_workers=min(len(shapes), _ncpu()), mp_context=ctx) as pp:
        results = list(pp.map(_tiny_one, [(s, i, sdir) for i, s in enumerate(shapes)]))
    V = []
    for s, r in zip(shapes, results):
        run = r["run"]
        res.add_tlc(run)
        if run.violated:
            res.violation("model:tiny:%s:%s" % (L.shape_str(s), sorted(set(run.violated))),
                          "BitStruct.tla object machine violates %s for %s" % (run.violated, L.shape_str(s)),
                          run.out[-3000:])
            continue
        if not run.ok:
            raise MachineryError("TLC failed on BitStructTiny %s: %s\n%s" % (L.shape_str(s), run.errors, run.out[-2500:]))
        for op in ("frombits", "default", "assign", "assignbits", "nbassign", "nbassignbits", "flip", "clone", "deepcopy",
                   "mutate"):
            if not r["ops"].get(op):
                raise MachineryError("operation %s has no transition in the state graph of %s (vacuous)"
                                     % (op, L.shape_str(s)))
        V += r["V"]
        res.add_evals(r["edges"])
        res.count("spec_to_code_transitions_replayed", r["edges"])
        res.distinct(("tiny", L.shape_str(s)))
        res.sample(r["sample"], cap=3)
    _report(res, V)


# --------------------------------------------------------------------------------------
# code -> spec: random shapes and histories
# --------------------------------------------------------------------------------------

FIELD_NAMES = ["a", "b", "c", "d", "e", "f", "g", "x", "y", "z", "s", "self", "other", "cls", "in_", "v0", "f_1",
               "val", "memo", "concat", "msb", "Bits1", "hi", "lo"]


def _compose(R, total, k):
    """k positive integers summing to total."""
    cuts = sorted(R.sample(range(1, total), k - 1)) if k > 1 else []
    return [b - a for a, b in zip([0] + cuts, cuts + [total])]


def _rand_struct(R, budget, d, maxd):
    nf = R.randint(1, min(6 if d == 1 else 3, budget))
    parts = _compose(R, budget, nf)
    names = R.sample(FIELD_NAMES, nf)
    fields = []
    for nme, p in zip(names, parts):
        r = R.random()
        if p < 2 or r < 0.35:
            t = L.leaf(p)
        elif r < 0.75:
            dims = [R.choice([1, 2, 2, 3, 4, R.randint(1, 12)])]
            if R.random() < 0.45:
                dims.append(R.choice([1, 2, 2, 3, R.randint(1, 6)]))
            if R.random() < 0.08:
                dims = [R.randint(1, p)]            # long one-dimensional list
            n = 1
            for x in dims:
                n *= x
            if n > p:
                dims, n = [p if p <= 8 else 1], (p if p <= 8 else 1)
            eb = p // n
            if eb >= 2 and d < maxd and R.random() < 0.5:
                t = _rand_struct(R, eb, d + 1, maxd)
            else:
                t = L.leaf(eb)
            for x in reversed(dims):
                t = L.lst(x, t)
        elif d < maxd:
            t = _rand_struct(R, p, d + 1, maxd)
        else:
            t = L.leaf(p)
        fields.append((nme, t))
    return L.struct(fields)


def _rand_shape(R, k):
    m = k % 10
    if m < 3:
        budget = R.randint(1, 16)
    elif m < 7:
        budget = R.randint(17, 160)
    elif m < 9:
        budget = R.randint(161, 1023)
    else:
        budget = 1023
    t = _rand_struct(R, budget, 1, 4)
    tb = L.total_bits(t)
    if m == 9 and tb < 1023:                       # pad to exactly 1023 bits
        t["fs"].append({"n": "pad_", "t": L.leaf(1023 - tb)})
    return t


def _nodes(t, kind):
    out = [t] if t["k"] == kind else []
    if t["k"] == "list":
        out += _nodes(t["t"], kind)
    elif t["k"] == "struct":
        for f in t["fs"]:
            out += _nodes(f["t"], kind)
    return out


def _variants(R, base):
    """Re-declarations of `base` under the SAME class name: (tag, shape) with permuted field order (top level /
    nested), one leaf width changed, one list dimension changed, and the identical declaration again."""
    out = []

    def perm(pick):
        t = copy.deepcopy(base)
        cand = [x for x in _nodes(t, "struct") if len(x["fs"]) >= 2 and (x is t) == pick]
        if not cand:
            return None
        x = R.choice(cand)
        old = [f["n"] for f in x["fs"]]
        for _ in range(20):
            R.shuffle(x["fs"])
            if [f["n"] for f in x["fs"]] != old:
                return t
        return None
    for tag, t in (("perm-top", perm(True)), ("perm-nested", perm(False))):
        if t is not None:
            out.append((tag, t))
    t = copy.deepcopy(base)
    lv = _nodes(t, "leaf")
    x = R.choice(lv)
    x["w"] = x["w"] + 1 if L.total_bits(t) < 1000 and R.random() < 0.6 or x["w"] == 1 else x["w"] - 1
    if 1 <= L.total_bits(t) <= 1023:
        out.append(("leaf-width", t))
    t = copy.deepcopy(base)
    ls = _nodes(t, "list")
    if ls:
        x = R.choice(ls)
        x["n"] = x["n"] + 1 if x["n"] == 1 or R.random() < 0.6 else x["n"] - 1
        if L.total_bits(t) <= 1023:
            out.append(("list-dim", t))
    if len(base["fs"]) >= 2:
        t = copy.deepcopy(base)                      # the types of two fields exchanged, names kept
        i, j = R.sample(range(len(t["fs"])), 2)
        t["fs"][i]["t"], t["fs"][j]["t"] = t["fs"][j]["t"], t["fs"][i]["t"]
        if L.shape_str(t) != L.shape_str(base):
            out.append(("types-exchanged", t))
    R.shuffle(out)
    out = out[:3]
    out.insert(R.randint(1, len(out)) if out else 0, ("identical", copy.deepcopy(base)))
    return out


def _rand_bits(R, n):
    r = R.random()
    if r < 0.1:
        return [0] * n
    if r < 0.2:
        return [1] * n
    return L.int_to_bits(R.getrandbits(n), n)


def _measure_layout(cls, shape, nb):
    """Layout observed on the real class: one leaf at a time set to all ones."""
    ent = []
    o = cls.from_bits(L.mkbits([0] * nb))
    for path, w in L.leaf_paths(shape):
        L.set_leaf(o, path, "inplace", [1] * w)
        v = int(o.to_bits())
        L.set_leaf(o, path, "inplace", [0] * w)
        lo = (v & -v).bit_length() - 1
        hi = v.bit_length()
        if v != (1 << hi) - (1 << lo) or hi - lo != w:
            lo, hi = 0, 0          # not a contiguous range of the right width: cannot match the spec
        ent.append({"path": path, "lo": lo, "hi": hi})
    ent.sort(key=lambda e: -e["lo"])
    return ent


def _history(R, cls, shape, nev):
    """Drive three real objects; returns (events, error). error = (kind, what) if the real code
    raised or produced a malformed object (reported directly, the trace is cut there)."""
    nb = L.total_bits(shape)
    paths = L.leaf_paths(shape)
    ev = [{"op": "nbits", "n": cls.nbits}]
    if cls.nbits != nb:
        return ev, None                 # not the declared type at all: BitStructTrace rejects the nbits event
    if len(paths) <= 160:
        try:
            ev.append({"op": "layout", "entries": _measure_layout(cls, shape, nb)})
        except Exception as ex:  # noqa: BLE001 - the class does not have the declared structure
            return ev, ("layout:raises", "measuring the layout (one leaf at a time set to ones) raised %s: %s"
                        % (type(ex).__name__, ex))
    real, pend = {}, {}

    def post():
        return {n: L.project(real[n], shape, cls, n) for n in real}

    def do(a):
        L.apply_action(real, cls, a)
        e = dict(a)
        e["post"] = post()
        ev.append(e)
        d = a["d"]
        if a["op"] in CREATING or (a["op"] == "mutate" and a["kind"] == "rebind"):
            pend[d] = False
        elif a["op"] in ("nbassign", "nbassignbits"):
            pend[d] = True

    cur = None
    try:
        # prologue (basis of the swapped-fields canary): first field all ones, everything else zero
        f0 = shape["fs"][0]
        p0 = L.leaf_paths(f0["t"], (f0["n"],))
        if len(shape["fs"]) >= 2 and len(p0) <= 6:
            cur = {"op": "frombits", "d": "x", "b": [0] * nb}
            do(cur)
            for path, w in p0:
                cur = {"op": "mutate", "d": "x", "path": path, "kind": "inplace", "x": [1] * w}
                do(cur)
            ev.append({"op": "pack", "d": "x", "bits": L.bits_of(real["x"].to_bits(), nb, "to_bits()"), "prologue": True})
        for n in NM:
            cur = {"op": "frombits", "d": n, "b": _rand_bits(R, nb)}
            do(cur)
        for _ in range(nev):
            r = R.random()
            d = R.choice(NM)
            s = R.choice([n for n in NM if n != d])
            if r < 0.10:
                cur = {"op": "assign", "d": d, "s": s}
            elif r < 0.15:
                cur = {"op": "assignbits", "d": d, "b": _rand_bits(R, nb)}
                if R.random() < 0.4:
                    cur["via"] = "foreign"       # RHS: a bitstruct of ANOTHER class with this packed value
            elif r < 0.27:
                cur = {"op": "nbassign", "d": d, "s": s}
            elif r < 0.31:
                cur = {"op": "nbassignbits", "d": d, "b": _rand_bits(R, nb)}
                if R.random() < 0.4:
                    cur["via"] = "foreign"
            elif r < 0.43:
                fl = [n for n in NM if pend.get(n)]
                if not fl:
                    continue
                cur = {"op": "flip", "d": R.choice(fl)}
            elif r < 0.50:
                cur = {"op": "clone", "d": d, "s": s}
            elif r < 0.57:
                cur = {"op": "deepcopy", "d": d, "s": s}
            elif r < 0.595:
                cur = {"op": "frombits", "d": d, "b": _rand_bits(R, nb)}
            elif r < 0.62:
                cur = {"op": "default", "d": d}
            elif r < 0.82:
                path, w = R.choice(paths)
                old = L.bits_of(L.nav(real[d], path), w)
                x = [1 - b for b in old] if R.random() < 0.5 else _rand_bits(R, w)
                cur = {"op": "mutate", "d": d, "path": path, "kind": R.choice(["inplace", "rebind"]), "x": x}
            elif r < 0.90:
                cur = {"op": "pack", "d": d}
                tb = real[d].to_bits()
                ev.append({"op": "pack", "d": d, "bits": L.bits_of(tb, nb, "to_bits()")})
                L.scribble(tb)                          # the packed value is a new object, not a field of d
                ev.append({"op": "pack", "d": d, "bits": L.bits_of(real[d].to_bits(), nb, "to_bits()")})
                continue
            elif r < 0.95:
                cur = {"op": "eq", "a": d, "b": s}
                res = real[d] == real[s]
                if (real[d] != real[s]) == res or not isinstance(res, bool):
                    return ev, ("eq", "== gives %r and != gives %r" % (res, real[d] != real[s]))
                ev.append({"op": "eq", "a": d, "b": s, "res": res})
                continue
            else:
                cur = {"op": "hash", "a": d, "b": s}
                kind, h = L.hash_pair(real[d], real[s], shape)
                if kind:
                    ev.append({"op": "hash-failed", "kind": kind, "msg": h})
                else:
                    ev.append({"op": "hash", "a": d, "b": s, "same": h[0] == h[1]})
                continue
            do(cur)
    except L.Structure as ex:
        return ev, ("structure:" + cur["op"], "after %s: %s" % (L.act_str(cur) if "d" in cur else cur, ex))
    except Exception as ex:  # noqa: BLE001
        return ev, (cur["op"] + ":raises", "%s raised %s: %s" % (L.act_str(cur) if "d" in cur else cur,
                                                              type(ex).__name__, ex))
    return ev, None


def _short(s, n=150):
    import hashlib
    return s if len(s) <= n else s[:n] + "..#" + hashlib.sha1(s.encode()).hexdigest()[:8]


def _gen_redecl(res, ngroups, nev):
    """code -> spec for declaration histories: a random base shape and re-declarations of it (field order,
    a leaf width, a list dimension, ... changed; and unchanged) are declared one after the other under ONE
    class name through alternating routes; each returned class gets its own recorded history, validated by
    BitStructTrace against the shape that was DECLARED."""
    R = rng("c06-redecl")
    traces, V = [], []
    tags = collections.Counter()
    for g in range(ngroups):
        base = _rand_struct(R, R.randint(2, 14) if g % 3 else R.randint(15, 120), 1, 3)
        seq = [("base", base)] + _variants(R, base)
        name = "Redecl%d" % g
        hist = []
        for k, (tag, t) in enumerate(seq):
            route = ("mk", "src")[(g + k) % 2]
            label = "%s:%s" % (route, tag)
            tags[tag] += 1
            where = "%s after [%s]" % (_short(L.shape_str(t)), ", ".join(hist))
            try:
                c = L.declare(t, name, route)
            except Exception as ex:  # noqa: BLE001
                V.append({"kind": "redecl:class-creation:raises", "route": route, "shape": where, "size": L.n_nodes(t),
                          "what": "declaring raised %s: %s" % (type(ex).__name__, ex), "detail": {"shape": t}})
                hist.append(label)
                continue
            ev, err = _history(R, c, t, nev)
            ev = [e for e in ev if e["op"] != "hash-failed"]
            if err:
                V.append({"kind": "redecl:" + err[0], "route": route, "shape": where, "size": L.n_nodes(t),
                          "what": "%s (declared %s as `%s`, earlier declarations of that name: %s)"
                                  % (err[1], L.shape_str(t), name, hist), "detail": {"shape": t, "history": hist}})
            traces.append({"shape": t, "ev": ev, "route": "redecl-" + route, "where": where, "redecl": tag})
            res.distinct(("redecl", L.shape_str(t), tuple(hist)))
            hist.append("%s:%s" % (label, _short(L.shape_str(t), 60)))
    res.note("redeclaration_traces", {"groups": ngroups, "declarations_by_kind": dict(sorted(tags.items()))})
    for tag in ("perm-top", "leaf-width", "list-dim", "identical", "types-exchanged", "perm-nested"):
        if not tags.get(tag):
            raise MachineryError("no re-declaration of kind %s was generated" % tag)
    return traces, V


def _gen_traces(res, ntr, nev, sdir):
    R = rng("c06-traces")
    shapes = [_rand_shape(R, k) for k in range(ntr)]
    src = L.SrcModule("c06_rand")
    cls = []
    for k, t in enumerate(shapes):
        route = ("src", "mk", "mk-same-name")[k % 3]
        cls.append((route, src.add(t, "R") if route == "src" else None))
    src.load(sdir)
    traces, V = [], []
    for k, t in enumerate(shapes):
        route, nm = cls[k]
        try:
            c = src.get(nm) if route == "src" else L.build_mk(t, "RM", "Same" if route == "mk-same-name" else None)
        except Exception as ex:  # noqa: BLE001
            V.append({"kind": "class-creation:raises", "route": route, "shape": _short(L.shape_str(t)),
                      "size": L.n_nodes(t), "what": "creating the class raised %s: %s" % (type(ex).__name__, ex),
                      "detail": {"shape": t}})
            continue
        nb = L.total_bits(t)
        ev, err = _history(R, c, t, nev if nb <= 256 else max(8, nev // 2))
        hf = [e for e in ev if e["op"] == "hash-failed"]
        ev = [e for e in ev if e["op"] != "hash-failed"]
        for e in hf[:1]:
            V.append({"kind": e["kind"], "route": route, "shape": _short(L.shape_str(t)), "size": L.n_nodes(t),
                      "what": "hash() of a bitstruct with a list field raises TypeError (%s); smallest shape seen: %s"
                              % (e["msg"], L.shape_str(t)) if e["kind"] == "hash-list-field"
                      else "hash() raised %s" % e["msg"], "detail": None})
        if err:
            V.append({"kind": "trace:" + err[0], "route": route, "shape": _short(L.shape_str(t)), "size": L.n_nodes(t),
                      "what": err[1], "detail": {"shape": t}})
        traces.append({"shape": t, "ev": ev, "route": route})
        res.distinct(("rand", L.shape_str(t)))
    return traces, V


def _canaries(good):
    """Corrupted copies of accepted traces; each must be rejected."""
    can = []

    def first(t, pred):
        for i, e in enumerate(t["ev"]):
            if pred(e):
                return i
        return None

    def strip(t):      # remove the events that would reject a changed shape by themselves
        t["ev"] = [e for e in t["ev"] if e["op"] not in ("layout", "nbits")]

    for t in good:
        kinds = set(c["canary"] for c in can)
        fs = t["shape"]["fs"]
        i0 = first(t, lambda e: e["op"] == "frombits" and any(e["b"]) and not all(e["b"]))
        if i0 is None:
            continue
        v0 = t["ev"][i0]["post"][t["ev"][i0]["d"]]
        # 1. the first two fields swapped in the declared shape (and, consistently, in the positional
        #    values): the recorded to_bits() of "first field all ones, rest zero" cannot match
        i = first(t, lambda e: e.get("prologue"))
        if "swapped-fields" not in kinds and i is not None:
            c = copy.deepcopy(t)
            c["ev"] = c["ev"][:i + 1]
            strip(c)
            cf_ = c["shape"]["fs"]
            cf_[0], cf_[1] = cf_[1], cf_[0]
            for e in c["ev"]:
                for v in e.get("post", {}).values():
                    v[0], v[1] = v[1], v[0]
            c["canary"] = "swapped-fields"
            can.append(c)
        # 2. element order of a list field reversed in a from_bits result
        if "reversed-list" not in kinds:
            for fi, f in enumerate(fs):
                if f["t"]["k"] == "list" and f["t"]["n"] >= 2 and v0[fi] != v0[fi][::-1]:
                    c = copy.deepcopy(t)
                    e = c["ev"][i0]
                    e["post"][e["d"]][fi].reverse()
                    c["canary"] = "reversed-list"
                    can.append(c)
                    break
        # 3. one bit of a to_bits result flipped
        i = first(t, lambda e: e["op"] == "pack")
        if "flipped-bit" not in kinds and i is not None:
            c = copy.deepcopy(t)
            c["ev"][i]["bits"][len(c["ev"][i]["bits"]) // 2] ^= 1
            c["canary"] = "flipped-bit"
            can.append(c)
        # 4. a mutation shows through in another object
        i = first(t, lambda e: e["op"] == "mutate" and any(v != e["post"][e["d"]] for v in e["post"].values()))
        if "aliasing" not in kinds and i is not None:
            c = copy.deepcopy(t)
            e = c["ev"][i]
            o = [n for n in e["post"] if e["post"][n] != e["post"][e["d"]]][0]
            e["post"][o] = copy.deepcopy(e["post"][e["d"]])
            c["canary"] = "aliasing"
            can.append(c)
        # 5. <<= visible before the flip
        i = first(t, lambda e: e["op"] == "nbassign" and e["post"][e["d"]] != e["post"][e["s"]])
        if "nb-visible-early" not in kinds and i is not None:
            c = copy.deepcopy(t)
            e = c["ev"][i]
            e["post"][e["d"]] = copy.deepcopy(e["post"][e["s"]])
            c["canary"] = "nb-visible-early"
            can.append(c)
        # 6. flip without effect
        i = first(t, lambda e: e["op"] == "flip")
        if "flip-ignored" not in kinds and i is not None and i > 0 and "post" in t["ev"][i - 1] \
                and t["ev"][i - 1]["post"].get(t["ev"][i]["d"]) not in (None, t["ev"][i]["post"][t["ev"][i]["d"]]):
            c = copy.deepcopy(t)
            d = c["ev"][i]["d"]
            c["ev"][i]["post"][d] = copy.deepcopy(c["ev"][i - 1]["post"][d])
            c["canary"] = "flip-ignored"
            can.append(c)
        # 7. == negated
        i = first(t, lambda e: e["op"] == "eq")
        if "eq-negated" not in kinds and i is not None:
            c = copy.deepcopy(t)
            c["ev"][i]["res"] = not c["ev"][i]["res"]
            c["canary"] = "eq-negated"
            can.append(c)
        # 8. the width
        i = first(t, lambda e: e["op"] == "nbits")
        if "nbits" not in kinds and i is not None:
            c = copy.deepcopy(t)
            c["ev"][i]["n"] += 1
            c["canary"] = "nbits"
            can.append(c)
        # 9. two entries of the measured layout exchanged
        i = first(t, lambda e: e["op"] == "layout" and len(e["entries"]) >= 2)
        if "layout" not in kinds and i is not None:
            c = copy.deepcopy(t)
            en = c["ev"][i]["entries"]
            en[0]["path"], en[1]["path"] = en[1]["path"], en[0]["path"]
            c["canary"] = "layout"
            can.append(c)
    return can


def _traces(res, ntr, nev, sdir):
    traces, V = _gen_traces(res, ntr, nev, sdir)
    rtr, rV = _gen_redecl(res, max(8, ntr // 12), max(10, nev // 2))
    traces += rtr
    V += rV
    res.add_evals(sum(len(t["ev"]) for t in traces))
    ops = collections.Counter(e["op"] for t in traces for e in t["ev"])
    for op in ("frombits", "default", "assign", "assignbits", "nbassign", "nbassignbits", "flip", "clone", "deepcopy",
               "mutate", "pack", "nbits", "layout", "eq"):
        if not ops.get(op):
            raise MachineryError("no %s event in the recorded histories (vacuous)" % op)
    res.note("trace_events", dict(sorted(ops.items())))
    res.note("trace_widths", {"max": max(L.total_bits(t["shape"]) for t in traces),
                              "n_ge_512": sum(1 for t in traces if L.total_bits(t["shape"]) >= 512),
                              "n_1023": sum(1 for t in traces if L.total_bits(t["shape"]) == 1023)})
    payload = [{"shape": t["shape"], "ev": t["ev"]} for t in traces]
    runs, verdicts = tlc.validate_traces("BitStructTrace", {"traces": payload}, chunk=max(1, (len(payload) + _ncpu() - 1) // _ncpu()))
    for r in runs:
        res.add_tlc(r)
    res.add_traces(len(traces))
    for t, (err, pos) in zip(traces, verdicts):
        if err == "ok":
            continue
        if err.startswith("bad-trace"):
            raise MachineryError("the harness recorded an ill-formed trace (%s at event %d): %s"
                                 % (err, pos, json.dumps(t["ev"][pos - 1])[:400]))
        e = t["ev"][pos - 1]
        V.append({"kind": ("redecl:" if "redecl" in t else "trace:") + err, "route": t["route"],
                  "shape": t.get("where") or _short(L.shape_str(t["shape"])),
                  "size": L.n_nodes(t["shape"]),
                  "what": "%s at event %d %s" % (err, pos, json.dumps({k: v for k, v in e.items() if k != "post"})[:300]),
                  "detail": {"shape": t["shape"], "events": t["ev"][:pos]}})
    t0 = next((t for t in traces if 4 <= L.total_bits(t["shape"]) <= 12 and L.has_list(t["shape"])), traces[0])
    res.sample({"kind": "impl trace", "shape": L.shape_str(t0["shape"]), "route": t0["route"],
                "events": [{k: v for k, v in e.items() if k != "post"} for e in t0["ev"][:8]]})
    _report(res, V)
    good = [t for t, v in zip(traces, verdicts) if v[0] == "ok" and L.total_bits(t["shape"]) <= 200]
    can = _canaries(good)
    kinds = sorted(set(c["canary"] for c in can))
    need = ["aliasing", "eq-negated", "flip-ignored", "flipped-bit", "layout", "nb-visible-early", "nbits",
            "reversed-list", "swapped-fields"]
    if kinds != need:
        raise MachineryError("could not build every canary kind: have %s" % kinds)
    _, cv = tlc.validate_traces("BitStructTrace", {"traces": [{"shape": c["shape"], "ev": c["ev"]} for c in can]})
    acc = [c["canary"] for c, v in zip(can, cv) if v[0] == "ok"]
    if acc:
        raise MachineryError("canary traces accepted by BitStructTrace: %s" % acc)
    res.count("canaries_rejected", len(can))
    res.note("canary_clauses", {c["canary"]: v[0] for c, v in zip(can, cv)})


def run(res, tier):
    quick = tier == "quick"
    K, exh = (6, 6) if quick else (7, 10)
    with scratch("c06_") as sdir:
        _decl_histories(res, tier, sdir)
        _family(res, K, exh, sdir)
        _tiny(res, TINY if quick else TINY + TINY_THOROUGH, sdir)
        _traces(res, 240 if quick else 2400, 28 if quick else 40, sdir)
    res.cov["exhaustive"] = True
    res.note("bounds", {"family_max_nodes": K, "family_depth": 3, "family_fields": 3, "family_list_dims": "<=2 of {1,2}",
                        "family_leaf_widths": [1, 2, 3], "roundtrip_all_bitvectors_up_to_bits": exh,
                        "tiny_object_machines": len(TINY if quick else TINY + TINY_THOROUGH),
                        "random_shapes_max_bits": 1023})
    res.note("rule", "spec->code: every shape of the bounded family (all struct shapes with <= %d shape nodes, "
             "depth <= 3, <= 3 fields, list dims in {1,2}^(1..2), leaf widths 1..3) through both construction "
             "routes with 5 + #leaves sample values and the 9*#leaves+20 step aliasing script, plus every "
             "transition of the object machine for tiny shapes, plus every history of <= 3 declarations of %d "
             "mutually permuted / re-typed shapes under one class name through both routes; code->spec: one random "
             "history per random shape (<= 1023 bits, depth <= 4) and per re-declaration (field order / leaf width / "
             "list dimension changed, or unchanged) of a random shape under the same class name. A case is one "
             "distinct shape (family, tiny or random) or one distinct declaration history." % (K, len(_decl_shapes(tier))))
    res.assume("_flip() is only called on objects whose every leaf has a pending value (after <<= and before a "
               "leaf is replaced); pymtl3 raises AttributeError otherwise and the statement leaves it open")
    res.assume("round trips are checked over all bit vectors only up to %d bits; wider shapes use zero, ones, "
               "alternating, leaf-index-coded and one-leaf-set patterns / random values" % exh)
    res.assume("mutation of a field means `obj.path @= v` or `obj.path = BitsW(v)` on a leaf; replacing a whole "
               "list or nested struct object by hand is not exercised")
    res.assume("constructing T(...) with list / nested-struct ARGUMENTS stores the caller's objects (Python reference "
               "semantics); the statement speaks of from_bits, clone, deepcopy, @= and <<= only, so two instances "
               "built from the same argument objects are not required to be independent; default construction T() "
               "is required to build fresh field objects")
    res.assume("declaration histories use one process and the cache of bitstruct classes as pymtl3 keeps it; every "
               "history runs under its own class name so that it starts from 'nothing declared under this name'")
