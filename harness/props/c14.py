"""C14  Hierarchical names are unique and evaluate back to their objects.

spec/Names.tla (shapes, objects, Name / Parent / Host / Level / TopSig, Required / Allowed, the
name-level rule, the bounded shape family as a state machine), spec/NamesGiven.tla (the same
invariants on shapes handed in), spec/NamesTrace.tla (validation of logged object tables).
  1. TLC enumerates the shape family (one state = one shape: components, interfaces, signals of
     Bits / nested bitstruct types with list fields, method ports, in regular lists up to 2x2 and in
     ragged / mixed lists (every list tree with a bounded number of objects and empty sub-lists, nested
     <= 3 deep: [o,[o,o]], [[o],o], [o,[o,[o,o]]], [[],o], ...), depth <= 3, mentions that materialise
     field signals, slices, slices of slices) and checks on every shape:
     names injective over all admitted objects, parent = name without last token and an object,
     level = depth, host = nearest component, top-level signal = the declared signal, slices never
     nest, mentions resolve to flattened views, and the name-level rule agrees with the shape rule.
  2. spec -> code: every enumerated shape (plus randomly drawn large ones, which TLC first admits to
     the family) is turned into real construct() code in a scratch module (a ragged list as a list
     literal), elaborated twice, and for every object of top.get_all_object_filter(lambda x: True) a row (repr, class, parent, host
     component, level, top-level signal, eval identity) is logged.
  3. code -> spec: NamesTrace validates the tables: Required <= names <= Allowed, no duplicate,
     every field as predicted, eval(repr(o)) is o, both elaborations give the same names.  A member of
     the family on which construction / elaboration raises is reported too (clause elaboration-raises).
  4. hierarchies shipped with the repository (stdlib queues, arbiters, crossbar, memories, example
     processors and accelerators) are validated against the name-level rule alone.
  5. canaries: corrupted copies of accepted tables (among them: an object of a sub-list of a ragged list
     missing / named with one index less / more) must be rejected with the expected clause; ill-formed
     shapes (duplicate path, list trees whose flattening is not one) must violate AllInv.

NOTE: every element of a list (regular or ragged) has the same sub-shape, i.e. the same class; ragged
lists hold objects of one class (bitstruct list fields are always regular); field / slice signals
are materialised by update-block reads and by connect statements to sink wires only; tables are
taken right after elaborate() (no passes applied).  Views carry no _dsl.level in pymtl3: the spec
admits an absent level (or the depth) for them.  The harness tokeniser is not trusted: the spec
renders the tokens back and compares with the logged repr.
"""
import copy
import json
import multiprocessing
import os

import c14_names as H
import common
import tlc
from common import MachineryError, rng

READY = True

ALLK = '{"InPort", "OutPort", "Wire"}'
ALLM = '{"CallerPort", "CalleePort"}'


def _cfg(MaxDecl, MaxDeclM=0, MaxMent=0, MaxSl=1, MaxDepth=3, MaxFields=3, dims="{0, 2, 22}",
         types='{"B4", "P"}', kinds=ALLK, mps=ALLM, chain=False, spec="Spec", inv=("AllInv",), rag=(0, 0, 0)):
    """rag = (RagSize, RagDepth, RagEmpty): ragged lists with at most RagSize entries (objects + empty
    sub-lists) in total, nested at most RagDepth deep, at most RagEmpty empty sub-lists each"""
    t = ("SPECIFICATION %s\nCONSTANTS MaxDecl = %d\n MaxDeclM = %d\n MaxMent = %d\n MaxSl = %d\n MaxDepth = %d\n"
         " MaxFields = %d\n DimCodes = %s\n SigTypes = %s\n SigKindsE = %s\n MpKindsE = %s\n ChainOnly = %s\n"
         " RagSize = %d\n RagDepth = %d\n RagEmpty = %d\n"
         % (spec, MaxDecl, MaxDeclM, MaxMent, MaxSl, MaxDepth, MaxFields, dims, types, kinds, mps,
            "TRUE" if chain else "FALSE", rag[0], rag[1], rag[2]))
    for i in inv:
        t += "INVARIANT %s\n" % i
    return t + "CHECK_DEADLOCK FALSE\n"


CLAUSES = ("ShapeOK", "NameInjective", "ParentByName", "HostIsNearestComponent", "TopLevelSignalDeclared",
           "GenericAgrees", "MentionsResolve")


def families(tier):
    """(name, constants, actions that must be taken, relative weight = share of the TLC workers)"""
    q = tier == "quick"
    DECL = ("DoAddComp", "DoAddIfc", "DoAddSig", "DoAddMp")
    fam = [
        # structures: every tree with <= 2 declarations
        ("S", dict(MaxDecl=2, dims="{0, 2, 22}" if q else "{0, 2, 12, 22}", types='{"B4", "P"}'), DECL, 3),
        # chains down to depth 3 (lists in interfaces in lists ...)
        ("C", dict(MaxDecl=3, chain=True, dims="{0, 2, 22}" if q else "{0, 2, 12, 22}",
                   types='{"B4", "I"}' if q else '{"B1", "B4", "I", "P"}'), DECL, 4),
        # views: one signal, every mention expression (fields, list fields, slices, slices of slices)
        ("V", dict(MaxDecl=1, MaxDeclM=1, MaxMent=1, MaxSl=2, kinds='{"Wire"}' if q else ALLK,
                   dims="{0, 22}" if q else "{0, 2, 22}", types='{"B4", "P"}', mps="{}"),
         ("DoAddSig", "DoAddMention"), 2),
        # ragged / mixed lists: one attribute of every class holding every list tree with <= n entries
        # (objects + empty sub-lists), nested <= 3 deep: [o,[o,o]], [[o],o], [o,[o,[o]]], [[],o], ...
        ("G", dict(MaxDecl=1, dims="{0}", types='{"B4"}', kinds='{"Wire", "InPort"}' if q else ALLK,
                   mps='{"CalleePort"}' if q else ALLM, rag=(3, 3, 1) if q else (4, 3, 1)), DECL, 1 if q else 3),
        # two attributes (the second inside every element of the first: lists inside interfaces inside
        # ragged lists, ragged lists inside ragged lists; thorough: also siblings) sharing the entry budget
        ("GC", dict(MaxDecl=2, chain=q, dims="{0, 2}", types='{"B4"}', kinds='{"Wire"}', mps='{"CalleePort"}',
                    rag=(3, 2, 0) if q else (4, 2, 0)), DECL, 1 if q else 3),
        # views of signals in ragged lists: first / last object of the list, every mention expression
        ("GV", dict(MaxDecl=1, MaxDeclM=1, MaxMent=1, MaxSl=1, kinds='{"Wire"}', dims="{0}", types='{"I"}',
                    mps="{}", rag=(2, 2, 1) if q else (3, 2, 1)), ("DoAddSig", "DoAddMention"), 1),
    ]
    if not q:
        fam += [
            # every tree with <= 3 declarations over a smaller palette
            ("S3", dict(MaxDecl=3, dims="{0, 2, 22}", types='{"B4", "I"}', kinds='{"Wire", "InPort"}',
                        mps='{"CalleePort"}'), DECL, 8),
            ("V3", dict(MaxDecl=1, MaxDeclM=1, MaxMent=1, MaxSl=3, kinds='{"Wire", "InPort"}', dims="{0, 2}",
                        types='{"B4", "I"}', mps="{}"), ("DoAddSig", "DoAddMention"), 2),
            ("VV", dict(MaxDecl=1, MaxDeclM=1, MaxMent=2, MaxSl=2, kinds='{"Wire"}', dims="{0}",
                        types='{"B4"}', mps="{}"), ("DoAddSig", "DoAddMention"), 2),
            ("VC", dict(MaxDecl=3, MaxDeclM=3, MaxMent=1, MaxSl=2, chain=True, dims="{0, 22}", types='{"B4"}',
                        mps="{}"), ("DoAddComp", "DoAddIfc", "DoAddSig", "DoAddMention"), 2),
            # chains of three through ragged lists
            ("GCC", dict(MaxDecl=3, chain=True, dims="{0, 2}", types='{"B4"}', kinds='{"Wire"}',
                         mps='{"CalleePort"}', rag=(3, 2, 0)), DECL, 2),
        ]
    return fam


# --------------------------------------------------------------------------------------
# 1. model checking + emission of the shapes
# --------------------------------------------------------------------------------------

def _name_clause(kw):
    """AllInv failed: run the clauses one by one to name the failing one"""
    r = tlc.run("Names", cfg_text=_cfg(inv=CLAUSES, **kw), timeout=7200)
    return r.violated or ["AllInv"], r


def _enumerate_tlc(tier):
    from concurrent.futures import ThreadPoolExecutor
    fams = families(tier)
    ncpu = os.cpu_count() or 4
    wsum = sum(f[3] for f in fams)
    # the families are independent TLC runs; they share the cores according to their weights
    with ThreadPoolExecutor(max_workers=len(fams)) as ex:
        dumps = list(ex.map(lambda f: _dump("Names", _cfg(**f[1]), workers=max(2, (2 * ncpu * f[3]) // wsum)), fams))
    return fams, dumps


def _enumerate_merge(res, fams, dumps):
    shapes = {}
    for (name, kw, acts, _), (r, states, init, edges) in zip(fams, dumps):
        res.add_tlc(r)
        if r.violated:
            which, r2 = _name_clause(kw)
            res.violation("model:%s:%s" % (name, ",".join(which)),
                          "Names.tla violates %s on the shape family %s" % (which, name), r2.out[-3000:])
            continue
        if not r.ok:
            raise MachineryError("TLC failed on Names family %s: %s\n%s" % (name, r.errors, r.out[-2000:]))
        if len(states) != r.distinct:
            raise MachineryError("family %s: %d states dumped, %d found" % (name, len(states), r.distinct))
        for a in acts:
            if r.coverage.get(a, (0, 0))[1] == 0:
                raise MachineryError("action %s never taken in Names family %s (vacuous)" % (a, name))
        n0 = len(shapes)
        nrag = 0
        for st in states.values():
            sh = H.shape_from_state(st)
            nrag += any(d["rag"] for d in sh["decl"])
            shapes.setdefault(H.shape_key(sh), (name, sh))
        if kw.get("rag", (0, 0, 0))[0] and nrag == 0:
            raise MachineryError("family %s offers ragged lists but no shape has one (vacuous)" % name)
        res.note("family_%s_states" % name, r.distinct)
        res.note("family_%s_new_shapes" % name, len(shapes) - n0)
        res.count("ragged_shapes_enumerated", nrag)
    return shapes


def _dump(module, cfg_text, env=None, workers=None):
    """model-check with invariants and read back the dumped state graph.  TLC's own `-coverage` makes
    these runs several times slower; the per-action counts are taken from the action labels of the
    dumped edges instead (every transition TLC generated is in the dump)."""
    import tempfile
    import shutil
    tmp = tempfile.mkdtemp(prefix="c14dump_")
    try:
        pref = os.path.join(tmp, "graph")
        r = tlc.run(module, cfg_text=cfg_text, env=env, dump=pref, coverage=False, timeout=7200, workers=workers)
        path = pref + ".dot" if os.path.exists(pref + ".dot") else pref
        if r.violated or not os.path.exists(path):
            return r, {}, set(), []
        states, init, edges = tlc.parse_dot(path)
        if len(edges) + len(init) < r.generated:
            raise MachineryError("state graph dump of %s has %d edges + %d initial states, TLC generated %d states"
                                 % (module, len(edges), len(init), r.generated))
        cov = {"Init": (len(init), len(init))}
        for e in edges:
            d, n = cov.get(e[2], (0, 0))
            cov[e[2]] = (d + 1, n + 1)
        r.coverage = cov
        return r, states, init, edges
    finally:
        shutil.rmtree(tmp, ignore_errors=True)


# --------------------------------------------------------------------------------------
# random large members of the family
# --------------------------------------------------------------------------------------

def _rand_expr(R, ty, nsl):
    e = []
    while ty in H.STRUCT_FIELDS:
        if e and R.random() < 0.15:
            return e                          # a struct-typed field view
        n, dims, fty = R.choice(H.STRUCT_FIELDS[ty])
        e.append({"t": "f", "n": n, "ix": [R.randrange(d) for d in dims], "lo": 0, "hi": 0})
        ty = fty
    w = H.WIDTH[ty]
    k = R.randint(0 if e else 1, nsl)
    for _ in range(k):
        if R.random() < 0.3:
            i = R.randrange(w)
            e.append({"t": "b", "n": "", "ix": [], "lo": i, "hi": i + 1})
            w = 1
        else:
            lo = R.randrange(w)
            hi = R.randint(lo + 1, w)
            e.append({"t": "s", "n": "", "ix": [], "lo": lo, "hi": hi})
            w = hi - lo
    return e


def _rand_tree(R, depth, budget):
    """a random list tree (None = object): 1-3 elements, each an object, a sub-list or (rarely) an empty
    list; budget[0] bounds the number of objects"""
    out = []
    for _ in range(R.randint(1, 3)):
        x = R.random()
        if depth > 1 and x < 0.4:
            out.append(_rand_tree(R, depth - 1, budget))
        elif depth > 1 and x < 0.5:
            out.append([])
        elif budget[0] > 0:
            budget[0] -= 1
            out.append(None)
    if not out:
        out.append([] if depth > 1 else None)
    return out


def _rand_shape(R, ragged=0.3):
    decl = []
    dims_pal = [[], [], [2], [2], [2, 2], [1, 2]]

    def grow(path, kind, depth):
        nf = R.randint(1, 3)
        kids = []
        for i in range(nf):
            n = "abc"[i]
            opts = ["sig", "sig", "sig", "mp"]
            if depth < 3:
                opts += ["ifc", "ifc"] + (["comp", "comp"] if kind == "comp" else [])
            if depth == 1:
                opts += ["comp", "ifc"]
            k = R.choice(opts)
            d = {"path": path + [n], "dims": list(R.choice(dims_pal)), "rag": [], "ty": ""}
            if R.random() < ragged:
                d["dims"] = []
                d["rag"] = H.rag_flat(_rand_tree(R, R.randint(2, 3), [R.randint(2, 5)]))
            if k == "sig":
                d["kind"] = R.choice(H.SIG)
                d["ty"] = R.choice(["B1", "B4", "B4", "I", "P", "P"])
            elif k == "mp":
                d["kind"] = R.choice(H.MP)
            else:
                d["kind"] = k
            kids.append(d)
        return kids

    # breadth-first, like the canonical order of the specification
    queue = [([], "comp", 1)]
    while queue:
        path, kind, depth = queue.pop(0)
        for d in grow(path, kind, depth):
            decl.append(d)
            if d["kind"] in ("comp", "ifc") and depth < 3:
                queue.append((d["path"], d["kind"], depth + 1))
    sh = {"decl": decl, "ment": []}
    def below_host(d):
        hp = H.host_path(sh, d["path"])
        return [H.leaves(H._decl_at(sh, d["path"][:len(hp) + k + 1])) for k in range(len(d["path"]) - len(hp))]

    # signals an instance of which the host's class can name (no list on the way is without objects)
    sigs = [d for d in decl if d["kind"] in H.SIG and all(below_host(d))]
    for _ in range(R.randint(0, 4) if sigs else 0):
        d = R.choice(sigs)
        hp = H.host_path(sh, d["path"])
        ix = [list(R.choice(lv)) for lv in below_host(d)]
        can_connect = d["kind"] in ("Wire", "OutPort") or hp == []
        how = "connect" if can_connect and R.random() < 0.6 else "upblk"
        m = {"path": d["path"], "ix": ix, "expr": _rand_expr(R, d["ty"], 3 if how == "connect" else 1), "how": how}
        if m["expr"] and m not in sh["ment"]:
            sh["ment"].append(m)
    sh["ment"].sort(key=lambda m: json.dumps(m, sort_keys=True))
    return sh


GIVEN = dict(MaxDecl=99, MaxDeclM=99, MaxMent=9, MaxSl=3, spec="SpecGiven", dims="{0}", types='{"B4"}')


def _random_given(tier):
    """randomly drawn large shapes; every second one with ragged / mixed lists"""
    R = rng("c14-shapes")
    n = 150 if tier == "quick" else 2000
    given = []
    seen = set()
    while len(given) < n:
        sh = _rand_shape(R, ragged=0.35 if len(given) % 2 else 0.0)
        k = H.shape_key(sh)
        if k not in seen:
            seen.add(k)
            given.append(sh)
    return given


def _random_tlc(given, d, nproc):
    """TLC admits the shapes to the family (ShapeOK) and checks the invariants on each;
    returns [(shapes of the chunk, file, run)] and the run of the model canary"""
    per = (len(given) + nproc - 1) // nproc
    chunks = list(range(0, len(given), per))
    fns = {}
    for c in chunks:
        fns[c] = os.path.join(d, "given_%d.json" % c)
        with open(fns[c], "w") as f:
            json.dump({"shapes": given[c:c + per]}, f)
    # model canaries: ill-formed shapes (duplicate path; a list tree whose flattening skips an index,
    # names an object below an object, or is out of order) must be thrown out by AllInv
    bads = [{"decl": [{"path": ["a"], "kind": "Wire", "dims": [], "rag": [], "ty": "B4"},
                      {"path": ["a"], "kind": "comp", "dims": [2], "rag": [], "ty": ""}], "ment": []}]
    for rag in ([([0], True), ([2], True)], [([0], True), ([0, 0], True)], [([1], True), ([0], True)],
                [([0], True), ([1, 1], True)], [([], True)]):
        bads.append({"decl": [{"path": ["a"], "kind": "Wire", "dims": [], "ty": "B4",
                               "rag": [{"ix": ix, "leaf": lf} for ix, lf in rag]}], "ment": []})
    bfn = []
    for i, bad in enumerate(bads):
        bfn.append(os.path.join(d, "bad_%d.json" % i))
        with open(bfn[-1], "w") as f:
            json.dump({"shapes": [bad]}, f)

    def _one(fn):
        return tlc.run("NamesGiven", cfg_text=_cfg(**GIVEN), env={"VERIF_INPUT": fn}, timeout=7200, workers=2)

    from concurrent.futures import ThreadPoolExecutor
    with ThreadPoolExecutor(max_workers=nproc) as ex:
        runs = list(ex.map(_one, [fns[c] for c in chunks] + bfn))
    return [(given[c:c + per], fns[c], r) for c, r in zip(chunks, runs)], runs[len(chunks):]


def _random_merge(res, given, chunk_runs, bad_runs, shapes):
    for part, fn, r in chunk_runs:
        res.add_tlc(r)
        if r.violated:
            r2 = tlc.run("NamesGiven", cfg_text=_cfg(inv=CLAUSES, **GIVEN), env={"VERIF_INPUT": fn}, timeout=7200)
            if "ShapeOK" in r2.violated:
                raise MachineryError("a randomly drawn shape is outside the family of Names.tla\n" + r2.out[-2000:])
            res.violation("model:R:%s" % ",".join(r2.violated), "Names.tla violates %s on a random shape"
                          % r2.violated, r2.out[-3000:])
        elif not r.ok or r.distinct != len(part):
            raise MachineryError("NamesGiven failed: %s (%d states for %d shapes)\n%s"
                                 % (r.errors, r.distinct, len(part), r.out[-2000:]))
    for i, r in enumerate(bad_runs):
        if "AllInv" not in r.violated:
            raise MachineryError("model canary %d: AllInv accepted an ill-formed shape\n%s" % (i, r.out[-1500:]))
    res.note("model_canaries_rejected", len(bad_runs))
    res.note("random_shapes", len(given))
    res.note("random_shapes_ragged", sum(1 for s in given if any(d["rag"] for d in s["decl"])))
    res.note("random_shape_max_decl", max(len(s["decl"]) for s in given))
    for sh in given:
        shapes.setdefault(H.shape_key(sh), ("R", sh))


# --------------------------------------------------------------------------------------
# 2./3. build the real hierarchies, log, validate
# --------------------------------------------------------------------------------------

def _build(shapes):
    import pymtl3  # noqa: F401  (imported before forking so that the workers share it)
    items = list(shapes)
    ncpu = os.cpu_count() or 4
    size = max(1, min(40, (len(items) + ncpu - 1) // ncpu))
    with common.scratch() as d:
        jobs = [(ci, [sh for _, sh in items[i:i + size]], d) for ci, i in enumerate(range(0, len(items), size))]
        ctx = multiprocessing.get_context("fork")
        with ctx.Pool(ncpu) as pool:
            outs = pool.map(H.build_chunk, jobs, chunksize=1)
    traces = [t for o in outs for t in o]
    if len(traces) != len(items):
        raise MachineryError("worker returned %d traces for %d shapes" % (len(traces), len(items)))
    for (fam, sh), t in zip(items, traces):
        if "error" in t and "exc" not in t:
            raise MachineryError("generated module cannot be imported (family %s, %s):\n%s\n%s"
                                 % (fam, H.describe(sh), H.gen_source(sh), t["error"]))
    return traces


def _report_raise(res, fam, sh, t):
    """a hierarchy of the family (TLC admitted the shape) on which construction / elaboration raises"""
    lists = sorted({H.rag_class(d["rag"]) for d in sh["decl"] if d["rag"]})
    key = "shape:elaboration-raises:%s@%s:%s" % (t["exc"], t["where"], "/".join(lists))
    res.violation(key, "generated hierarchy [%s]: construction / elaboration raises %s in %s: %s"
                  % (H.describe(sh), t["exc"], t["where"], t["error"].strip().splitlines()[-1][:200]),
                  {"clause": "elaboration-raises", "shape": sh, "source": H.gen_source(sh), "label": fam,
                   "traceback": t["error"][-3000:]})


def _payload(t):
    return {"mode": t["mode"], "shape": t.get("shape", {"decl": [], "ment": []}), "ev": t["ev"]}


def _validate(res, traces):
    runs, verdicts = tlc.validate_traces("NamesTrace", {"traces": [_payload(t) for t in traces]}, timeout=7200)
    for r in runs:
        res.add_tlc(r)
    return verdicts


def _kinds(t):
    return {e["name"]: e["kind"] for e in t["ev"] if e["k"] == "obj"}


def _report(res, t, err, pos, label):
    """one violation for a rejected table"""
    ev = t["ev"]
    e = ev[pos - 1] if 0 < pos <= len(ev) else {}
    kinds = _kinds(t)
    if t["mode"] == "shape":
        where = "shape"
        ident = ""
    else:
        where = "repo"
        ident = t["design"] + ":"
    if e.get("k") == "obj":
        sig = H.signature(e["name"], kinds) if t["mode"] == "shape" else e["name"]
        if H.tokenize(e["name"]) is None:
            # repr() is not a hierarchical name at all (the default '<... object at 0x...>': the object was
            # never named); identify it by its class and, for generated shapes, the lists it can come from
            sig = "<unnamed %s>" % e["kind"]
            if t["mode"] == "shape":
                sig += ":" + "/".join(sorted({H.rag_class(d["rag"]) if d["rag"] else "[]" * len(d["dims"])
                                              for d in t["shape"]["decl"] if d["kind"] == e["kind"]}))
        what = "%s: object %s (%s) logged parent=%r host=%r level=%s top-level-signal=%r eval-identity=%s" % (
            err, e["name"], e["kind"], e["parent"], e["host"], e["level"], e["tls"], e["ev"])
    else:
        n1 = {x["name"] for x in ev if x["k"] == "obj" and x["e"] == 1}
        n2 = {x["name"] for x in ev if x["k"] == "obj" and x["e"] == 2}
        if err == "re-elaboration-differs":
            diff = sorted(n1 ^ n2)
            k2 = dict(kinds)
            sig = H.signature(diff[0], k2) if (diff and t["mode"] == "shape") else (diff[0] if diff else "?")
            what = "%s: only in first elaboration %s, only in second %s" % (err, sorted(n1 - n2)[:4], sorted(n2 - n1)[:4])
        else:
            sig = ";".join("%s%s" % (m["how"], H._expr_text(m["expr"])) for m in t["shape"]["ment"]) \
                if t["mode"] == "shape" else "?"
            what = "%s: mentions %s, names logged %d" % (
                err, [H.mention_text(t["shape"], m) for m in t["shape"]["ment"]] if t["mode"] == "shape" else "", len(n1))
    key = "%s:%s%s:%s" % (where, ident, err, sig)
    detail = {"clause": err, "event": pos, "row": e, "label": label}
    if t["mode"] == "shape":
        what = "generated hierarchy [%s]: %s" % (H.describe(t["shape"]), what)
        detail["shape"] = t["shape"]
        detail["source"] = H.gen_source(t["shape"])
        detail["eval_errors"] = t.get("everr")
    else:
        what = "%s: %s" % (t["design"], what)
    detail["table"] = [x for x in ev if x["k"] == "obj" and x["e"] == 1][:400]
    res.violation(key, what, detail)


# --------------------------------------------------------------------------------------
# 4. hierarchies shipped with the repository
# --------------------------------------------------------------------------------------

def _repo_designs(tier):
    from pymtl3 import Bits16, Bits32, Bits4, mk_bits
    from pymtl3.datatypes import mk_bitstruct
    from pymtl3.stdlib.basic_rtl import arbiters, crossbars, encoders, register_files, registers, arithmetics
    from pymtl3.stdlib.queues import queues as q1, cl_queues
    from pymtl3.stdlib.stream import queues as q2
    from pymtl3.stdlib.mem import mk_mem_msg
    from pymtl3.stdlib.stream.magic_memory import MagicMemoryRTL
    from examples.ex02_cksum.ChecksumRTL import ChecksumRTL
    from examples.ex02_cksum.ChecksumCL import ChecksumCL
    from examples.ex03_proc.ProcRTL import ProcRTL
    from examples.ex03_proc.ProcCL import ProcCL
    from examples.ex03_proc.ProcFL import ProcFL
    from examples.ex03_proc.NullXcel import NullXcelRTL
    from examples.ex04_xcel.ChecksumXcelRTL import ChecksumXcelRTL
    from examples.ex04_xcel.ChecksumXcelCL import ChecksumXcelCL
    from examples.ex04_xcel.ChecksumXcelFL import ChecksumXcelFL
    from examples.ex04_xcel.ProcXcel import ProcXcel
    from examples.ex03_proc.test.harness import TestHarness

    Msg = mk_bitstruct("C14Msg", {"a": Bits4, "b": [Bits16, Bits16], "c": mk_bits(7)})
    req, resp = mk_mem_msg(8, 32, 32)
    ds = []
    for mod, tag in ((q1, "queues"), (q2, "stream")):
        for cls in ("NormalQueueRTL", "PipeQueueRTL", "BypassQueueRTL"):
            for T, tn in ((Bits32, "Bits32"), (Msg, "struct")):
                for n in ((1, 2) if tier == "quick" else (1, 2, 5)):
                    ds.append(("%s.%s(%s,%d)" % (tag, cls, tn, n),
                               lambda mod=mod, cls=cls, T=T, n=n: getattr(mod, cls)(T, n)))
        for cls in ("NormalQueue1EntryRTL", "PipeQueue1EntryRTL", "BypassQueue1EntryRTL"):
            ds.append(("%s.%s(struct)" % (tag, cls), lambda mod=mod, cls=cls: getattr(mod, cls)(Msg)))
    for cls in ("PipeQueueCL", "BypassQueueCL", "NormalQueueCL"):
        ds.append(("cl_queues.%s(2)" % cls, lambda cls=cls: getattr(cl_queues, cls)(2)))
    for n in (2, 4) if tier == "quick" else (2, 3, 4, 8):
        ds.append(("RoundRobinArbiter(%d)" % n, lambda n=n: arbiters.RoundRobinArbiter(n)))
        ds.append(("RoundRobinArbiterEn(%d)" % n, lambda n=n: arbiters.RoundRobinArbiterEn(n)))
        ds.append(("Crossbar(%d,Bits16)" % n, lambda n=n: crossbars.Crossbar(n, Bits16)))
        ds.append(("Crossbar(%d,struct)" % n, lambda n=n: crossbars.Crossbar(n, Msg)))
    ds.append(("Encoder(5,3)", lambda: encoders.Encoder(5, 3)))
    ds.append(("RegisterFile(Bits32,8,2,2)", lambda: register_files.RegisterFile(Bits32, 8, 2, 2)))
    ds.append(("RegisterFileRst(struct,4,1,1)", lambda: register_files.RegisterFileRst(Msg, 4, 1, 1)))
    ds.append(("RegEnRst(struct)", lambda: registers.RegEnRst(Msg)))
    ds.append(("Mux(Bits32,4)", lambda: arithmetics.Mux(Bits32, 4)))
    ds.append(("MagicMemoryRTL(2)", lambda: MagicMemoryRTL(2, [(req, resp), (req, resp)])))
    ds.append(("ChecksumRTL", ChecksumRTL))
    ds.append(("ChecksumCL", ChecksumCL))
    ds.append(("ProcRTL", ProcRTL))
    ds.append(("ProcCL", ProcCL))
    ds.append(("ProcFL", ProcFL))
    ds.append(("ChecksumXcelRTL", ChecksumXcelRTL))
    ds.append(("ChecksumXcelCL", ChecksumXcelCL))
    ds.append(("ChecksumXcelFL", ChecksumXcelFL))
    ds.append(("ProcXcel(ProcRTL,ChecksumXcelRTL)", lambda: ProcXcel(ProcRTL, ChecksumXcelRTL)))
    ds.append(("TestHarness(ProcRTL)", lambda: TestHarness(ProcRTL)))
    ds.append(("TestHarness(ProcCL)", lambda: TestHarness(ProcCL)))
    ds.append(("TestHarness(ProcFL)", lambda: TestHarness(ProcFL)))
    ds.append(("TestHarness(ProcRTL,ChecksumXcelRTL)", lambda: TestHarness(ProcRTL, ChecksumXcelRTL)))
    ds.append(("TestHarness(ProcCL,ChecksumXcelCL)", lambda: TestHarness(ProcCL, ChecksumXcelCL)))
    ds.append(("TestHarness(ProcFL,ChecksumXcelFL)", lambda: TestHarness(ProcFL, ChecksumXcelFL)))
    # hierarchies into which the library's connect hooks insert adapter components (harness/c14_hooks.py)
    import c14_hooks
    ds += list(c14_hooks.DESIGNS)
    return ds


def _repo_traces(tier):
    traces = []
    for name, mk in _repo_designs(tier):
        tabs = []
        try:
            for _ in range(2):
                top = mk()
                top.elaborate()
                tabs.append(H.table(top))
        except Exception as e:       # noqa
            import traceback
            raise MachineryError("repository design %s does not elaborate: %s" % (name, traceback.format_exc()))
        traces.append({"mode": "generic", "design": name, "ev": H.events(tabs)})
    return traces


# --------------------------------------------------------------------------------------
# 5. canaries
# --------------------------------------------------------------------------------------

def _rows(t, e=1):
    return [i for i, x in enumerate(t["ev"]) if x["k"] == "obj" and x["e"] == e]


def _canaries(res, good_shape, good_repo, good_rag):
    can = []        # (trace, set of acceptable clauses, label)

    def add(t, exp, label):
        can.append((t, exp, label))

    # ragged lists: an object inside a sub-list loses its name / gets the index path of another position
    nrag = 0
    for t in good_rag:
        parents = {x["parent"] for x in t["ev"] if x["k"] == "obj"}
        sub = [i for i in _rows(t) if t["ev"][i]["toks"] and len(t["ev"][i]["toks"][-1]["ix"]) >= 2
               and t["ev"][i]["toks"][-1]["t"] == "f" and t["ev"][i]["name"] not in parents]
        if not sub:
            continue
        nm = t["ev"][sub[-1]]["name"]
        c = copy.deepcopy(t)                                 # never named: not in the table
        c["ev"] = [x for x in c["ev"] if not (x["k"] == "obj" and x["name"] == nm)]
        _reindex(c)
        add(c, {"required-object-missing"}, "ragged-object-missing")
        c = copy.deepcopy(t)                                 # named as if it were the sub-list it is in
        x = c["ev"][sub[-1]]
        x["toks"][-1]["ix"] = x["toks"][-1]["ix"][:-1]
        x["name"] = "s" + "".join(H.tok_text(k) for k in x["toks"])
        add(c, {"name-not-allowed"}, "ragged-index-dropped")
        c = copy.deepcopy(t)                                 # one index too many
        x = c["ev"][sub[0]]
        x["toks"][-1]["ix"] = x["toks"][-1]["ix"] + [0]
        x["name"] = "s" + "".join(H.tok_text(k) for k in x["toks"])
        add(c, {"name-not-allowed"}, "ragged-index-added")
        nrag += 1
        if nrag >= 8:
            break
    if nrag < 3:
        raise MachineryError("not enough accepted tables with ragged lists to build canaries from (%d)" % nrag)
    n0 = len(can)

    # tables with at least one view and one object below depth 1
    for t in good_shape:
        views = [i for i in _rows(t) if t["ev"][i]["level"] == -1]
        deep = [i for i in _rows(t) if t["ev"][i]["level"] >= 2]
        sigs = [i for i in _rows(t) if t["ev"][i]["tls"] and t["ev"][i]["level"] >= 1]
        if not views or not deep or not sigs:
            continue
        c = copy.deepcopy(t); i = deep[0]                  # duplicate a name
        c["ev"].insert(i + 1, copy.deepcopy(c["ev"][i]))
        for x in c["ev"]:
            if x["k"] == "obj" and x["pi"] > i + 1:
                x["pi"] += 1
        add(c, {"duplicate-name"}, "duplicate-name")
        c = copy.deepcopy(t); c["ev"][deep[-1]]["parent"] = "s"                       # wrong parent
        add(c, {"wrong-parent"}, "wrong-parent")
        c = copy.deepcopy(t); c["ev"][deep[0]]["level"] += 1                          # wrong level
        add(c, {"wrong-level"}, "wrong-level")
        c = copy.deepcopy(t); c["ev"][views[0]]["level"] = 1                          # wrong level on a view
        add(c, {"wrong-level"}, "wrong-level-view")
        c = copy.deepcopy(t); c["ev"][views[-1]]["ev"] = False                        # eval identity
        add(c, {"eval-does-not-return-the-object"}, "eval-false")
        c = copy.deepcopy(t); c["ev"][deep[0]]["host"] = c["ev"][deep[0]]["name"]     # wrong host
        add(c, {"wrong-host"}, "wrong-host")
        c = copy.deepcopy(t); c["ev"][views[0]]["tls"] = c["ev"][views[0]]["name"]    # wrong top-level signal
        add(c, {"wrong-top-level-signal"}, "wrong-tls")
        c = copy.deepcopy(t)                                                         # a required view vanished
        nm = c["ev"][views[0]]["name"]
        kids = [x for x in c["ev"] if x["k"] == "obj" and x["parent"] == nm]
        if not kids:
            c["ev"] = [x for x in c["ev"] if not (x["k"] == "obj" and x["name"] == nm)]
            _reindex(c)
            add(c, {"required-object-missing"}, "required-missing")
        c = copy.deepcopy(t)                                                         # second elaboration lost a name
        j = _rows(c, 2)[-1]
        nm = c["ev"][j]["name"]
        if not [x for x in c["ev"] if x["k"] == "obj" and x["parent"] == nm]:
            del c["ev"][j]
            _reindex(c)
            add(c, {"re-elaboration-differs"}, "re-elaboration")
        c = copy.deepcopy(t)                                                         # a name outside Allowed
        x = c["ev"][sigs[0]]
        y = copy.deepcopy(x)
        y["name"] = x["name"] + "[0:9]"; y["parent"] = x["name"]; y["level"] = -1
        y["toks"] = x["toks"] + [{"t": "s", "n": "", "ix": [], "lo": 0, "hi": 9}]; y["pi"] = sigs[0] + 1
        c["ev"].insert(_rows(c)[-1] + 1, y)
        for z in c["ev"]:
            if z["k"] == "obj" and z["e"] == 2:
                z["pi"] += 1 if z["pi"] else 0
        add(c, {"name-not-allowed"}, "name-not-allowed")
        c = copy.deepcopy(t); c["ev"][views[0]]["kind"] = "Wire" if c["ev"][views[0]]["kind"] != "Wire" else "InPort"
        add(c, {"wrong-kind"}, "wrong-kind")
        c = copy.deepcopy(t); c["ev"][deep[0]]["toks"][-1]["n"] += "x"                # harness tokeniser lying
        add(c, {"name-not-parseable"}, "bad-tokens")
        if len(can) - n0 >= 48:
            break
    nshape = len(can)
    for t in good_repo:
        rows = _rows(t)
        deep = [i for i in rows if t["ev"][i]["level"] >= 2]
        if not deep:
            continue
        c = copy.deepcopy(t); c["ev"][deep[0]]["parent"] = "s"
        add(c, {"wrong-parent"}, "repo-wrong-parent")
        c = copy.deepcopy(t); c["ev"][deep[0]]["level"] -= 1
        add(c, {"wrong-level"}, "repo-wrong-level")
        c = copy.deepcopy(t); c["ev"][deep[-1]]["ev"] = False
        add(c, {"eval-does-not-return-the-object"}, "repo-eval-false")
        c = copy.deepcopy(t); c["ev"][rows[-1]]["name"] = c["ev"][rows[0]]["name"]
        c["ev"][rows[-1]]["toks"] = c["ev"][rows[0]]["toks"]
        add(c, {"duplicate-name"}, "repo-duplicate")
        c = copy.deepcopy(t); c["ev"][deep[0]]["host"] = "s.nowhere"
        add(c, {"wrong-host"}, "repo-wrong-host")
        if len(can) - nshape >= 15:
            break
    if nshape - n0 < 13 or len(can) - nshape < 5:
        raise MachineryError("not enough accepted tables to build canaries from (%d, %d)"
                             % (nshape - n0, len(can) - nshape))
    _, cv = tlc.validate_traces("NamesTrace", {"traces": [_payload(c[0]) for c in can]})
    seen = set()
    for (c, exp, label), (err, pos) in zip(can, cv):
        if err not in exp:
            raise MachineryError("canary %s: NamesTrace answered %r instead of %s" % (label, err, sorted(exp)))
        seen.add(label)
    need = {"ragged-object-missing", "ragged-index-dropped", "ragged-index-added", "duplicate-name", "wrong-parent", "wrong-level", "eval-false", "wrong-host", "wrong-tls",
            "required-missing", "re-elaboration", "name-not-allowed", "repo-wrong-parent", "repo-wrong-level",
            "repo-eval-false", "repo-duplicate"}
    if need - seen:
        raise MachineryError("canary kinds never exercised: %s" % sorted(need - seen))
    res.note("canaries_rejected", len(can))


def _reindex(c):
    """recompute the parent-row hints after rows were removed"""
    for e in (1, 2):
        first = {}
        for i, x in enumerate(c["ev"]):
            if x["k"] == "obj" and x["e"] == e:
                first.setdefault(x["name"], i + 1)
        for x in c["ev"]:
            if x["k"] == "obj" and x["e"] == e:
                x["pi"] = first.get(x["parent"], 0) if x["toks"] else 0


# --------------------------------------------------------------------------------------

def _cpu():
    import resource
    a, b = resource.getrusage(resource.RUSAGE_CHILDREN), resource.getrusage(resource.RUSAGE_SELF)
    return a.ru_utime + a.ru_stime + b.ru_utime + b.ru_stime


def run(res, tier):
    import time
    from concurrent.futures import ThreadPoolExecutor
    t0 = time.time()
    c0 = _cpu()
    res.note("load_average_at_start", round(os.getloadavg()[0], 1))
    given = _random_given(tier)
    ncpu = os.cpu_count() or 4
    with common.scratch() as d:
        # the shape families and the admission of the random shapes are independent TLC jobs
        with ThreadPoolExecutor(max_workers=2) as ex:
            f_rand = ex.submit(_random_tlc, given, d, max(2, ncpu // 2))
            f_enum = ex.submit(_enumerate_tlc, tier)
            fams, dumps = f_enum.result()
            res.note("t_enumerate_s", round(time.time() - t0, 1))
            chunk_runs, bad_runs = f_rand.result()
            res.note("t_enumerate_and_random_family_s", round(time.time() - t0, 1)); t0 = time.time()
            res.note("cpu_enumerate_and_random_family_s", round(_cpu() - c0, 1)); c0 = _cpu()
        shapes = _enumerate_merge(res, fams, dumps)
        _random_merge(res, given, chunk_runs, bad_runs, shapes)
    res.note("t_merge_s", round(time.time() - t0, 1)); t0 = time.time()
    items = sorted(shapes.values(), key=lambda fs: (len(fs[1]["decl"]) + len(fs[1]["ment"]), H.shape_key(fs[1])))
    traces = _build(items)
    raised = [(fs, t) for fs, t in zip(items, traces) if "error" in t]
    res.note("shapes_elaboration_raises", len(raised))
    items = [fs for fs, t in zip(items, traces) if "error" not in t]
    traces = [t for t in traces if "error" not in t]
    rtraces = _repo_traces(tier)
    res.note("t_build_s", round(time.time() - t0, 1)); t0 = time.time()
    res.note("cpu_build_s", round(_cpu() - c0, 1)); c0 = _cpu()
    verdicts = _validate(res, traces + rtraces)
    res.note("t_validate_s", round(time.time() - t0, 1)); t0 = time.time()
    res.note("cpu_validate_s", round(_cpu() - c0, 1)); c0 = _cpu()
    res.add_traces(len(traces) + len(rtraces))
    nobj = 0
    good_shape, good_repo, good_rag = [], [], []
    for (fam, sh), t, (err, pos) in zip(items, traces, verdicts):
        rows = [e for e in t["ev"] if e["k"] == "obj" and e["e"] == 1]
        nobj += len(rows)
        res.distinct(("shape", H.shape_key(sh)))
        res.count("objects_logged", 2 * len(rows))
        res.count("views_logged", sum(1 for e in rows if e["level"] == -1))
        if err != "ok":
            _report(res, t, err, pos, fam)
        else:
            if sh["ment"] and len(sh["decl"]) >= 3:
                good_shape.append(t)
            if len(good_rag) < 200 and any(e["leaf"] and len(e["ix"]) >= 2 for d in sh["decl"] for e in d["rag"]):
                good_rag.append(t)
    for t, (err, pos) in zip(rtraces, verdicts[len(traces):]):
        rows = [e for e in t["ev"] if e["k"] == "obj" and e["e"] == 1]
        res.distinct(("repo", t["design"]))
        res.count("repo_objects_logged", 2 * len(rows))
        res.count("repo_views_logged", sum(1 for e in rows if e["level"] == -1))
        if err != "ok":
            _report(res, t, err, pos, "repo")
        else:
            good_repo.append(t)
    for (fam, sh), t in raised:
        _report_raise(res, fam, sh, t)
    res.add_evals(sum(len(t["ev"]) for t in traces + rtraces))
    if res.notes.get("views_logged", 0) == 0 or res.notes.get("repo_views_logged", 0) == 0:
        raise MachineryError("no field / slice signal was ever logged (vacuous)")
    _canaries(res, good_shape[::-1], good_repo[::-1], good_rag[::-1])
    res.note("t_canaries_s", round(time.time() - t0, 1))
    res.note("cpu_canaries_s", round(_cpu() - c0, 1))
    big = [t for t in traces if len(t["shape"]["decl"]) >= 6 and t["shape"]["ment"]]
    for t in (big[:2] + traces[len(traces) // 2:len(traces) // 2 + 1]):
        res.sample({"kind": "shape", "shape": H.describe(t["shape"]),
                    "names": [e["name"] for e in t["ev"] if e["k"] == "obj" and e["e"] == 1][:12]})
    res.sample({"kind": "repo", "design": rtraces[-1]["design"],
                "objects": sum(1 for e in rtraces[-1]["ev"] if e["k"] == "obj" and e["e"] == 1)})
    res.note("shapes", len(items))
    res.note("repo_designs", len(rtraces))
    res.cov["exhaustive"] = True
    res.note("rule", "one case = one shape (declaration tree + mention statements) of the Names.tla family or one "
             "repository design; families: S all trees with <= 2 declarations%s, C all chains to depth 3, V one "
             "signal with every mention expression (fields, list fields, slices, slices of slices up to 2 levels), "
             "G one attribute of every class holding every ragged / mixed list tree with <= %d entries (objects + at "
             "most one empty sub-list) nested <= 3 deep, GC two attributes sharing %d entries (ragged in ragged, "
             "regular in ragged, ragged in regular), GV a signal in a ragged list with every mention expression%s, "
             "R randomly drawn trees with up to 3 attributes per level, depth 3, up to 4 mentions, every second one "
             "with random ragged lists (admitted by "
             "TLC via ShapeOK); every shape is built as real construct() code, elaborated twice and all objects of "
             "get_all_object_filter are validated row by row"
             % ("" if tier == "quick" else " (S3: <= 3 declarations over a smaller palette)",
                3 if tier == "quick" else 4, 3 if tier == "quick" else 4,
                "" if tier == "quick" else
                ", V3 three slice levels, VV pairs of mentions on one signal, VC chains with a mention, GCC "
                "chains of three through ragged lists"))
    res.assume("all objects of a list (regular or ragged / mixed) have the same class and sub-shape; the top level "
               "of a list attribute is never empty and its first element is an object or a list (pymtl3 treats "
               "other lists as plain Python attributes); empty sub-lists hold no object")
    res.assume("views are materialised by update-block reads and connects to sink wires only; tables are taken "
               "right after elaborate(), no pass applied")
    res.assume("a view without _dsl.level is accepted (pymtl3 never sets it); if present it must equal the depth")
    res.assume("connect mentions are generated only for signals the host writes itself or top-level in-ports")


def replay(obj):
    """re-run one violating shape / repository design from a replay file"""
    d = obj.get("detail") or {}
    if "shape" not in d:
        print(json.dumps(obj, indent=1)[:4000])
        return 0
    sh = d["shape"]
    print(H.describe(sh))
    print(H.PREAMBLE + H.gen_source(sh))
    t = _build([("replay", sh)])[0]
    if "error" in t:
        print(t["error"])
        return 1
    _, v = tlc.validate_traces("NamesTrace", {"traces": [_payload(t)]})
    print("verdict:", v[0])
    if v[0][0] != "ok":
        print("row:", t["ev"][v[0][1] - 1])
        return 1
    return 0
