"""C20  FL, CL and RTL example processors agree with the TinyRV0 ISA on every program; the checksum FL,
CL and RTL models agree with the checksum definition.

spec/TinyRV0.tla (the ISA written from tinyrv0-isa.md; 32-bit words as pairs of 16-bit halves),
spec/TinyRV0MC.tla (bounded instances), spec/TinyRV0Trace.tla (trace validation), spec/Cksum.tla,
spec/CksumTrace.tla.
  1. TLC model-checks TinyRV0.tla on every program of N instructions over a small register set
     (x0 hardwired, pc alignment, exactly one enabled action = determinism, frame conditions), with
     per-instruction action coverage; the Encode/Decode tables are cross-checked against each other,
     against the document's bit patterns and against the repository's assembler and decoder.
  2. code -> spec: generated programs (random structured programs; the exhaustive set of ordered
     instruction pairs with 0..3 nops between and ordered triples with every producer/consumer register
     overlap pattern) run on ProcFL, ProcCL and ProcRTL in the tutorial TestHarness under several
     (src delay, sink delay, memory stall probability, memory latency) configurations.  The words
     reaching the sink and the final memory image are validated by TinyRV0Trace, which executes the
     raw memory image with the ISA actions.
  3. checksum: boundary and random vectors through checksum(), ChecksumCL, ChecksumRTL, validated
     against Cksum.tla; the fold is model-checked against its closed form.
  4. canaries: a flipped / dropped / added Out word, a wrong memory byte, a wrong checksum bit and
     ill-defined programs must be rejected.

NOTE: assumptions - programs terminate (forward branches, counted loops) and end in the halting idiom
`bne s, x0, .`; accesses are aligned and stay inside the loaded image; the text section is not stored
to; registers are written before they are read; proc2mngr is never read, mngr2proc never written, the
accelerator CSRs are unused (the ISA document leaves all of these undefined or accelerator specific).
The generator's steering interpreter is not an oracle: every program is re-checked by the TLA+ spec and
an ill-defined program is a machinery failure.  "Every program / configuration" is sampled, except the
pair/triple hazard-pattern set, which is enumerated (quick tier: all pairs, a sample of the triples).
"""
import copy
import json
import multiprocessing
import os
import tempfile
import shutil
from concurrent.futures import ThreadPoolExecutor

import tlc
import c20_gen as gen
import c20_sim as sim
from common import MachineryError, rng, REPO

READY = True

ACTIONS = ["CSRR", "CSRW", "ADD", "AND", "SLL", "SRL", "ADDI", "LW", "SW", "BNE"]

CFGS_QUICK = [(0, 0, 0, 1), (2, 3, 0.5, 3)]
# deterministic timing grid (no random stalls): memory latency x sink delay; a stalled sink / memory holds an
# older instruction in W / M while the fetch latency leaves bubbles behind a younger one.  Every hazard
# program runs under ONE grid point besides the standard configurations (quick; they rotate over the programs,
# so every point meets every kind of pattern), under a third of the grid in the thorough tier.
# Added after seeded change C20-E (a taken bne stalled in X behind a csrw waiting for the sink, with a bubble
# in D: only memory latency 2 with sink delay >= 3 shows it).
CFGS_GRID = [(0, sd, 0, lat) for lat in (2, 1, 3, 4) for sd in (3, 8, 0)] + [(2, 3, 0, 2), (1, 5, 0, 2)]
CFGS_THOROUGH = [(0, 0, 0, 1), (2, 3, 0.5, 3), (0, 0, 0, 2), (3, 0, 0, 1), (0, 4, 0.3, 1), (1, 1, 0.5, 5)]


# ---------------------------------------------------------------------------------------------
# 1. the ISA model
# ---------------------------------------------------------------------------------------------

MC_PROPS = ("INVARIANT TypeOK\nINVARIANT X0IsZero\nINVARIANT PcAligned\nINVARIANT OneGuard\n"
            "PROPERTY OutGrows\nPROPERTY InShrinks\nPROPERTY OnlyRdMoves\nPROPERTY OnlySwWrites\n"
            "PROPERTY PcRule\nPROPERTY StoppedStays\nCHECK_DEADLOCK FALSE\n")


def _model_check(res, quick):
    bounds = [("{0, 1}", 2, 6)] if quick else [("{0, 1}", 2, 8), ("{0, 1, 2}", 2, 6)]
    for regs, plen, steps in bounds:
        cfg = ("SPECIFICATION Spec\nCONSTANTS Mode = \"mc\"\n Regs = %s\n PLen = %d\n MaxSteps = %d\n%s"
               % (regs, plen, steps, MC_PROPS))
        r = tlc.run("TinyRV0MC", cfg_text=cfg, coverage=True, timeout=3000)
        res.add_tlc(r)
        if r.violated:
            res.violation("model:TinyRV0:%s" % r.violated, "TinyRV0.tla violates %s" % r.violated, r.out[-3000:])
        elif not r.ok:
            raise MachineryError("TLC failed on TinyRV0MC: %s\n%s" % (r.errors, r.out[-2500:]))
        for a in ACTIONS + ["Undefined"]:
            if r.coverage.get("Do" + a, (0, 0))[1] == 0:
                raise MachineryError("action %s never taken in TinyRV0MC (vacuous)" % a)
        res.note("model_bounds", "all programs of %d instructions over registers %s, <= %d steps" % (plen, regs, steps))


def _asm_of(op, rd, rs1, rs2, imm):
    if op in ("add", "and", "sll", "srl"):
        return "%s x%d, x%d, x%d" % (op, rd, rs1, rs2)
    if op == "addi":
        return "addi x%d, x%d, 0x%03x" % (rd, rs1, imm)
    if op == "lw":
        return "lw x%d, 0x%03x(x%d)" % (rd, imm, rs1)
    if op == "sw":
        return "sw x%d, 0x%03x(x%d)" % (rs2, imm, rs1)
    if op == "bne":
        return "bne x%d, x%d, 0x%04x" % (rs1, rs2, imm)
    if op == "csrr":
        return "csrr x%d, mngr2proc" % rd
    return "csrw proc2mngr, x%d" % rs1


def _encoding_table(res):
    """The spec's Encode on a universe of instructions vs the repository's assembler and decoder."""
    from examples.ex03_proc.tinyrv0_encoding import assemble_inst, TinyRV0Inst
    cfg = "SPECIFICATION Spec\nCONSTANTS Mode = \"enc\"\n Regs = {0}\n PLen = 1\n MaxSteps = 1\nCHECK_DEADLOCK FALSE\n"
    r = tlc.run("TinyRV0MC", cfg_text=cfg, workers=1, timeout=1200)
    res.add_tlc(r)
    if not r.ok:
        raise MachineryError("TLC failed on TinyRV0MC (enc): %s\n%s" % (r.errors, r.out[-2500:]))
    rows = [p for p in r.prints if p and p[0] == "R"]
    if len(rows) < 1000:
        raise MachineryError("encoding table too small: %d rows" % len(rows))
    ops = set()
    for (_, op, rd, rs1, rs2, imm, hi, lo) in rows:
        ops.add(op)
        word = (hi << 16) | lo
        asm = _asm_of(op, rd, rs1, rs2, imm)
        got = int(assemble_inst({}, 0x200, asm))
        res.add_evals()
        if got != word:
            res.violation("encode:%s" % asm, "assembler encodes `%s` as 0x%08x, the ISA tables give 0x%08x"
                          % (asm, got, word), {"asm": asm, "assembler": got, "spec": word})
            continue
        d = TinyRV0Inst(word)
        name = d.name
        want = "nop" if word == 0x13 else op
        fields = {"add": ("rd", "rs1", "rs2"), "and": ("rd", "rs1", "rs2"), "sll": ("rd", "rs1", "rs2"),
                  "srl": ("rd", "rs1", "rs2"), "addi": ("rd", "rs1", "i_imm"), "lw": ("rd", "rs1", "i_imm"),
                  "sw": ("rs1", "rs2", "s_imm"), "bne": ("rs1", "rs2", "b_imm"), "csrr": ("rd", "csrnum"),
                  "csrw": ("rs1", "csrnum")}[op]
        exp = {"rd": rd, "rs1": rs1, "rs2": rs2, "i_imm": imm, "s_imm": imm, "b_imm": imm, "csrnum": imm}
        bad = [f for f in fields if int(getattr(d, f)) != exp[f]]
        if name != want or bad:
            res.violation("decode:%s" % asm, "TinyRV0Inst decodes 0x%08x (`%s`) as %s, fields differing: %s"
                          % (word, asm, name, bad), {"asm": asm, "word": word})
        res.distinct(("enc", asm))
    if ops != {"add", "and", "sll", "srl", "addi", "lw", "sw", "bne", "csrr", "csrw"}:
        raise MachineryError("encoding table misses instructions: %s" % sorted(ops))
    res.note("encodings_cross_checked", len(rows))
    # canary: a perturbed table row must differ
    (_, op, rd, rs1, rs2, imm, hi, lo) = next(x for x in rows if x[1] == "bne" and x[5] == 4094)
    if int(assemble_inst({}, 0x200, _asm_of(op, rd, rs1, rs2, imm ^ 2048))) == ((hi << 16) | lo):
        raise MachineryError("encoding canary: assembler insensitive to B-immediate bit 11")


# ---------------------------------------------------------------------------------------------
# batch trace validation with coverage (validate_traces of tlc.py does not collect coverage)
# ---------------------------------------------------------------------------------------------

def _validate(module, traces, cfg_text, chunk=None, timeout=3600):
    """Returns (runs, verdicts[i] = (err, pos), tprints: list of "T" tuples)."""
    n = len(traces)
    if n == 0:
        return [], [], []
    ncpu = min(os.cpu_count() or 4, 16)
    if chunk is None:
        chunk = max(20, min(300, (n + ncpu - 1) // ncpu))
    chunks = [(i, traces[i:i + chunk]) for i in range(0, n, chunk)]
    tmp = tempfile.mkdtemp(prefix="c20tr_")
    verdicts = [None] * n
    runs, tpr = [], []

    def one(ci):
        base, trs = chunks[ci]
        fn = os.path.join(tmp, "in_%d.json" % ci)
        with open(fn, "w") as f:
            json.dump({"traces": trs}, f)
        r = tlc.run(module, cfg_text=cfg_text, env={"VERIF_INPUT": fn}, workers=1, timeout=timeout,
                    deadlock=False, coverage=True, heap="1500m")
        os.unlink(fn)
        return base, len(trs), r

    try:
        with ThreadPoolExecutor(max_workers=ncpu) as ex:
            for base, cnt, r in ex.map(one, range(len(chunks))):
                runs.append(r)
                if r.errors or r.violated:
                    raise MachineryError("trace spec %s failed: %s %s\n%s" % (module, r.errors, r.violated, r.out[-3000:]))
                for v in r.prints:
                    if v and v[0] == "V":
                        k = base + v[1] - 1
                        if verdicts[k] is not None:
                            raise MachineryError("two verdicts for trace %d of %s" % (k, module))
                        verdicts[k] = (v[2], v[3])
                    elif v and v[0] == "T":
                        tpr.append(v)
                for k in range(cnt):
                    if verdicts[base + k] is None:
                        raise MachineryError("no verdict for trace %d of %s\n%s" % (base + k, module, r.out[-3000:]))
        return runs, verdicts, tpr
    finally:
        shutil.rmtree(tmp, ignore_errors=True)


def _pool_map(fn, tasks):
    if not tasks:
        return []
    n = min(os.cpu_count() or 4, len(tasks))
    ctx = multiprocessing.get_context("fork")
    with ctx.Pool(n, maxtasksperchild=200) as pool:
        return list(pool.imap_unordered(fn, tasks, chunksize=1))


# ---------------------------------------------------------------------------------------------
# 3. checksum
# ---------------------------------------------------------------------------------------------

CK_CFG = "SPECIFICATION Spec\nCONSTANTS Mode = \"%s\"\n MCLen = %d\n BVals = %s\n%sCHECK_DEADLOCK FALSE\n"
CK_INV = "INVARIANT FoldIsClosedForm\nINVARIANT ResultIs32Bit\nINVARIANT OrderMatters\n"


def _ck_vectors(R, nrand):
    B = [0, 1, 0x7FFF, 0x8000, 0xFFFF, 0xFFFE, 0x00FF, 0xFF00]
    vs = [[0] * 8, [0xFFFF] * 8, [1] * 8, [0x8000] * 8, list(range(1, 9)), [0xFFFF, 1] * 4, [0x8000, 0x8000, 0, 0] * 2]
    for i in range(8):                       # one-hot positions: every word position and weight
        for b in (1, 0xFFFF, 0x8000):
            v = [0] * 8
            v[i] = b
            vs.append(v)
    for i in range(8):                       # all-ones with one hole
        v = [0xFFFF] * 8
        v[i] = 0
        vs.append(v)
    for _ in range(nrand // 3):
        vs.append([R.choice(B) for _ in range(8)])
    while len(vs) < nrand:
        vs.append([R.getrandbits(16) for _ in range(8)])
    return vs


def _cksum(res, quick):
    for (mclen, bvals) in ([(5, "{0, 1, 32767, 32768, 65535}"), (8, "{0, 65535}")] if quick else
                           [(6, "{0, 1, 32767, 32768, 65535}"), (8, "{0, 32768, 65535}")]):
        r = tlc.run("CksumTrace", cfg_text=CK_CFG % ("mc", mclen, bvals, CK_INV), coverage=True, timeout=1800)
        res.add_tlc(r)
        if r.violated:
            res.violation("model:Cksum:%s" % r.violated, "Cksum.tla violates %s" % r.violated, r.out[-2000:])
        elif not r.ok:
            raise MachineryError("TLC failed on CksumTrace (mc): %s\n%s" % (r.errors, r.out[-2000:]))
        if r.coverage.get("Check", (0, 0))[1] == 0:
            raise MachineryError("CksumTrace mc: Check never taken")
    R = rng("c20/cksum")
    vs = _ck_vectors(R, 400 if quick else 6000)
    delays = [(0, 0), (2, 3)] if quick else [(0, 0), (2, 3), (3, 0), (0, 5), (1, 1)]
    tasks = [(("FL", 0), "FL", vs, 0, 0)]
    nb = 4 if quick else 16
    step = (len(vs) + nb - 1) // nb
    for lvl in ("CL", "RTL"):
        for di, (a, b) in enumerate(delays):
            for k in range(0, len(vs), step):
                tasks.append(((lvl, di, k), lvl, vs[k:k + step], a, b))
    results = dict(_pool_map(sim.run_cksum, tasks))
    who = []                                  # observation labels, same order for every vector
    obs = [[] for _ in vs]
    for key, o in sorted(results.items(), key=lambda kv: (kv[0][0], kv[0][1:])):
        lvl = key[0]
        if o["st"] != "ok":
            res.violation("cksum:%s:%s" % (lvl, o["st"]),
                          "checksum %s model: %s while streaming %d vectors (delays %s)"
                          % (lvl, o["st"], len(vs), key[1:]), o)
            continue
        k0 = key[2] if len(key) > 2 else 0
        for j, v in enumerate(o["res"]):
            obs[k0 + j].append((lvl if lvl == "FL" else "%s/delays=%s" % (lvl, delays[key[1]]), v))
    traces = []
    for i, v in enumerate(vs):
        traces.append({"id": i, "w": v, "obs": [gen.halves(x) for (_, x) in obs[i]]})
        res.distinct(("ck", tuple(v)))
    cfgt = CK_CFG % ("trace", 1, "{0}", "")
    runs, verdicts, tpr = _validate("CksumTrace", traces, cfgt)
    for r in runs:
        res.add_tlc(r)
        if r.coverage.get("Judge", (0, 0))[1] == 0:
            raise MachineryError("CksumTrace: Judge never taken")
    res.add_traces(len(traces))
    res.add_evals(sum(len(t["obs"]) for t in traces))
    exp = {t[1]: (t[2] << 16) | t[3] for t in tpr}
    for i, (err, pos) in enumerate(verdicts):
        if err == "ok":
            continue
        if err == "bad-vector":
            raise MachineryError("checksum vector %d rejected as malformed" % i)
        lbl, val = obs[i][pos - 1]
        lvl = lbl.split("/")[0]
        words = ",".join("%04x" % w for w in vs[i])
        res.violation("cksum:%s:words=%s" % (lvl, words),
                      "checksum %s of words [%s] is 0x%08x, the definition gives 0x%08x"
                      % (lbl, words, val, exp.get(i, -1)), {"words": vs[i], "observed": obs[i], "expected": exp.get(i)})
    res.sample({"kind": "checksum vector", "words": vs[7], "observations": obs[7]})
    res.note("checksum_vectors", len(vs))
    res.note("checksum_delay_configs", delays)
    # canaries
    good = [i for i, v in enumerate(verdicts) if v[0] == "ok"][:12]
    can = []
    for n, i in enumerate(good):
        c = copy.deepcopy(traces[i])
        k = n % len(c["obs"])
        if n % 2:
            c["obs"][k][1] ^= 1 << (n % 16)       # sum1 bit
        else:
            c["obs"][k][0] ^= 1 << (n % 16)       # sum2 bit
        can.append(c)
    if can:
        _, cv, _ = _validate("CksumTrace", can, cfgt)
        acc = [i for i, v in enumerate(cv) if v[0] == "ok"]
        if acc:
            raise MachineryError("checksum canaries accepted: %s" % acc)
        res.count("canaries_rejected", len(can))


# ---------------------------------------------------------------------------------------------
# 2. processors
# ---------------------------------------------------------------------------------------------

TR_CFG = "SPECIFICATION Spec\nCHECK_DEADLOCK FALSE\n"


def _programs(quick):
    R = rng("c20/programs")
    progs = []
    nrand = 40 if quick else 600
    for i in range(nrand):
        progs.append(gen.random_program(R, "rand%d" % i, R.choice([12, 25, 40, 60] if quick else [12, 25, 40, 60, 90])))
    pairs = gen.pair_patterns()
    hp, inf2 = gen.hazard_programs(R, pairs, 14, "pair")
    progs += hp
    triples = [(p, 0) for p in gen.hazard_patterns(3)]
    ntri = len(triples)
    if quick:
        triples = R.sample(triples, 2500)
    ht, inf3 = gen.hazard_programs(R, triples, 14, "triple")
    progs += ht
    stats = {"random_programs": nrand, "pair_patterns": len(pairs), "pair_patterns_infeasible": len(inf2),
             "triple_patterns_total": ntri, "triple_patterns_run": len(triples),
             "triple_patterns_infeasible": len(inf3), "hazard_programs": len(hp) + len(ht)}
    return progs, stats


def _obs_key(o):
    return (o["st"], tuple(o["out"]), tuple(tuple(m) for m in o["mem"]))


def _pattern_of(p, idx):
    """Name of the hazard pattern whose observation csrw produced output number idx (1-based)."""
    spans = p.meta.get("out_spans")
    if not spans:
        return None
    for key, lo, hi in spans:
        if lo < idx <= hi:
            return key
    return None


def _procs(res, quick):
    cfgs = CFGS_QUICK if quick else CFGS_THOROUGH
    progs, stats = _programs(quick)
    for k, v in stats.items():
        res.note(k, v)
    # hazard programs run under fewer configurations in the thorough tier (they are many)
    tasks, asm, secs, pcs = [], {}, {}, {}
    for pi, p in enumerate(progs):
        asm[pi] = p.asm()
        if p.meta["kind"] == "random":
            pc = cfgs
        else:
            pc = list(cfgs[:2] if quick else cfgs[:3])
            ng = 1 if quick else 5
            pc += [CFGS_GRID[(pi * ng + j) % len(CFGS_GRID)] for j in range(ng)]
        pcs[pi] = pc
        for lvl in sim.LEVELS:
            for ci, c in enumerate(pc):
                tasks.append(((pi, lvl, ci), asm[pi], p.data, p.inq, lvl, c, gen.SENT, p.meta["steps"]))
    # expensive first
    tasks.sort(key=lambda t: -(t[7] * (3 if t[4] == "RTL" else 1) * (1 + t[5][3] + 3 * t[5][2])))
    results = dict(_pool_map(sim.run_proc, tasks))
    res.note("simulations", len(tasks))
    res.note("simulated_cycles", sum(o["cycles"] for o in results.values()))
    res.note("timing_configs(src_delay,sink_delay,mem_stall_prob,mem_latency)", [str(c) for c in cfgs])
    traces, who = [], []
    for pi, p in enumerate(progs):
        _, s = gen.assemble_program(p)
        secs[pi] = s
        t = gen.trace_json(p, s, pi)
        groups = {}
        for key, o in results.items():
            if key[0] == pi:
                groups.setdefault(_obs_key(o), []).append(key)
        w = []
        for ok_, keys in sorted(groups.items(), key=lambda kv: sorted(kv[1])[0][1:]):
            o = results[keys[0]]
            t["obs"].append({"st": o["st"], "out": [gen.halves(x) for x in o["out"]],
                             "mem": [[gen.halves(x) for x in m] for m in o["mem"]]})
            w.append(sorted(keys))
        traces.append(t)
        who.append(w)
        res.distinct(("prog", p.name))
    runs, verdicts, tpr = _validate("TinyRV0Trace", traces, TR_CFG)
    cov = {}
    for r in runs:
        res.add_tlc(r)
        for a, (d, t) in r.coverage.items():
            cov[a] = cov.get(a, 0) + t
    for a in ACTIONS:
        if cov.get("t" + a, 0) == 0:
            raise MachineryError("trace validation never executed %s (vacuous)" % a)
    res.note("isa_steps_executed_by_tlc", {a: cov.get("t" + a, 0) for a in ACTIONS})
    res.add_traces(len(tasks))
    res.add_evals(sum(p.meta["steps"] for p in progs))
    detail = {}
    for v in tpr:
        detail.setdefault(v[1], []).append(v[2:])
    nbad = 0
    for pi, (err, pos) in enumerate(verdicts):
        p = progs[pi]
        if err == "ok":
            continue
        if err.startswith("bad-program"):
            raise MachineryError("generated program %s is outside the assumptions: %s at step %d\n%s"
                                 % (p.name, err, pos, asm[pi]))
        nbad += 1
        exp_out = [(d[3] << 16) | d[4] for d in sorted((d for d in detail.get(pi, []) if d[1] == "expected-out"),
                                                       key=lambda d: d[2])]
        for d in detail.get(pi, []):
            k, clause, idx, eh, el = d
            if k == 0:
                continue
            for (_, lvl, ci) in who[pi][k - 1]:
                o = results[(pi, lvl, ci)]
                c = pcs[pi][ci]
                got = None
                if clause.startswith("out") and 0 < idx <= len(o["out"]):
                    got = o["out"][idx - 1]
                pat = _pattern_of(p, idx) if clause.startswith("out") else None
                if pat:
                    key = "proc:%s:%s:%s" % (lvl, clause, pat)
                else:
                    key = "proc:%s:%s:%s@%s" % (lvl, clause, p.name, idx if clause != "exception" else "")
                what = ("Proc%s, timing (src,sink,stall,lat)=%s, program %s: %s at %s: observed %s, ISA gives 0x%08x"
                        % (lvl, c, p.name, clause, ("output #%d" % idx) if clause.startswith("out") else
                           ("address 0x%x" % idx if clause.startswith("mem") else "cycle %d" % o["cycles"]),
                           "nothing" if got is None else "0x%08x" % got, (eh << 16) | el))
                res.violation(key, what, {"level": lvl, "config": c, "clause": clause, "index": idx,
                                          "pattern": pat, "asm": asm[pi], "data": p.data, "mngr2proc": p.inq,
                                          "observed_out": o["out"], "expected_out": exp_out, "exception": o["exc"]})
    res.note("programs_rejected", nbad)
    i0 = next(i for i, p in enumerate(progs) if p.meta["kind"] == "hazard")
    res.sample({"kind": "hazard program", "name": progs[i0].name, "patterns": progs[i0].meta["patterns"][:4],
                "asm_head": asm[i0].splitlines()[32:60], "out": results[(i0, "RTL", 0)]["out"][:8]})
    res.sample({"kind": "random program", "asm": asm[0].splitlines()[:40], "out": results[(0, "RTL", 0)]["out"][:8]})
    _canaries(res, traces, verdicts)


def _canaries(res, traces, verdicts):
    good = [i for i, v in enumerate(verdicts) if v[0] == "ok" and len(traces[i]["obs"]) >= 1
            and len(traces[i]["obs"][0]["out"]) >= 3]
    can, want = [], []
    for n, i in enumerate(good[:30]):
        c = copy.deepcopy(traces[i])
        o = c["obs"][0]
        kind = n % 6
        m = len(o["out"])
        if kind == 0:        # one Out word flipped in one bit
            o["out"][(n * 7) % m][n % 2] ^= 1 << (n % 16)
            want.append("out-word-differs")
        elif kind == 1:      # one Out word dropped
            del o["out"][(n * 5) % (m - 1)]
            want.append(("out-word-differs", "out-word-missing"))
        elif kind == 2:      # a wrong byte in the final memory image (data section)
            k = max(range(len(c["secs"])), key=lambda s: not c["secs"][s]["ro"])
            o["mem"][k][(n * 3) % len(o["mem"][k])][1] ^= 0x0100
            want.append("mem-word-differs")
        elif kind == 3:      # an extra word after the sentinel
            o["out"].append(list(o["out"][-1]))
            want.append("out-extra-word")
        elif kind == 4:      # the sentinel never arrives
            del o["out"][-1]
            want.append("out-word-missing")
        else:                # a text word changed in memory (self-modification)
            k = max(range(len(c["secs"])), key=lambda s: c["secs"][s]["ro"])
            o["mem"][k][-1][1] ^= 1
            want.append("mem-word-differs")
        can.append(c)
    # ill-defined programs must be refused, not judged
    for asm, why in (("lw x1, 0x201(x0)", "bad-program:lw-unaligned-address"),
                     ("lw x1, 0x7fc(x0)", "bad-program:lw-address-outside-image"),
                     ("sw x1, 0x200(x0)", "bad-program:store-into-read-only-section"),
                     ("csrr x1, mngr2proc", "bad-program:csrr-mngr2proc-empty"),
                     ("csrw 0x7e0, x1", "bad-program:csrw-of-unsupported-csr"),
                     ("addi x1, x0, 1\nh:\nbne x1, x0, h", "bad-program:sentinel-not-last-and-unique"),
                     ("addi x1, x0, 1", "bad-program:illegal-instruction"),
                     ("addi x1, x0, 1\nh:\nbne x1, x1, h", "bad-program:illegal-instruction")):
        p = gen.Program("bad", [], [0], [])
        p.asm = lambda a=asm: a + "\n"
        _, s = gen.assemble_program(p)
        t = gen.trace_json(p, s, 900000 + len(can))
        s2 = [x for x in t["secs"] if x["ro"]][0]
        if why.endswith("illegal-instruction"):
            s2["w"].append([0, 0])           # the word after the program
        can.append(t)
        want.append(why)
    _, cv, _ = _validate("TinyRV0Trace", can, TR_CFG)
    for i, ((err, pos), w) in enumerate(zip(cv, want)):
        ws = (w,) if isinstance(w, str) else w
        if err not in ws:
            raise MachineryError("canary %d: expected verdict %s, TinyRV0Trace says %s" % (i, ws, err))
    res.count("canaries_rejected", len(can))


def replay(obj):
    """Re-run the program of a replay file on the recorded level / timing configuration and let
    TinyRV0Trace judge it again.  Returns 1 if the violation reproduces."""
    d = obj.get("detail") or {}
    if "asm" not in d:
        print(json.dumps(obj, indent=1)[:4000])
        return 0
    p = gen.Program("replay", [], d["data"], d["mngr2proc"])
    p.asm = lambda: d["asm"]
    _, o = sim.run_proc((0, d["asm"], d["data"], d["mngr2proc"], d["level"], tuple(d["config"]), gen.SENT, 2000))
    _, secs = gen.assemble_program(p)
    t = gen.trace_json(p, secs, 0)
    t["obs"].append({"st": o["st"], "out": [gen.halves(x) for x in o["out"]],
                     "mem": [[gen.halves(x) for x in m] for m in o["mem"]]})
    _, verdicts, tpr = _validate("TinyRV0Trace", [t], TR_CFG)
    exp = [(v[5] << 16) | v[6] for v in sorted((v for v in tpr if v[3] == "expected-out"), key=lambda v: v[4])]
    print(d["asm"])
    print("Proc%s config (src,sink,stall,lat)=%s: %s" % (d["level"], d["config"], verdicts[0]))
    print("observed out:", ["0x%08x" % x for x in o["out"]])
    if exp:
        print("ISA out     :", ["0x%08x" % x for x in exp])
    return 0 if verdicts[0][0] == "ok" else 1


def run(res, tier):
    import time
    quick = tier == "quick"
    phases = {}
    for name, fn in (("model", lambda: (_model_check(res, quick), _encoding_table(res))),
                     ("checksum", lambda: _cksum(res, quick)), ("processors", lambda: _procs(res, quick))):
        t0 = time.time()
        fn()
        phases[name] = round(time.time() - t0, 1)
    res.note("phase_wall_s", phases)
    res.note("rule", "a case is one program (random structured program, or a program packing 14 hazard "
             "patterns = ordered instruction pairs with 0..3 nops between / ordered triples, with every choice "
             "of which earlier destination each source reads, write-after-write and x0 destinations) or one "
             "checksum vector; each program runs on ProcFL, ProcCL, ProcRTL under every listed timing "
             "configuration and is non-trivial when the ISA execution emits at least the sentinel")
    res.assume("programs terminate and end with the sentinel csrw followed by a taken branch-to-self")
    res.assume("aligned accesses inside the loaded image; no stores into the text section; registers written before read")
    res.assume("proc2mngr never read, mngr2proc never written, accelerator CSRs unused (undefined in the ISA document)")
    res.assume("the run is observed until the sentinel reaches the sink plus a fixed number of drain cycles")
