"""C17  Library queues are FIFOs with their advertised same-cycle behaviour: Fifo.tla / FifoChain.tla model-checked,
every transition of the state graphs replayed on every queue class, random histories validated by FifoTrace;
the same in both directions for the interface adapters and connect hooks the queues are composed through
(Adapter.tla / Channel.tla / AdapterTrace.tla, compositions adapter + queue + adapter end to end) and for the
register files the queue datapaths store messages in (RegFile.tla / RegFileTrace.tla).

spec/Fifo.tla (one action per clock cycle, parameterised by kind and capacity), spec/FifoChain.tla (two
one-entry bypass queues in series = enrdy BypassQueue2RTL), spec/FifoTrace.tla (trace validation against
either), harness/c17_duts.py (one legal driver per interface style); spec/Adapter.tla, Channel.tla,
AdapterTrace.tla, harness/c17_adapters.py (interface adapters, connect hooks, compositions); spec/RegFile.tla,
RegFileTrace.tla, harness/c17_regfile.py (register files); harness/c17_ext.py (parts 6-7).
  1. TLC checks Fifo.tla exhaustively for every kind x capacity (|Msgs| = 3): occupancy bound,
     delivered is a prefix of accepted, accepted = delivered o q, ready/valid exactly per kind,
     count arithmetic, per-step FIFO order; once with the histories hidden by a VIEW (whole
     state space) and once with the histories kept in the state up to a bound.
  2. spec -> code: the dumped state graph gives, for every contents q and every offer
     (enq?, msg, deq?), the expected outputs and q'.  Every queue class x capacity is walked over
     the PRODUCT of the spec state and the implementation's own control state (pointers, counters,
     full bits): from every reachable product state every spec transition (and reset) is applied
     to the real queue and rdy/val/transfer/message/count are compared.
  3. code -> spec: long bursty random offer histories with serial-number payloads on every class,
     also at capacities beyond the model-checked ones, validated by FifoTrace.
  3b. CL queues (capacities 1..3, histories also at 5) under callers that sample enq.rdy() / deq.rdy() in one
     update_once block and call enq / deq in a LATER block (producer split, consumer split, both): M(q.enq)
     orders only blocks that call the method itself, so the sampling block is ordered by M(q.enq.rdy) alone.
     EVERY linear extension of pymtl3's own constraints over the caller blocks and the queue's own blocks is
     forced as the schedule; each is walked over the Fifo.tla graph and drives a random history validated by
     FifoTrace (legal driver: the method is called only if the rdy sampled THAT cycle was true).  The same
     split callers drive RecvCL2SendRTL.recv, SendQueueAdapter.enq and RecvQueueAdapter.deq under eight
     scheduler variants (DynamicSchedulePass, SimpleSchedulePass under several random seeds).
  4. canaries: faulty software queues (lost message, swapped messages, wrong ready) must be
     rejected by the walk and by FifoTrace; corrupted copies of real traces must be rejected.
  5. classes built as a chain of queues (enrdy BypassQueue2RTL = two BypassQueue1RTL in series):
     spec/FifoChain.tla models the composition stage by stage; TLC checks on it everything the
     statement says except the one clause it does not meet, and is REQUIRED to refute that clause
     (invariant EnqRdyIffNotFull; counterexample state b1 full / b2 empty).  The class is walked
     against Fifo.tla of its advertised kind first; if it deviates it is walked against the chain
     graph (every other deviation keeps its own `replay:...:chain:` key), and the deviations of the
     chain model from the advertised kind -- computed from the two TLC state graphs, exactly one
     state -- are reported once under `kind-rule:<class>:<clause>-with-<stage occupancy>`.
  6. the interface adapters through which queues are composed (send_recv_ifcs.py RecvCL2SendRTL,
     RecvRTL2SendCL, RecvFL2SendCL, RecvFL2SendRTL; get_give_ifcs.py GetRTL2GiveCL, RecvCL2GiveFL,
     RecvRTL2GiveFL and the And gate of GiveIfcRTL.connect; stream/queue_adapters.py RecvQueueAdapter,
     SendQueueAdapter; enq_deq_ifcs.py only subclasses the interfaces): Adapter.tla models each as a
     channel with a 0/1-entry buffer (state: buffer, pending deferred clear, message of a blocked FL
     producer, blocked FL consumer; one action per cycle with the offers and reset as arguments).
     TLC checks for all kinds in one run: occupancy <= capacity, delivered prefix of accepted,
     accepted = delivered o in-flight, ready/enable/valid outputs exactly per kind, step-wise
     refinement of Channel.tla (the bare channel property) and -- for the buffered kinds -- of
     Fifo.tla(bypass|pipe, 1).  spec -> code: the dumped graph of every kind is walked on the real
     adapter between a harness producer and consumer (CL sides: method calls from update_once
     blocks; FL sides: blocking calls from update_once blocks; RTL sides: legal stubs fed from
     top-level ports) and on ten designs in which a connect hook (RecvIfcRTL / SendIfcRTL / SendIfcFL
     / GetIfcFL / GiveIfcRTL .connect) must insert the adapter.  code -> spec: random bursty offer
     histories of every adapter / hook design validated by AdapterTrace, and end-to-end histories of
     eight compositions adapter + library queue + adapter (explicit adapters and RTL / CL / stream
     queues of different levels connected directly) validated against Channel(sum of capacities)
     including a drain phase.  A message object handed to a CL / FL consumer must keep its value.
     The statement gives ready/valid rules for the library QUEUES only; of an adapter it demands the
     channel clauses.  An adapter that, probed from the empty state with a standing offer, never
     raises ready and never accepts or delivers anything is therefore recorded as an OBSERVATION
     (evidence key adapter_observations, with the reproduction) and not as a violation: its walk is
     skipped and its histories are judged on the channel clauses only (Channel.tla); as soon as it
     accepts a message the full walk and every clause apply again.
  7. RegisterFile / RegisterFileRst: RegFile.tla (combinational reads of the pre-edge contents, all
     enabled writes commit at the edge, later write port wins, const_zero, reset); TLC checks read =
     contents, frame, last-port-wins, const-zero, reset on every transition and is required to refute
     a false step property; every transition of the dumped graphs of six (thorough: ten) small
     shapes is replayed on the real classes (Bits and bitstruct Type); random port histories of
     44 (640) larger shapes (nregs 1..32 incl. non-powers of two and the sizes the queue datapaths
     use, 1..3 read / 1..2 write ports, both classes, const_zero, reset values, Bits1..Bits32 and a
     bitstruct) are validated by RegFileTrace.
  8. canaries for 6-7: independent software adapters / register file must agree with every dumped
     graph; their faulty variants (duplicate, drop, wrong ready, invented message, ignored reset,
     early return; first port wins, wrong register, const_zero on the wrong port / off, reset skipping
     the last register, write forwarded to a read, lost write) and corrupted copies of real traces
     must be rejected by the walks and by the trace specs.

NOTE: Trusted base: TLC, Fifo.tla as the statement of the kind rules (FifoChain.tla is only a model of one
class: it is never a licence -- its deviations from Fifo.tla are computed and reported), the adapters of
c17_duts.py (legal en/rdy, val/rdy and CL method drivers; the intra-cycle order is left to the
queue). Reset is only exercised on classes whose state has a reset term; occupancy of classes
without a count port is read from their full bits / deque (white box). valrdy_queues.py cannot be
imported on the unchanged tree (missing InValRdyIfc/OutValRdyIfc); the stream val/rdy interfaces are
lent under those names in memory.  Split callers: NormalQueueCL orders its flag refresh before every rdy()
caller, so every legal schedule must give Fifo.tla(normal).  PipeQueueCL (BypassQueueCL) orders only the deq < enq
(enq < deq) METHODS: a block that only samples enq.rdy() (deq.rdy()) is unordered against the other side; where
the forced schedule runs it before the other side's method call the sampled ready is the start-of-cycle one and
the run is validated against Fifo.tla(normal), otherwise against the advertised kind -- both outcomes the
constraints admit are admitted, no message may be lost in either.  RecvCL2GiveFL.recv is left out of the split
designs (its rdy sampling is unordered against give() and Adapter.tla has no start-of-cycle variant of it).
Adapters: Adapter.tla states the kind of each adapter as its code and
comments give it (bypass order for RecvCL2SendRTL, SendQueueAdapter, GetRTL2GiveCL, RecvRTL2GiveFL,
RecvFL2Send*; pipe order for RecvQueueAdapter, RecvCL2GiveFL); the one order the constraints of
RecvFL2SendRTL leave open (up_clear against the calling block) is read from the schedule and both
orders are admitted.  The harness stubs of c17_adapters.py are trusted (every top-level input passes
through an update block, because sim_tick of a design with method ports runs the clock edge before the
update blocks); a blocked FL caller keeps its offer; buffer occupancy is read from s.entry / send.en
(white box).  Compositions are judged on the channel property only.  Ready/enable exactness of an adapter is a
comparison with a model of the code, not a clause of the statement: RecvRTL2GiveFL (and the
GetIfcFL.connect(RecvIfcRTL) hook that inserts it) never raises recv.rdy on the unchanged tree (rdy =
`entry is not None`, entry cleared every cycle; repro/C17/repro_rtl2givefl_never_ready.py) -- it accepts
nothing, hence loses nothing: recorded as an observation and an assumption, only the channel clauses are
demanded of it.  GetRTL2GiveCL (and the
GiveIfcRTL.connect(CalleeIfcCL) hook) cannot be elaborated on the unchanged tree (reads get.msg, the
port is get.ret): recorded as an assumption and checked as soon as it builds.  Register files: addresses
stay below nregs, payloads below 2^31; RegisterFileRst with const_zero and a non-zero reset_value loads
the reset value into register 0 too -- modelled as the code does it.
"""
import collections
import copy
import os
import random
import re

import tlc
from common import MachineryError, rng, seed

READY = True

MSGS = (1, 2, 3)
FIELDS = ("enq_rdy", "deq_rdy", "enq_xfer", "deq_xfer", "count", "deq_msg", "count2", "st2")
MAX_VIOL_PER_DUT = 8        # distinct (clause, occupancy, offer) mismatches reported per class x capacity
MAX_RAW_PER_DUT = 60        # raw mismatching transitions after which a walk is abandoned

_GRAPH = {}      # (kind, cap) -> {q tuple -> {act -> (q2 tuple, out dict)}}; chain: q = (b1 tuple, b2 tuple)
CHAIN = "bypass2chain"      # FifoChain.tla (model name in FifoTrace, key of _GRAPH with cap 2)
CHAIN_CAP = 2
CHAIN_INIT = ((), ())
_KIND_DEV = {}   # (chain model, cap) -> {(stage occupancy, clause): {"chain": value, "kind": value}}


# ============================================================================================
# 1. model checking
# ============================================================================================

_INVS = ("TypeOK", "Bounded", "DeliveredPrefix", "Conservation", "RdyValExact", "CountExact")


def _cfg(kind, cap, view=True, maxhist=0, props=True):
    s = "SPECIFICATION Spec\nCONSTANTS Kind = \"%s\"\n Cap = %d\n Msgs = {%s}\n MaxHist = %d\n" % (
        kind, cap, ", ".join(map(str, MSGS)), maxhist)
    s += "VIEW View\n" if view else "CONSTRAINT HistBound\n"
    if props:
        s += "".join("INVARIANT %s\n" % i for i in _INVS) + "PROPERTY StepFifo\n"
    return s


_CHAIN_INVS = ("TypeOK", "Bounded", "DeliveredPrefix", "Conservation", "DeqSideExact", "EnqRdyExceptFinding",
               "CountExact")
_CHAIN_FINDING_INV = "EnqRdyIffNotFull"


def _cfg_chain(view=True, maxhist=0, invs=_CHAIN_INVS, props=True):
    s = "SPECIFICATION Spec\nCONSTANTS Msgs = {%s}\n MaxHist = %d\n" % (", ".join(map(str, MSGS)), maxhist)
    s += "VIEW View\n" if view else "CONSTRAINT HistBound\n"
    s += "".join("INVARIANT %s\n" % i for i in invs)
    if props:
        s += "PROPERTY StepFifo\n"
    return s


def _last_state(out):
    """Last state of the counterexample TLC printed."""
    blocks = re.findall(r"^State \d+: .*?\n(.*?)(?=\n\s*\n|\Z)", out, re.S | re.M)
    if not blocks:
        raise MachineryError("no counterexample in TLC output:\n%s" % out[-2000:])
    return tlc.parse_state(blocks[-1]), len(blocks)


def _model_check_chain(res, maxhist):
    """FifoChain.tla: everything but the finding holds; the finding clause is refuted by TLC with the
    expected counterexample (guards against a vacuous chain spec and documents the finding)."""
    jobs = [("view", _cfg_chain(True, 0)), ("hist<=%d" % maxhist, _cfg_chain(False, maxhist)),
            ("finding", _cfg_chain(True, 0, invs=(_CHAIN_FINDING_INV,), props=False))]
    runs = _par(lambda j: (j[0], tlc.run("FifoChain", cfg_text=j[1], coverage=True, timeout=1800, workers=2)), jobs)
    for tag, r in runs:
        res.add_tlc(r)
        if tag == "finding":
            if r.violated != [_CHAIN_FINDING_INV]:
                raise MachineryError("FifoChain: TLC did not refute %s (the chain spec does not exhibit the finding): "
                                     "%s %s\n%s" % (_CHAIN_FINDING_INV, r.violated, r.errors, r.out[-1500:]))
            st, n = _last_state(r.out)
            if not (len(st["b1"]) == 1 and len(st["b2"]) == 0):
                raise MachineryError("FifoChain: counterexample to %s ends in an unexpected state %s" % (_CHAIN_FINDING_INV, st))
            res.note("chain_finding_counterexample", {"invariant": _CHAIN_FINDING_INV, "states": n,
                                                      "last": {"b1": list(st["b1"]), "b2": list(st["b2"])}})
            continue
        if r.violated:
            res.violation("model:chain,%s:%s" % (tag, r.violated), "FifoChain.tla violates %s (%s)" % (r.violated, tag),
                          r.out[-3000:])
        elif not r.ok:
            raise MachineryError("TLC failed on FifoChain %s: %s\n%s" % (tag, r.errors, r.out[-2000:]))
        for act in ("Cycle", "Reset"):
            if r.coverage.get(act, (0, 0))[1] == 0:
                raise MachineryError("action %s never taken in FifoChain %s (vacuous)" % (act, tag))
        if tag == "view" and r.distinct < (1 + len(MSGS)) ** 2:
            raise MachineryError("FifoChain: only %d states" % r.distinct)
    res.note("model_check_chain", {"invariants": list(_CHAIN_INVS) + ["StepFifo"], "refuted_as_expected": _CHAIN_FINDING_INV,
                                   "max_accepted": maxhist})


def _par(fn, items, nthreads=None):
    from concurrent.futures import ThreadPoolExecutor
    with ThreadPoolExecutor(max_workers=nthreads or min(len(items), max(2, (os.cpu_count() or 4) // 2))) as ex:
        return list(ex.map(fn, items))


def _model_check(res, caps, hist_caps, maxhist):
    jobs = [(k, c, True, 0) for k in ("normal", "pipe", "bypass") for c in caps]
    jobs += [(k, c, False, maxhist) for k in ("normal", "pipe", "bypass") for c in hist_caps]

    def one(j):
        k, c, view, mh = j
        return j, tlc.run("Fifo", cfg_text=_cfg(k, c, view, mh), coverage=True, timeout=1800, workers=2)

    for (k, c, view, mh), r in _par(one, jobs):
        res.add_tlc(r)
        tag = "kind=%s,cap=%d,%s" % (k, c, "view" if view else "hist<=%d" % mh)
        if r.violated:
            res.violation("model:%s:%s" % (tag, r.violated), "Fifo.tla violates %s for %s" % (r.violated, tag),
                          r.out[-3000:])
        elif not r.ok:
            raise MachineryError("TLC failed on Fifo %s: %s\n%s" % (tag, r.errors, r.out[-2000:]))
        for act in ("Cycle", "Reset"):
            if r.coverage.get(act, (0, 0))[1] == 0:
                raise MachineryError("action %s never taken in Fifo %s (vacuous)" % (act, tag))
        # non-vacuity of the state space: every contents up to Cap must have been reached
        want = sum(len(MSGS) ** i for i in range(c + 1))
        if view and r.distinct < want:
            raise MachineryError("Fifo %s: only %d states, fewer than the %d possible contents" % (tag, r.distinct, want))
    res.note("model_check_caps", list(caps))
    res.note("model_check_history_bound", {"caps": list(hist_caps), "max_accepted": maxhist})


# ============================================================================================
# 2. spec -> code
# ============================================================================================

def _load_graphs(res, caps):
    jobs = [(k, c) for k in ("normal", "pipe", "bypass") for c in caps if (k, c) not in _GRAPH]

    def one(j):
        k, c = j
        return j, tlc.dump_graph("Fifo", cfg_text=_cfg(k, c, True, 0, props=False))

    for (k, c), (r, states, init, edges) in _par(one, jobs, nthreads=6):
        if not r.ok:
            raise MachineryError("TLC failed dumping Fifo %s/%d: %s\n%s" % (k, c, r.errors, r.out[-2000:]))
        res.add_tlc(r)
        g = {}
        for (s, d, name, args) in edges:
            q = tuple(states[s]["q"])
            act = "Reset" if name == "Reset" else (bool(args[0]), int(args[1]), bool(args[2]))
            dst = (tuple(states[d]["q"]), states[d]["out"])
            old = g.setdefault(q, {}).get(act)
            if old is not None and old != dst:
                raise MachineryError("Fifo graph %s/%d: outputs depend on more than q at %s %s" % (k, c, q, act))
            g[q][act] = dst
        if len(init) != 1 or tuple(states[next(iter(init))]["q"]) != ():
            raise MachineryError("Fifo graph %s/%d: unexpected initial states" % (k, c))
        want = sum(len(MSGS) ** i for i in range(c + 1))
        if len(g) != want:
            raise MachineryError("Fifo graph %s/%d: %d contents, expected %d" % (k, c, len(g), want))
        for q, acts in g.items():
            if len(acts) != 2 * (1 + len(MSGS)) + 1:
                raise MachineryError("Fifo graph %s/%d: %d actions at %s" % (k, c, len(acts), q))
        _GRAPH[(k, c)] = g


def _load_chain_graph(res):
    key = (CHAIN, CHAIN_CAP)
    if key in _GRAPH:
        return
    r, states, init, edges = tlc.dump_graph("FifoChain", cfg_text=_cfg_chain(True, 0, invs=(), props=False))
    if not r.ok:
        raise MachineryError("TLC failed dumping FifoChain: %s\n%s" % (r.errors, r.out[-2000:]))
    res.add_tlc(r)
    g = {}
    for (s, d, name, args) in edges:
        q = (tuple(states[s]["b1"]), tuple(states[s]["b2"]))
        act = "Reset" if name == "Reset" else (bool(args[0]), int(args[1]), bool(args[2]))
        dst = ((tuple(states[d]["b1"]), tuple(states[d]["b2"])), states[d]["out"])
        old = g.setdefault(q, {}).get(act)
        if old is not None and old != dst:
            raise MachineryError("FifoChain graph: outputs depend on more than <<b1, b2>> at %s %s" % (q, act))
        g[q][act] = dst
    if len(init) != 1 or (tuple(states[next(iter(init))]["b1"]), tuple(states[next(iter(init))]["b2"])) != CHAIN_INIT:
        raise MachineryError("FifoChain graph: unexpected initial states")
    if len(g) != (1 + len(MSGS)) ** 2:
        raise MachineryError("FifoChain graph: %d buffer states, expected %d" % (len(g), (1 + len(MSGS)) ** 2))
    for q, acts in g.items():
        if len(acts) != 2 * (1 + len(MSGS)) + 1:
            raise MachineryError("FifoChain graph: %d actions at %s" % (len(acts), q))
    _GRAPH[key] = g


def _kind_deviations(res, kind):
    """Where does the chain model differ from Fifo.tla of the advertised kind (same capacity)?  Both TLC
    state graphs are compared at every chain state <<b1, b2>> (contents b2 o b1) and every offer, on all
    outputs and on the next contents.  Result: {(stage occupancy, first differing output): values}.
    The only deviation there may be is the documented one; anything else means FifoChain.tla is not
    the spec this check was written around."""
    gc, gk = _GRAPH[(CHAIN, CHAIN_CAP)], _GRAPH[(kind, CHAIN_CAP)]
    dev = {}
    n = 0
    for (s1, s2), acts in gc.items():
        q = s2 + s1
        for act, (n2, exp) in acts.items():
            kq2, kexp = gk[q][act]
            n += 1
            f = next((f for f in FIELDS if f in kexp and exp[f] != kexp[f]), None)
            if f is None and n2[1] + n2[0] != kq2:
                f = "next-contents"
            if f is not None:
                d = dev.setdefault(((len(s1), len(s2)), f), {"chain": exp.get(f), "kind": kexp.get(f), "offers": set()})
                d["offers"].add(_act_str(act))
    want = {((1, 0), "enq_rdy")}
    if set(dev) != want or dev[((1, 0), "enq_rdy")]["chain"] is not False:
        raise MachineryError("FifoChain.tla differs from Fifo.tla(%s, %d) at %s, expected exactly %s"
                             % (kind, CHAIN_CAP, sorted(dev), sorted(want)))
    _KIND_DEV[(CHAIN, CHAIN_CAP)] = dev
    res.note("chain_vs_kind_graph_comparison", {"transitions_compared": n, "deviations": [
        {"stages": list(k[0]), "output": k[1], "chain": v["chain"], "kind": v["kind"], "offers": sorted(v["offers"])}
        for k, v in sorted(dev.items())]})


def _kind_rule_name(st, clause, value):
    return "%s-%s-with-%s" % (clause, "high" if value else "low",
                              "-".join("q%d-%s" % (i + 1, "full" if n else "empty") for i, n in enumerate(st)))


def _diff(obs, exp):
    """First output (in a fixed order) on which the implementation differs from the spec, or None."""
    if obs.get("illegal"):
        return obs["illegal"]
    for f in FIELDS:
        o = obs.get(f)
        if f == "deq_msg":
            e = exp["deq_msg"][0] if exp["deq_msg"] else None
            if exp["deq_xfer"] and o is None:
                return "deq_msg"
            if o is not None and o != e:
                return "deq_msg"
            continue
        if o is None or f not in exp:
            continue
        if o != exp[f]:
            return f
    return None


def _act_str(act):
    return "Reset" if act == "Reset" else "enq=%d,deq=%d" % (act[0], act[2])


def _occ(q):
    """Number of messages in a spec state: a contents tuple, or a tuple of stage buffers."""
    return sum(len(x) if isinstance(x, tuple) else 1 for x in q)


def walk(dut_factory, graph, has_reset, name, cap, limit=MAX_VIOL_PER_DUT, spec_init=()):
    """Explore the product of spec contents and implementation control state; apply every spec
    transition from every reachable product state.  Returns a dict of statistics and the list
    of mismatches (each with the shortest known action path from the initial state)."""
    dut = dut_factory()
    init = (spec_init, dut.sig())
    cur = init
    dest = {init: {}}                     # product state -> {act: product state | None}
    acts_of = lambda ps: [a for a in graph[ps[0]] if a != "Reset" or has_reset]
    viol = []
    ncyc = 0
    nedge = 0
    perturbed = 0
    nraw = 0
    aborted = False

    def apply(ps, act):
        nonlocal ncyc
        ncyc += 1
        q2, exp = graph[ps[0]][act]
        try:
            if act == "Reset":
                dut.reset()
                c = dut.count()
                obs = {"count2": c}
                bad = None if c in (None, 0) else "reset-does-not-empty"
            else:
                obs = dut.cycle(*act)
                bad = _diff(obs, exp)
        except MachineryError:
            raise
        except Exception as e:              # the simulated queue itself crashed
            obs = {"exception": "%s: %s" % (type(e).__name__, str(e)[:200])}
            bad = "raises-" + type(e).__name__
        return q2, exp, obs, bad

    def path_to(ps):
        prev = {init: None}
        dq = collections.deque([init])
        while dq:
            x = dq.popleft()
            if x == ps:
                break
            for a, y in dest.get(x, {}).items():
                if y is not None and y not in prev:
                    prev[y] = (x, a)
                    dq.append(y)
        out = []
        x = ps
        while prev.get(x) is not None:
            x, a = prev[x]
            out.append(a)
        return out[::-1]

    def mismatch(ps, act, exp, obs, bad):
        nonlocal dut, cur
        viol.append({"clause": bad, "len": _occ(ps[0]), "q": list(ps[0]), "sig": list(ps[1]), "act": act,
                     "expected": exp, "observed": obs, "path": path_to(ps)})
        dest[ps][act] = None
        dut = dut_factory()
        cur = init

    while True:
        todo = [a for a in acts_of(cur) if a not in dest[cur]]
        if todo:
            act = todo[0]
            q2, exp, obs, bad = apply(cur, act)
            nedge += 1
            if bad:
                mismatch(cur, act, exp, obs, bad)
                nraw += 1
                if len({(v["clause"], v["len"], _act_str(v["act"])) for v in viol}) >= limit or nraw >= MAX_RAW_PER_DUT:
                    aborted = True
                    break
                continue
            # canary on the comparison itself: a perturbed expectation must be noticed
            if act != "Reset" and perturbed < 40:
                e2 = dict(exp)
                which = perturbed % 4
                if which == 0:
                    e2["enq_rdy"] = not e2["enq_rdy"]
                elif which == 1:
                    e2["count2"] = e2["count2"] + 1
                elif which == 2:
                    e2["deq_xfer"] = not e2["deq_xfer"]
                elif e2["deq_msg"]:
                    e2["deq_msg"] = (e2["deq_msg"][0] % len(MSGS) + 1,)
                else:
                    e2["enq_xfer"] = not e2["enq_xfer"]
                hidden = ((which == 1 and obs.get("count2") is None) or
                          (which == 3 and exp["deq_msg"] and obs.get("deq_msg") is None and not exp["deq_xfer"]))
                if _diff(obs, e2) is None and not hidden:
                    raise MachineryError("replay canary: perturbed expectation %s accepted for %s" % (e2, name))
                perturbed += 1
            nxt = (q2, dut.sig())
            dest[cur][act] = nxt
            dest.setdefault(nxt, {})
            cur = nxt
            continue
        # navigate through known edges to the nearest product state with untested actions
        prev = {cur: None}
        dq = collections.deque([cur])
        goal = None
        while dq:
            x = dq.popleft()
            if any(a not in dest[x] for a in acts_of(x)):
                goal = x
                break
            for a, y in dest[x].items():
                if y is not None and y not in prev:
                    prev[y] = (x, a)
                    dq.append(y)
        if goal is None:
            break
        steps = []
        x = goal
        while prev[x] is not None:
            x, a = prev[x]
            steps.append(a)
        for a in reversed(steps):
            q2, exp, obs, bad = apply(cur, a)
            nxt = (q2, dut.sig())
            if bad or nxt != dest[cur][a]:
                raise MachineryError("%s cap=%d is not deterministic in its control state: %s from %s gave %s/%s, "
                                     "earlier %s" % (name, cap, a, cur, bad, nxt, dest[cur][a]))
            cur = nxt
    seen_q = {ps[0] for ps in dest}
    return {"name": name, "cap": cap, "product_states": len(dest), "spec_states": len(seen_q),
            "spec_states_total": len(graph), "edges": nedge, "cycles": ncyc, "aborted": aborted,
            "violations": viol, "signames": dut.signames() if hasattr(dut, "signames") else []}


def _seeded_make(entry, cap, tag):
    """Build a DUT with pymtl3's scheduler tie-breaks (global `random`) under our seed."""
    import c17_duts
    st = random.getstate()
    random.seed("%d/%s/%s/%d" % (seed(), tag, entry.name, cap))
    try:
        return c17_duts.make(entry, cap, any_cap=True)
    finally:
        random.setstate(st)


def _walk_job(job):
    import c17_duts
    name, cap, has_reset = job
    entry = next(e for e in c17_duts.catalogue() if e.name == name)
    n = [0]

    def factory():
        n[0] += 1
        return _seeded_make(entry, cap, "walk%d" % n[0])

    r = walk(factory, _GRAPH[(entry.kind, cap)], has_reset, name, cap)
    if entry.chain and r["violations"]:
        # a composition of queues that does not meet its advertised kind: walk the model of the composition
        rk = r
        r = walk(factory, _GRAPH[(entry.chain, cap)], has_reset, name, cap, spec_init=CHAIN_INIT)
        r["kind_walk"] = rk
    r["shim"] = c17_duts.shim_used()
    return r


def _pool():
    import multiprocessing
    from concurrent.futures import ProcessPoolExecutor
    return ProcessPoolExecutor(max_workers=os.cpu_count() or 4, mp_context=multiprocessing.get_context("fork"))


def _viol_detail(name, cap, v, **kw):
    d = {"dut": name, "cap": cap, "path": [list(a) if a != "Reset" else a for a in v["path"]],
         "act": list(v["act"]) if v["act"] != "Reset" else "Reset", "clause": v["clause"],
         "expected": v["expected"], "observed": v["observed"], "control_state": v["sig"]}
    d.update(kw)
    return d


def _report_walk(res, r, kind, entry=None):
    """Returns the model (kind of FifoTrace) the class's random histories are validated against."""
    name, cap = r["name"], r["cap"]
    rk = r.get("kind_walk")
    if rk is not None:
        _report_kind_walk(res, r, rk, kind, entry)
    for v in r["violations"]:
        if rk is not None:
            key = "replay:%s:cap=%d:chain:%s:%s:%s" % (name, cap, v["clause"],
                                                       ",".join("b%d=%d" % (i + 1, len(b)) for i, b in enumerate(v["q"])),
                                                       _act_str(v["act"]))
            what = ("%s (capacity %d) as the series composition FifoChain.tla: stages holding %s, offer %s -> %s "
                    "differs from the composition: expected %s, observed %s"
                    % (name, cap, [list(b) for b in v["q"]], _act_str(v["act"]), v["clause"], _short(v["expected"]),
                       _short(v["observed"])))
            res.violation(key, what, _viol_detail(name, cap, v, model=entry.chain))
            continue
        key = "replay:%s:cap=%d:%s:len=%d:%s" % (name, cap, v["clause"], v["len"], _act_str(v["act"]))
        res.violation(key,
                      "%s (kind %s, capacity %d): holding %d message(s), offer %s -> %s differs from Fifo.tla: "
                      "expected %s, observed %s" % (name, kind, cap, v["len"], _act_str(v["act"]), v["clause"],
                                                    _short(v["expected"]), _short(v["observed"])),
                      _viol_detail(name, cap, v))
    if not r["violations"] and r["spec_states"] != r["spec_states_total"]:
        raise MachineryError("%s cap=%d: only %d of %d spec states reached without any mismatch"
                             % (name, cap, r["spec_states"], r["spec_states_total"]))
    return kind if rk is None else entry.chain


def _report_kind_walk(res, r, rk, kind, entry):
    """A chain class deviates from Fifo.tla of its advertised kind (walk rk).  A deviation is *explained* when,
    at the chain state given by the contents and the observed stage occupancy, the class did exactly what
    FifoChain.tla does and FifoChain.tla is known (graph comparison, _KIND_DEV) to differ from the kind in that
    output at that stage occupancy.  All explained deviations of one (stage occupancy, output) are ONE
    violation `kind-rule:...`; every other deviation is reported like for any other class."""
    name, cap = r["name"], r["cap"]
    dev = _KIND_DEV[(entry.chain, cap)]
    gc = _GRAPH[(entry.chain, cap)]
    try:
        idx = [rk["signames"].index("s." + x) for x in entry.stages]
    except ValueError:
        raise MachineryError("%s: stage full bits %s are not among the control signals" % (name, entry.stages))
    explained = {}
    for v in rk["violations"]:
        st = tuple(v["sig"][i] for i in idx)
        q = tuple(v["q"])
        ok = False
        if v["act"] != "Reset" and (st, v["clause"]) in dev and len(st) == 2 and st[0] + st[1] == len(q):
            cstate = (q[st[1]:], q[:st[1]])               # (b1, b2): b2 holds the older messages
            ok = cstate in gc and _diff(v["observed"], gc[cstate][v["act"]][1]) is None
        if ok:
            explained.setdefault((st, v["clause"]), []).append(v)
            continue
        key = "replay:%s:cap=%d:%s:len=%d:%s" % (name, cap, v["clause"], v["len"], _act_str(v["act"]))
        res.violation(key,
                      "%s (kind %s, capacity %d): holding %d message(s) (stages %s), offer %s -> %s differs from "
                      "Fifo.tla and is not the documented behaviour of the series composition: expected %s, observed %s"
                      % (name, kind, cap, v["len"], list(st), _act_str(v["act"]), v["clause"], _short(v["expected"]),
                         _short(v["observed"])),
                      _viol_detail(name, cap, v))
    for (st, clause), vs in sorted(explained.items()):
        v = min(vs, key=lambda x: (len(x["path"]), _act_str(x["act"])))
        key = "kind-rule:%s:%s" % (name, _kind_rule_name(st, clause, dev[(st, clause)]["chain"]))
        res.violation(key,
                      "%s (advertised kind %s, capacity %d): with stage occupancy %s (%d message(s) held) %s is %s where "
                      "the kind rule of Fifo.tla says %s; everything else the class does is the series composition "
                      "FifoChain.tla (e.g. offers %s after %d cycle(s): expected %s, observed %s)"
                      % (name, kind, cap, list(st), v["len"], clause, dev[(st, clause)]["chain"],
                         dev[(st, clause)]["kind"], _act_str(v["act"]), len(v["path"]), _short(v["expected"]),
                         _short(v["observed"])),
                      _viol_detail(name, cap, v, stages=list(st),
                                   offers_observed=sorted({_act_str(x["act"]) for x in vs})))
        res.count("kind_rule_deviations_explained_by_chain_model", len(vs))


def _short(d):
    return {k: ((v[0] if v else None) if k == "deq_msg" and isinstance(v, tuple) else v) for k, v in d.items()
            if k != "order"}


def _graph_walks(res, cat, caps, eff):
    jobs = [(e.name, c, eff[e.name]) for e in cat for c in e.caps if c in caps]
    jobs.sort(key=lambda j: -j[1])
    kinds = {e.name: e.kind for e in cat}
    ents = {e.name: e for e in cat}
    with _pool() as ex:
        results = list(ex.map(_walk_job, jobs))
    table = {}
    models = {}
    for r in results:
        models[(r["name"], r["cap"])] = _report_walk(res, r, kinds[r["name"]], ents[r["name"]])
        if r.get("kind_walk"):
            rk = r["kind_walk"]
            res.add_evals(rk["cycles"])
            res.count("spec_to_code_transitions_replayed", rk["edges"])
            res.distinct(("walk-vs-advertised-kind", r["name"], r["cap"]))
        res.add_evals(r["cycles"])
        res.count("spec_to_code_transitions_replayed", r["edges"])
        res.count("spec_to_code_product_states", r["product_states"])
        table.setdefault(r["name"], {})[r["cap"]] = [r["product_states"], r["edges"]]
        res.distinct(("walk", r["name"], r["cap"]))
        for s in r["shim"]:
            res.assume("%s is not importable on the unchanged tree (InValRdyIfc/OutValRdyIfc are not exported by "
                       "pymtl3.stdlib.ifcs); the stream val/rdy interfaces were lent under those names" % s)
    res.note("walked_classes_caps_productstates_edges", table)
    r0 = results[-1]
    res.sample({"kind": "spec->code walk", "dut": r0["name"], "cap": r0["cap"], "product_states": r0["product_states"],
                "transitions": r0["edges"], "control_signals": r0["signames"][:8]})
    res.note("classes_validated_against_chain_model", sorted("%s:cap=%d" % k for k, m in models.items() if m == CHAIN))
    return models


# ============================================================================================
# faulty software queues (canaries for both directions)
# ============================================================================================

class FaultyDut:
    """A reference queue written independently of Fifo.tla, with one injected fault."""

    def __init__(self, kind, cap, fault):
        self.kind, self.cap, self.fault = kind, cap, fault
        self.q = []
        self.n = 0

    def sig(self):
        return (self.n % 2,) if self.fault in ("drop", "swap") else ()

    def signames(self):
        return ["n%2"]

    def count(self):
        return len(self.q)

    def reset(self):
        self.q = []

    def cycle(self, eo, m, do):
        q, k, cap = self.q, self.kind, self.cap
        cnt = len(q)
        full, empty = cnt >= cap, cnt == 0
        if k == "pipe":
            dr = not empty
            dx = do and dr
            er = (not full) or (dx and self.fault != "rdy")
            ex = eo and er
        elif k == "bypass":
            er = not full
            ex = eo and er
            dr = (not empty) or ex
            dx = do and dr
        else:
            er, dr = not full, not empty
            if self.fault == "rdy":
                er = cnt + 1 < cap or cap == 1 and not full
            ex, dx = eo and er, do and dr
        dm = (q[0] if q else m) if dr else None
        if ex:
            self.n += 1
            if self.fault == "drop" and q and self.n % 2 == 0:
                q.append(q[-1])                 # the new message is lost, the previous one duplicated
            elif self.fault == "swap" and q and self.n % 2 == 0:
                q.insert(len(q) - 1, m)         # overtakes the youngest stored message
            else:
                q.append(m)
        if dx:
            q.pop(0)
        return {"enq_rdy": er, "deq_rdy": dr, "enq_xfer": bool(ex), "deq_xfer": bool(dx), "deq_msg": dm,
                "count": cnt, "count2": len(q)}


class ChainSoft:
    """Two one-entry bypass stages in series as registers and wires, written independently of FifoChain.tla.
    fault None: must agree with the chain graph everywhere (cross-check of the spec);
    fault "dup": a message bypassing through stage 1 is also stored there (duplicated)."""

    def __init__(self, fault=None):
        self.fault = fault
        self.f = [0, 0]
        self.b = [None, None]

    def sig(self):
        return tuple(self.f)

    def signames(self):
        return ["f1", "f2"]

    def count(self):
        return sum(self.f)

    def reset(self):
        self.f = [0, 0]

    def cycle(self, eo, m, do):
        f, b = self.f, self.b
        cnt = sum(f)
        er = not f[0]
        en1 = bool(eo and er)
        en2 = bool((en1 or f[0]) and not f[1])
        m2 = b[0] if f[0] else m
        val = bool(en2 or f[1])
        den = bool(val and do)
        dm = (b[1] if f[1] else m2) if val else None
        keep1 = not en2 or (self.fault == "dup" and not f[0])
        if en1 and keep1:
            b[0] = m
        nf0 = int((en1 or f[0]) and keep1)
        if en2 and not den:
            b[1] = m2
        nf1 = int((en2 or f[1]) and not den)
        self.f = [nf0, nf1]
        return {"enq_rdy": er, "deq_rdy": val, "enq_xfer": en1, "deq_xfer": den, "deq_msg": dm, "count": cnt,
                "count2": nf0 + nf1, "st2": (nf0, nf1)}


def _chain_walk_canaries(res):
    g = _GRAPH[(CHAIN, CHAIN_CAP)]
    r = walk(lambda: ChainSoft(), g, True, "chain-soft", CHAIN_CAP, spec_init=CHAIN_INIT)
    if r["violations"] or r["spec_states"] != len(g):
        raise MachineryError("FifoChain.tla and the independent register-level model of the chain disagree: %s"
                             % r["violations"][:2])
    r = walk(lambda: ChainSoft("dup"), g, True, "chain-dup", CHAIN_CAP, limit=3, spec_init=CHAIN_INIT)
    if not r["violations"]:
        raise MachineryError("walk canary: duplicating chain was not noticed")
    # a queue that honours the kind rule everywhere is NOT the chain: must be told apart in the finding state
    r = walk(lambda: FaultyDut("bypass", CHAIN_CAP, None), g, True, "true-bypass-fifo", CHAIN_CAP, limit=3,
             spec_init=CHAIN_INIT)
    if not any(v["clause"] == "enq_rdy" and [len(b) for b in v["q"]] == [1, 0] for v in r["violations"]):
        raise MachineryError("walk canary: a true bypass FIFO was not told apart from the chain in the finding state")
    res.note("chain_walk_canaries_rejected", 2)


def _walk_canaries(res):
    n = 0
    for kind, cap, fault in (("normal", 3, "drop"), ("pipe", 3, "swap"), ("pipe", 2, "rdy"), ("normal", 3, "rdy"),
                             ("bypass", 2, "swap")):
        if (kind, cap) not in _GRAPH:
            continue
        r = walk(lambda: FaultyDut(kind, cap, fault), _GRAPH[(kind, cap)], True, "faulty-" + fault, cap, limit=3)
        if not r["violations"]:
            raise MachineryError("walk canary: faulty queue (%s, %s, cap %d) was not noticed" % (fault, kind, cap))
        cl = {v["clause"] for v in r["violations"]}
        if fault in ("drop", "swap") and "deq_msg" not in cl:
            raise MachineryError("walk canary: %s fault reported as %s, not as a message mismatch" % (fault, cl))
        n += 1
    if n < 3:
        raise MachineryError("walk canaries did not run")
    res.note("walk_canaries_rejected", n)


# ============================================================================================
# 3. code -> spec
# ============================================================================================

def _event(obs, eo, m, do):
    b = lambda v: 2 if v is None else int(bool(v))
    n = lambda v: -1 if v is None else int(v)
    ev = {"k": "cycle", "eo": int(eo), "m": int(m) if eo else 0, "do": int(do), "er": b(obs["enq_rdy"]),
          "dr": b(obs["deq_rdy"]), "ex": int(obs["enq_xfer"]), "dx": int(obs["deq_xfer"]), "dm": n(obs["deq_msg"]),
          "c": n(obs["count"]), "c2": n(obs["count2"]), "bad": obs.get("illegal", "") or "", "pk": [],
          "st": list(obs["st2"]) if obs.get("st2") is not None else []}
    if "order" in obs:
        o = obs["order"]
        ev["pk"] = [int(o.index("e") < o.index("p")), int(o.index("d") < o.index("p")), int(bool(obs["peek_rdy"])),
                    n(obs["peek_msg"]) if obs["peek_msg"] is not None else 0]
    return ev


_MODES = ((0.9, 0.1), (0.1, 0.9), (0.95, 0.95), (0.3, 0.3), (1.0, 0.5), (0.5, 1.0), (0.6, 0.0), (0.0, 0.6))


def record(dut, R, length, has_reset, kind, cap):
    """Drive one bursty random offer history; each accepted message carries a fresh serial number."""
    ev = []
    serial = 1
    pe, pd = R.choice(_MODES)
    left = 0
    for _ in range(length):
        if left == 0:
            pe, pd = R.choice(_MODES)
            left = R.randint(3, 6 * cap + 10)
        left -= 1
        if has_reset and R.random() < 0.004:
            dut.reset()
            ev.append({"k": "reset", "c2": -1 if dut.count() is None else dut.count()})
            continue
        eo, do = R.random() < pe, R.random() < pd
        try:
            obs = dut.cycle(eo, serial, do)
        except MachineryError:
            raise
        except Exception as e:              # the simulated queue itself crashed: the history ends here
            ev.append({"k": "cycle", "eo": int(eo), "m": serial if eo else 0, "do": int(do), "er": 2, "dr": 2, "ex": 0,
                       "dx": 0, "dm": -1, "c": -1, "c2": -1, "bad": "raises-" + type(e).__name__, "pk": [], "st": []})
            break
        ev.append(_event(obs, eo, serial, do))
        if obs["enq_xfer"] or (eo and R.random() < 0.1):     # a producer may also withdraw an offer
            serial += 1
    return {"kind": kind, "cap": cap, "ev": ev}


def _trace_job(job):
    import c17_duts
    name, cap, idx, length, has_reset, model = job
    entry = next(e for e in c17_duts.catalogue() if e.name == name)
    dut = _seeded_make(entry, cap, "trace%d" % idx)
    t = record(dut, rng("c17/%s/%d/%d" % (name, cap, idx)), length, has_reset, model, cap)
    t["dut"] = name
    t["idx"] = idx
    if hasattr(dut, "block_order"):
        t["sched"] = "".join(x[0] for x in (dut.block_order or ()))
    return t


def _traces(res, cat, eff, caps, big_caps, per, lmin, lmax, models):
    R = rng("c17-lengths")
    jobs = []
    for e in cat:
        cs = [c for c in e.caps if c in caps]
        if e.parametric:                                 # classes parameterised by num_entries
            cs += list(big_caps)
        for c in cs:
            for i in range(per):
                jobs.append((e.name, c, i, R.randint(lmin, lmax), eff[e.name], models.get((e.name, c), e.kind)))
    with _pool() as ex:
        traces = list(ex.map(_trace_job, jobs, chunksize=2))
    nev = sum(len(t["ev"]) for t in traces)
    res.add_evals(nev)
    payload = [{"kind": t["kind"], "cap": t["cap"], "ev": t["ev"]} for t in traces]
    runs, verdicts = tlc.validate_traces("FifoTrace", {"traces": payload}, chunk=max(1, min(40, len(payload) // 16 + 1)))
    for r in runs:
        res.add_tlc(r)
        for p in r.prints:
            if p and p[0] == "T":
                res.count("transfers_accepted_in_traces", p[2])
                res.count("transfers_delivered_in_traces", p[3])
    res.add_traces(len(traces))
    scheds = set()
    for t, (err, pos) in zip(traces, verdicts):
        res.distinct(("trace", t["dut"], t["cap"], t["idx"]))
        if t.get("sched"):
            scheds.add((t["dut"], t["sched"]))
        # non-vacuity per trace: something was accepted and delivered, boundaries were touched
        cyc = [e for e in t["ev"] if e["k"] == "cycle"]
        if err == "ok" and not (any(e["ex"] for e in cyc) and any(e["dx"] for e in cyc)):
            raise MachineryError("vacuous trace for %s cap=%d" % (t["dut"], t["cap"]))
        if err != "ok":
            e = t["ev"][pos - 1]
            key = "trace:%s:cap=%d:%s%s" % (t["dut"], t["cap"], "chain:" if t["kind"] == CHAIN else "", err)
            res.violation(key, "%s (model %s, capacity %d): %s at cycle %d of a random offer history: %s"
                          % (t["dut"], t["kind"], t["cap"], err, pos, e),
                          {"dut": t["dut"], "cap": t["cap"], "idx": t["idx"], "clause": err, "event": pos,
                           "prefix": t["ev"][max(0, pos - 12):pos]})
    res.note("cl_block_orders_seen", sorted("%s:%s" % s for s in scheds))
    res.note("trace_events", nev)
    res.note("trace_capacities", sorted({t["cap"] for t in traces}))
    full_hits = sum(1 for t in traces for e in t["ev"] if e["k"] == "cycle" and e["c2"] == t["cap"])
    pipe_hits = sum(1 for t in traces if t["kind"] == "pipe" for e in t["ev"]
                    if e["k"] == "cycle" and e["ex"] and e["dx"] and e["c"] == t["cap"])
    byp_hits = sum(1 for t in traces if t["kind"] == "bypass" for e in t["ev"]
                   if e["k"] == "cycle" and e["ex"] and e["dx"] and e["c"] == 0)
    res.note("trace_boundary_hits", {"full": full_hits, "enq_into_full_pipe": pipe_hits, "bypass_through_empty": byp_hits})
    if not (full_hits and pipe_hits and byp_hits):
        raise MachineryError("random histories never reached a boundary case: %s" % res.notes["trace_boundary_hits"])
    ch = [t for t, v in zip(traces, verdicts) if t["kind"] == CHAIN and v[0] == "ok"]
    if ch:
        stall = sum(1 for t in ch for e in t["ev"] if e["k"] == "cycle" and e["c"] == 1 and e["er"] == 0)
        byp2 = sum(1 for t in ch for e in t["ev"] if e["k"] == "cycle" and e["c"] == 0 and e["ex"] and e["dx"])
        res.note("chain_trace_hits", {"enq_rdy_low_holding_one": stall, "bypass_through_both_stages": byp2})
        if not (stall and byp2):
            raise MachineryError("chain histories never reached the finding state / the double bypass: %s"
                                 % res.notes["chain_trace_hits"])
    ok = [t for t, v in zip(traces, verdicts) if v[0] == "ok"]
    if ok:
        t = ok[len(ok) // 2]
        res.sample({"kind": "impl trace", "dut": t["dut"], "cap": t["cap"], "events": len(t["ev"]), "first": t["ev"][:3]})
    return ok


def _trace_canaries(res, ok):
    """Corrupted copies of accepted real traces, and traces of faulty software queues, must be rejected."""
    can, what = [], []
    R = rng("c17-canary")
    pool = [t for t in ok if sum(1 for e in t["ev"] if e["k"] == "cycle" and e["dx"]) >= 4]
    R.shuffle(pool)
    for t in pool[:45]:
        c = {"kind": t["kind"], "cap": t["cap"], "ev": copy.deepcopy(t["ev"])}
        dl = [i for i, e in enumerate(c["ev"]) if e["k"] == "cycle" and e["dx"] and e["dm"] != -1]
        kind = len(can) % 5
        if kind == 0:        # a delivered message dropped: the next one shows up in its place
            i = dl[len(dl) // 2]
            c["ev"][i]["dm"] = c["ev"][i]["dm"] + 1
        elif kind == 1:      # two delivered messages swapped
            i, j = dl[len(dl) // 2 - 1], dl[len(dl) // 2]
            c["ev"][i]["dm"], c["ev"][j]["dm"] = c["ev"][j]["dm"], c["ev"][i]["dm"]
        elif kind == 2:      # wrong enq rdy
            i = next(k for k, e in enumerate(c["ev"]) if e["k"] == "cycle" and e["er"] != 2)
            c["ev"][i]["er"] = 1 - c["ev"][i]["er"]
        elif kind == 3:      # a delivery erased from the history (message lost)
            i = dl[len(dl) // 2]
            c["ev"][i]["dx"] = 0
        else:                # count off by one / a message delivered twice
            idx = [k for k, e in enumerate(c["ev"]) if e["k"] == "cycle" and e["c2"] > 0]
            if idx:
                c["ev"][idx[len(idx) // 2]]["c2"] -= 1
            else:
                i, j = dl[0], dl[1]
                c["ev"][j]["dm"] = c["ev"][i]["dm"]
        can.append(c)
        what.append(("corrupt", kind))
    for kind, cap, fault in (("normal", 3, "drop"), ("pipe", 4, "swap"), ("pipe", 2, "rdy"), ("normal", 4, "rdy"),
                             ("bypass", 2, "drop"), ("bypass", 3, "swap")):
        t = record(FaultyDut(kind, cap, fault), rng("c17-faulty-%s-%s" % (kind, fault)), 300, True, kind, cap)
        can.append(t)
        what.append(("faulty", fault))
    # histories accepted under the chain model: the finding state must not be blurred
    want = {}
    for t in [t for t in ok if t["kind"] == CHAIN][:2]:
        ev = t["ev"]
        i = next(k for k, e in enumerate(ev) if e["k"] == "cycle" and e["c"] == 1 and e["er"] == 0)
        j = next(k for k, e in enumerate(ev) if e["k"] == "cycle" and e["st"] == [1, 0])
        for tag, clause in (("er", "enq-rdy-high-but-kind-says-not-ready"), ("st", "wrong-stage-occupancy"),
                            ("as-kind", "enq-rdy-low-but-kind-says-ready")):
            c = {"kind": t["kind"], "cap": t["cap"], "ev": copy.deepcopy(ev)}
            if tag == "er":          # ready claimed in the finding state (what the advertised kind would do)
                c["ev"][i]["er"] = 1
            elif tag == "st":        # the single message reported in the other stage
                c["ev"][j]["st"] = [0, 1]
            else:                    # the same history judged by Fifo.tla of the advertised kind
                c["kind"] = "bypass"
            want[len(can)] = clause
            can.append(c)
            what.append(("chain", tag))
    t = record(FaultyDut("bypass", CHAIN_CAP, None), rng("c17-true-fifo-as-chain"), 300, True, CHAIN, CHAIN_CAP)
    want[len(can)] = "enq-rdy-high-but-kind-says-not-ready"
    can.append(t)
    what.append(("chain", "true-bypass-fifo"))
    t = record(ChainSoft("dup"), rng("c17-chain-dup"), 300, True, CHAIN, CHAIN_CAP)
    can.append(t)
    what.append(("chain", "dup"))
    if len(can) < 10:
        raise MachineryError("too few canary traces (%d)" % len(can))
    _, cv = tlc.validate_traces("FifoTrace", {"traces": can})
    acc = [what[i] for i, v in enumerate(cv) if v[0] == "ok"]
    if acc:
        raise MachineryError("canary traces accepted by FifoTrace: %s" % acc[:5])
    for i, clause in want.items():
        if cv[i][0] != clause:
            raise MachineryError("canary trace %s rejected as %s, expected %s" % (what[i], cv[i][0], clause))
    res.note("trace_canaries_rejected", len(can))
    res.note("trace_canary_clauses", sorted({v[0] for v in cv}))


# ============================================================================================
# 2b/3b. CL queues under callers that sample rdy() in one block and call the method in a later one
# ============================================================================================

def _split_cases(cat, caps):
    """(class, capacity, shape, forced order) for every CL queue class, every way of splitting the callers and
    EVERY linear extension of pymtl3's own constraints over the caller blocks and the queue's own blocks."""
    import c17_duts
    out, table = [], {}
    for e in cat:
        if e.iface != "cl":
            continue
        for sh in c17_duts.SPLIT_SHAPES:
            orders = c17_duts.split_orders(e, sh)
            table["%s/%s" % (e.name, sh)] = len(orders)
            for c in caps:
                for o in orders:
                    out.append((e.name, c, sh, o))
    return out, table


def _split_make(name, cap, shape, order):
    import c17_duts
    entry = next(e for e in c17_duts.catalogue() if e.name == name)
    return c17_duts.SplitCLDut(entry, cap, shape, order)


def _split_walk_job(job):
    name, cap, shape, order = job
    first = _split_make(name, cap, shape, order)
    eff = first.effective_kind()
    box = [first]
    r = walk(lambda: box.pop() if box else _split_make(name, cap, shape, order), _GRAPH[(eff, cap)], False,
             "%s/split-%s" % (name, shape), cap)
    r.update({"eff": eff, "shape": shape, "order": list(order), "sample_order": list(first.sample_order), "base": name})
    return r


def _split_walks(res, cat, caps):
    cases, table = _split_cases(cat, caps)
    kinds = {e.name: e.kind for e in cat}
    with _pool() as ex:
        results = list(ex.map(_split_walk_job, cases, chunksize=2))
    seen = {}
    for r in results:
        name, cap = r["name"], r["cap"]
        res.add_evals(r["cycles"])
        res.count("split_caller_transitions_replayed", r["edges"])
        res.distinct(("split-walk", name, cap, tuple(r["order"])))
        seen.setdefault("%s:%s" % (name, "".join(x[0] + x[1] for x in r["sample_order"])), r["eff"])
        for v in r["violations"]:
            occ = "empty" if v["len"] == 0 else "full" if v["len"] == cap else "partly-filled"
            key = "replay:%s:%s:%s" % (name, v["clause"], occ)      # one key per class / split / clause / occupancy class
            res.violation(key,
                          "%s (advertised kind %s, capacity %d), callers split as %s, blocks scheduled %s (a legal order of "
                          "pymtl3's constraints; rdy sampled / method called in the order %s -> Fifo.tla(%s)): holding %d "
                          "message(s), offer %s -> %s: expected %s, observed %s"
                          % (r["base"], kinds[r["base"]], cap, r["shape"], r["order"], r["sample_order"], r["eff"], v["len"],
                             _act_str(v["act"]), v["clause"], _short(v["expected"]), _short(v["observed"])),
                          _viol_detail(name, cap, v, split={"base": r["base"], "shape": r["shape"], "order": r["order"]}))
        if not r["violations"] and r["spec_states"] != r["spec_states_total"]:
            raise MachineryError("%s cap=%d order %s: only %d of %d spec states reached without any mismatch"
                                 % (name, cap, r["order"], r["spec_states"], r["spec_states_total"]))
    res.note("split_caller_linear_extensions", table)
    res.note("split_caller_sample_orders_and_model", seen)
    return cases


def _split_trace_job(job):
    name, cap, shape, order, idx, length = job
    dut = _split_make(name, cap, shape, order)
    t = record(dut, rng("c17/split/%s/%s/%d/%s/%d" % (name, shape, cap, "-".join(order), idx)), length, False,
               dut.effective_kind(), cap)
    t.update({"dut": "%s/split-%s" % (name, shape), "idx": idx, "order": list(order), "sample_order": list(dut.sample_order)})
    return t


def _split_traces(res, cases, lmin, lmax, extra_caps):
    R = rng("c17-split-lengths")
    jobs = [c + (0, R.randint(lmin, lmax)) for c in cases]
    jobs += [(n, ec, sh, o, 0, R.randint(lmin, lmax)) for (n, c, sh, o) in cases if c == 1 for ec in extra_caps]
    with _pool() as ex:
        traces = list(ex.map(_split_trace_job, jobs, chunksize=4))
    nev = sum(len(t["ev"]) for t in traces)
    res.add_evals(nev)
    payload = [{"kind": t["kind"], "cap": t["cap"], "ev": t["ev"]} for t in traces]
    runs, verdicts = tlc.validate_traces("FifoTrace", {"traces": payload}, chunk=max(1, min(40, len(payload) // 16 + 1)))
    for r in runs:
        res.add_tlc(r)
    res.add_traces(len(traces))
    full = 0
    for t, (err, pos) in zip(traces, verdicts):
        res.distinct(("split-trace", t["dut"], t["cap"], tuple(t["order"])))
        cyc = [e for e in t["ev"] if e["k"] == "cycle"]
        full += sum(1 for e in cyc if e["c2"] == t["cap"])
        if err == "ok":
            if not (any(e["ex"] for e in cyc) and any(e["dx"] for e in cyc)):
                raise MachineryError("vacuous split-caller trace for %s cap=%d" % (t["dut"], t["cap"]))
            continue
        e = t["ev"][pos - 1]
        res.violation("trace:%s:%s" % (t["dut"], err),
                      "%s (capacity %d), blocks scheduled %s (rdy sampled / method called as %s -> Fifo.tla(%s)): %s at "
                      "cycle %d of a random offer history: %s" % (t["dut"], t["cap"], t["order"], t["sample_order"], t["kind"],
                                                                   err, pos, e),
                      {"dut": t["dut"], "cap": t["cap"], "order": t["order"], "clause": err, "event": pos,
                       "prefix": t["ev"][max(0, pos - 12):pos]})
    if not full:
        raise MachineryError("split-caller histories never filled a queue")
    res.note("split_caller_trace_events", nev)


def _split_canaries(res):
    """The seeded-change shape in software: a normal queue whose ready flags are refreshed AFTER the sampling block
    ran (the sampled flag is last cycle's) must be rejected by the walk."""
    class Stale(FaultyDut):
        def __init__(self, cap):
            FaultyDut.__init__(self, "normal", cap, None)
            self.flag = True

        def sig(self):
            return (int(self.flag),)

        def cycle(self, eo, m, do):
            q, cap = self.q, self.cap
            cnt = len(q)
            er = self.flag                       # sampled before the refresh
            self.flag = cnt < cap                # up_pulse
            dr = cnt > 0
            ex, dx = bool(eo and er), bool(do and dr)
            dm = q[0] if q else None
            if dx:
                q.pop(0)
            if ex:
                q.append(m)
                del q[:-cap]                     # deque(maxlen): the oldest entry falls out
            return {"enq_rdy": er, "deq_rdy": dr, "enq_xfer": ex, "deq_xfer": dx, "deq_msg": dm, "count": cnt,
                    "count2": len(q)}

    r = walk(lambda: Stale(2), _GRAPH[("normal", 2)], False, "stale-ready-flag", 2, limit=3)
    if not any(v["clause"] == "enq_rdy" for v in r["violations"]):
        raise MachineryError("walk canary: a queue with a stale ready flag was not noticed (%s)"
                             % [v["clause"] for v in r["violations"]])
    res.note("split_caller_canary_rejected", sorted({v["clause"] for v in r["violations"]}))


# ============================================================================================
# findings made by reading the code, probed so that the evidence records them
# ============================================================================================

def _probe_reset(res, cat):
    """Which classes keep their contents over a reset pulse (no reset term on the full bit / no reset
    behaviour at all).  The statement says nothing about reset, so for the classes the catalogue lists
    as reset-less this is recorded, not judged, and they are driven without resets (if one of them
    does clear, resets are injected after all).  Classes listed as resettable are always walked with
    Reset edges; a failure to clear is reported there."""
    keep, eff = [], {}
    for e in cat:
        eff[e.name] = e.has_reset
        if e.iface == "cl" or e.has_reset:
            if not e.has_reset:
                keep.append(e.name)
            continue
        dut = _seeded_make(e, e.caps[0], "probe")
        dut.cycle(True, 5, False)
        if dut.count() != 1:
            raise MachineryError("reset probe: %s did not accept a message into an empty queue" % e.name)
        dut.reset()
        if dut.count() == 0:
            eff[e.name] = True
        else:
            keep.append(e.name)
    res.note("classes_whose_state_ignores_reset", keep)
    res.assume("reset is injected only on classes whose state has a reset term; these keep their contents over a "
               "reset pulse and are driven without resets: %s" % ", ".join(keep))
    return eff


# ============================================================================================

class _Locked:
    """Result proxy for the phases that run in threads: one call at a time."""

    def __init__(self, res):
        import threading
        self._res, self._lock = res, threading.Lock()

    def __getattr__(self, name):
        f = getattr(self._res, name)
        if not callable(f):
            return f

        def call(*a, **kw):
            with self._lock:
                return f(*a, **kw)
        return call


def _clean_replay_dir():
    from common import VERIF
    d = os.path.join(VERIF, "replay", "C17")
    if os.path.isdir(d):
        for f in os.listdir(d):
            if f.startswith("violation_") and f.endswith(".json"):
                os.remove(os.path.join(d, f))


def run(res, tier):
    quick = tier == "quick"
    _clean_replay_dir()
    caps = (1, 2, 3, 4) if quick else (1, 2, 3, 4, 5)
    import time
    import c17_duts
    import c17_ext
    ph, t0 = {}, time.time()

    def lap(name):
        nonlocal t0
        ph[name] = round(time.time() - t0, 1)
        t0 = time.time()

    # the TLC runs of parts 1 and 5 and the graph dumps are independent of each other: run them side by side
    lres = _Locked(res)
    _par(lambda f: f(), [
        lambda: _model_check(lres, (1, 2, 3) if quick else (1, 2, 3, 4, 5), (1, 2) if quick else (1, 2, 3, 4),
                             5 if quick else 7),
        lambda: _model_check_chain(lres, 5 if quick else 7),
        lambda: _load_graphs(lres, caps),
        lambda: _load_chain_graph(lres)] + c17_ext.model_check_jobs(lres, quick), nthreads=6)
    _kind_deviations(res, "bypass")
    lap("model_check_and_graph_dumps")
    cat = c17_duts.catalogue()
    for e in cat:
        if e.chain and (e.chain != CHAIN or e.caps != (CHAIN_CAP,) or e.kind != "bypass"):
            raise MachineryError("no chain model for %s" % e.name)
    eff = _probe_reset(res, cat)
    models = _graph_walks(res, cat, caps, eff)
    _walk_canaries(res)
    _chain_walk_canaries(res)
    lap("walks")
    ok = _traces(res, cat, eff, (1, 2, 3, 4, 5), (7,) if quick else (6, 7, 8, 13, 16), 2 if quick else 24,
                 200, 500 if quick else 2000, models)
    lap("traces")
    _trace_canaries(res, ok)
    lap("trace_canaries")
    cases = _split_walks(res, cat, (1, 2, 3))
    _split_canaries(res)
    res.assume("split callers: PipeQueueCL / BypassQueueCL constrain only the enq / deq methods; a block that only samples "
               "rdy() before the other side's method call sees the start-of-cycle occupancy and such a schedule is validated "
               "against Fifo.tla(normal) (see split_caller_sample_orders_and_model); NormalQueueCL must be normal under "
               "every legal schedule")
    _split_traces(res, cases, 150, 300 if quick else 1200, (5,) if quick else (4, 5, 7))
    lap("split_callers")
    c17_ext.run_regfile(res, quick, lap)
    c17_ext.run_adapters(res, quick, lap)
    res.note("phase_seconds", ph)
    res.cov["exhaustive"] = True
    res.note("rule", "spec->code: for every queue class x capacity <= %d, every transition (enq?, msg in 1..3, deq?, and "
             "reset where implemented) of Fifo.tla from every reachable pair (queue contents, implementation control "
             "state); code->spec: %d random bursty histories per class x capacity (capacities 1..5 and %s), "
             "200..%d cycles, serial-number payloads; a case is one (class, capacity) walk or one history"
             % (caps[-1], 2 if quick else 24, "7" if quick else "6,7,8,13,16", 500 if quick else 2000))
    res.assume("only protocol-legal offers: en is raised only while rdy is high; val and the consumer's rdy are "
               "independent of the queue's outputs")
    res.assume("occupancy of classes without a count port is read from their full bits / deque; "
               "valrdy NormalQueueRTL: count = num_entries - num_free_entries")
    res.assume("enrdy BypassQueue2RTL: when it deviates from Fifo.tla(bypass, 2) it is validated against FifoChain.tla "
               "(two one-entry bypass queues in series, stage occupancy read from q1.full / q2.full); the deviations "
               "of that model from the advertised kind are computed from the two TLC state graphs and reported as "
               "kind-rule:* violations")
    res.assume("the valid bit of an en/rdy send port (enrdy_queues deq) is observable only in cycles where the "
               "consumer is ready")


def replay(obj):
    """Re-drive the recorded action path of a spec->code violation and print what happens."""
    import c17_duts
    import c17_ext
    r = c17_ext.replay(obj)
    if r is not None:
        return r
    d = obj.get("detail") or {}
    print("property C17  key=%s\n  %s" % (obj.get("key"), obj.get("what")))
    if "path" not in d:
        for e in d.get("prefix", []):
            print("  ", e)
        return 0
    entry = next(e for e in c17_duts.catalogue() if e.name == d["dut"])
    dut = _seeded_make(entry, d["cap"], "walk1")
    for a in list(d["path"]) + [d["act"]]:
        if a == "Reset":
            dut.reset()
            print("  Reset -> count", dut.count())
        else:
            print("  cycle enq=%s m=%s deq=%s ->" % tuple(a), _short(dut.cycle(bool(a[0]), a[1], bool(a[2]))))
    print("  expected at the last step:", d["expected"])
    return 1
