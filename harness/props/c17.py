"""C17  Library queues are FIFOs with their advertised same-cycle behaviour.

spec/Fifo.tla (one action per clock cycle, parameterised by kind and capacity), spec/FifoTrace.tla
(trace validation), harness/c17_duts.py (one legal driver per interface style).
  1. TLC checks Fifo.tla exhaustively for every kind x capacity (|Msgs| = 3): occupancy bound,
     delivered is a prefix of accepted, accepted = delivered o q, ready/valid exactly per kind,
     count arithmetic, per-step FIFO order; once with the histories hidden by a VIEW (whole
     state space) and once with the histories kept in the state up to a bound.
  2. spec -> code: the dumped state graph gives, for every contents q and every offer
     (enq?, msg, deq?), the expected outputs and q'.  Every queue class x capacity is walked over
     the PRODUCT of the spec state and the implementation's own control state (pointers, counters,
     full bits): from every reachable product state every spec transition (and reset) is applied
     to the real queue and rdy/val/transfer/message/count are compared.
  3. code -> spec: long bursty random offer histories with serial-number payloads on every class,
     also at capacities beyond the model-checked ones, validated by FifoTrace.
  4. canaries: faulty software queues (lost message, swapped messages, wrong ready) must be
     rejected by the walk and by FifoTrace; corrupted copies of real traces must be rejected.

NOTE: Trusted base: TLC, Fifo.tla as the statement of the kind rules, the adapters of
c17_duts.py (legal en/rdy, val/rdy and CL method drivers; the intra-cycle order is left to the
queue). Reset is only exercised on classes whose state has a reset term; occupancy of classes
without a count port is read from their full bits / deque (white box). valrdy_queues.py cannot be
imported on the unchanged tree (missing InValRdyIfc/OutValRdyIfc); the stream val/rdy interfaces are
lent under those names in memory.
"""
import collections
import copy
import os
import random

import tlc
from common import MachineryError, rng, seed

READY = True

MSGS = (1, 2, 3)
FIELDS = ("enq_rdy", "deq_rdy", "enq_xfer", "deq_xfer", "count", "deq_msg", "count2")
MAX_VIOL_PER_DUT = 8        # distinct (clause, occupancy, offer) mismatches reported per class x capacity
MAX_RAW_PER_DUT = 60        # raw mismatching transitions after which a walk is abandoned

_GRAPH = {}      # (kind, cap) -> {q tuple -> {act -> (q2 tuple, out dict)}}


# ============================================================================================
# 1. model checking
# ============================================================================================

_INVS = ("TypeOK", "Bounded", "DeliveredPrefix", "Conservation", "RdyValExact", "CountExact")


def _cfg(kind, cap, view=True, maxhist=0, props=True):
    s = "SPECIFICATION Spec\nCONSTANTS Kind = \"%s\"\n Cap = %d\n Msgs = {%s}\n MaxHist = %d\n" % (
        kind, cap, ", ".join(map(str, MSGS)), maxhist)
    s += "VIEW View\n" if view else "CONSTRAINT HistBound\n"
    if props:
        s += "".join("INVARIANT %s\n" % i for i in _INVS) + "PROPERTY StepFifo\n"
    return s


def _par(fn, items, nthreads=None):
    from concurrent.futures import ThreadPoolExecutor
    with ThreadPoolExecutor(max_workers=nthreads or min(len(items), max(2, (os.cpu_count() or 4) // 2))) as ex:
        return list(ex.map(fn, items))


def _model_check(res, caps, hist_caps, maxhist):
    jobs = [(k, c, True, 0) for k in ("normal", "pipe", "bypass") for c in caps]
    jobs += [(k, c, False, maxhist) for k in ("normal", "pipe", "bypass") for c in hist_caps]

    def one(j):
        k, c, view, mh = j
        return j, tlc.run("Fifo", cfg_text=_cfg(k, c, view, mh), coverage=True, timeout=1800, workers=2)

    for (k, c, view, mh), r in _par(one, jobs):
        res.add_tlc(r)
        tag = "kind=%s,cap=%d,%s" % (k, c, "view" if view else "hist<=%d" % mh)
        if r.violated:
            res.violation("model:%s:%s" % (tag, r.violated), "Fifo.tla violates %s for %s" % (r.violated, tag),
                          r.out[-3000:])
        elif not r.ok:
            raise MachineryError("TLC failed on Fifo %s: %s\n%s" % (tag, r.errors, r.out[-2000:]))
        for act in ("Cycle", "Reset"):
            if r.coverage.get(act, (0, 0))[1] == 0:
                raise MachineryError("action %s never taken in Fifo %s (vacuous)" % (act, tag))
        # non-vacuity of the state space: every contents up to Cap must have been reached
        want = sum(len(MSGS) ** i for i in range(c + 1))
        if view and r.distinct < want:
            raise MachineryError("Fifo %s: only %d states, fewer than the %d possible contents" % (tag, r.distinct, want))
    res.note("model_check_caps", list(caps))
    res.note("model_check_history_bound", {"caps": list(hist_caps), "max_accepted": maxhist})


# ============================================================================================
# 2. spec -> code
# ============================================================================================

def _load_graphs(res, caps):
    jobs = [(k, c) for k in ("normal", "pipe", "bypass") for c in caps if (k, c) not in _GRAPH]

    def one(j):
        k, c = j
        return j, tlc.dump_graph("Fifo", cfg_text=_cfg(k, c, True, 0, props=False))

    for (k, c), (r, states, init, edges) in _par(one, jobs, nthreads=6):
        if not r.ok:
            raise MachineryError("TLC failed dumping Fifo %s/%d: %s\n%s" % (k, c, r.errors, r.out[-2000:]))
        res.add_tlc(r)
        g = {}
        for (s, d, name, args) in edges:
            q = tuple(states[s]["q"])
            act = "Reset" if name == "Reset" else (bool(args[0]), int(args[1]), bool(args[2]))
            dst = (tuple(states[d]["q"]), states[d]["out"])
            old = g.setdefault(q, {}).get(act)
            if old is not None and old != dst:
                raise MachineryError("Fifo graph %s/%d: outputs depend on more than q at %s %s" % (k, c, q, act))
            g[q][act] = dst
        if len(init) != 1 or tuple(states[next(iter(init))]["q"]) != ():
            raise MachineryError("Fifo graph %s/%d: unexpected initial states" % (k, c))
        want = sum(len(MSGS) ** i for i in range(c + 1))
        if len(g) != want:
            raise MachineryError("Fifo graph %s/%d: %d contents, expected %d" % (k, c, len(g), want))
        for q, acts in g.items():
            if len(acts) != 2 * (1 + len(MSGS)) + 1:
                raise MachineryError("Fifo graph %s/%d: %d actions at %s" % (k, c, len(acts), q))
        _GRAPH[(k, c)] = g


def _diff(obs, exp):
    """First output (in a fixed order) on which the implementation differs from the spec, or None."""
    if obs.get("illegal"):
        return obs["illegal"]
    for f in FIELDS:
        o = obs.get(f)
        if f == "deq_msg":
            e = exp["deq_msg"][0] if exp["deq_msg"] else None
            if exp["deq_xfer"] and o is None:
                return "deq_msg"
            if o is not None and o != e:
                return "deq_msg"
            continue
        if o is None:
            continue
        if o != exp[f]:
            return f
    return None


def _act_str(act):
    return "Reset" if act == "Reset" else "enq=%d,deq=%d" % (act[0], act[2])


def walk(dut_factory, graph, has_reset, name, cap, limit=MAX_VIOL_PER_DUT):
    """Explore the product of spec contents and implementation control state; apply every spec
    transition from every reachable product state.  Returns a dict of statistics and the list
    of mismatches (each with the shortest known action path from the initial state)."""
    dut = dut_factory()
    init = ((), dut.sig())
    cur = init
    dest = {init: {}}                     # product state -> {act: product state | None}
    acts_of = lambda ps: [a for a in graph[ps[0]] if a != "Reset" or has_reset]
    viol = []
    ncyc = 0
    nedge = 0
    perturbed = 0
    nraw = 0
    aborted = False

    def apply(ps, act):
        nonlocal ncyc
        ncyc += 1
        q2, exp = graph[ps[0]][act]
        try:
            if act == "Reset":
                dut.reset()
                c = dut.count()
                obs = {"count2": c}
                bad = None if c in (None, 0) else "reset-does-not-empty"
            else:
                obs = dut.cycle(*act)
                bad = _diff(obs, exp)
        except MachineryError:
            raise
        except Exception as e:              # the simulated queue itself crashed
            obs = {"exception": "%s: %s" % (type(e).__name__, str(e)[:200])}
            bad = "raises-" + type(e).__name__
        return q2, exp, obs, bad

    def path_to(ps):
        prev = {init: None}
        dq = collections.deque([init])
        while dq:
            x = dq.popleft()
            if x == ps:
                break
            for a, y in dest.get(x, {}).items():
                if y is not None and y not in prev:
                    prev[y] = (x, a)
                    dq.append(y)
        out = []
        x = ps
        while prev.get(x) is not None:
            x, a = prev[x]
            out.append(a)
        return out[::-1]

    def mismatch(ps, act, exp, obs, bad):
        nonlocal dut, cur
        viol.append({"clause": bad, "len": len(ps[0]), "q": list(ps[0]), "sig": list(ps[1]), "act": act,
                     "expected": exp, "observed": obs, "path": path_to(ps)})
        dest[ps][act] = None
        dut = dut_factory()
        cur = init

    while True:
        todo = [a for a in acts_of(cur) if a not in dest[cur]]
        if todo:
            act = todo[0]
            q2, exp, obs, bad = apply(cur, act)
            nedge += 1
            if bad:
                mismatch(cur, act, exp, obs, bad)
                nraw += 1
                if len({(v["clause"], v["len"], _act_str(v["act"])) for v in viol}) >= limit or nraw >= MAX_RAW_PER_DUT:
                    aborted = True
                    break
                continue
            # canary on the comparison itself: a perturbed expectation must be noticed
            if act != "Reset" and perturbed < 40:
                e2 = dict(exp)
                which = perturbed % 4
                if which == 0:
                    e2["enq_rdy"] = not e2["enq_rdy"]
                elif which == 1:
                    e2["count2"] = e2["count2"] + 1
                elif which == 2:
                    e2["deq_xfer"] = not e2["deq_xfer"]
                elif e2["deq_msg"]:
                    e2["deq_msg"] = (e2["deq_msg"][0] % len(MSGS) + 1,)
                else:
                    e2["enq_xfer"] = not e2["enq_xfer"]
                hidden = ((which == 1 and obs.get("count2") is None) or
                          (which == 3 and exp["deq_msg"] and obs.get("deq_msg") is None and not exp["deq_xfer"]))
                if _diff(obs, e2) is None and not hidden:
                    raise MachineryError("replay canary: perturbed expectation %s accepted for %s" % (e2, name))
                perturbed += 1
            nxt = (q2, dut.sig())
            dest[cur][act] = nxt
            dest.setdefault(nxt, {})
            cur = nxt
            continue
        # navigate through known edges to the nearest product state with untested actions
        prev = {cur: None}
        dq = collections.deque([cur])
        goal = None
        while dq:
            x = dq.popleft()
            if any(a not in dest[x] for a in acts_of(x)):
                goal = x
                break
            for a, y in dest[x].items():
                if y is not None and y not in prev:
                    prev[y] = (x, a)
                    dq.append(y)
        if goal is None:
            break
        steps = []
        x = goal
        while prev[x] is not None:
            x, a = prev[x]
            steps.append(a)
        for a in reversed(steps):
            q2, exp, obs, bad = apply(cur, a)
            nxt = (q2, dut.sig())
            if bad or nxt != dest[cur][a]:
                raise MachineryError("%s cap=%d is not deterministic in its control state: %s from %s gave %s/%s, "
                                     "earlier %s" % (name, cap, a, cur, bad, nxt, dest[cur][a]))
            cur = nxt
    seen_q = {ps[0] for ps in dest}
    return {"name": name, "cap": cap, "product_states": len(dest), "spec_states": len(seen_q),
            "spec_states_total": len(graph), "edges": nedge, "cycles": ncyc, "aborted": aborted,
            "violations": viol, "signames": dut.signames() if hasattr(dut, "signames") else []}


def _seeded_make(entry, cap, tag):
    """Build a DUT with pymtl3's scheduler tie-breaks (global `random`) under our seed."""
    import c17_duts
    st = random.getstate()
    random.seed("%d/%s/%s/%d" % (seed(), tag, entry.name, cap))
    try:
        return c17_duts.make(entry, cap, any_cap=True)
    finally:
        random.setstate(st)


def _walk_job(job):
    import c17_duts
    name, cap, has_reset = job
    entry = next(e for e in c17_duts.catalogue() if e.name == name)
    n = [0]

    def factory():
        n[0] += 1
        return _seeded_make(entry, cap, "walk%d" % n[0])

    r = walk(factory, _GRAPH[(entry.kind, cap)], has_reset, name, cap)
    r["shim"] = c17_duts.shim_used()
    return r


def _pool():
    import multiprocessing
    from concurrent.futures import ProcessPoolExecutor
    return ProcessPoolExecutor(max_workers=os.cpu_count() or 4, mp_context=multiprocessing.get_context("fork"))


def _report_walk(res, r, kind):
    name, cap = r["name"], r["cap"]
    for v in r["violations"]:
        key = "replay:%s:cap=%d:%s:len=%d:%s" % (name, cap, v["clause"], v["len"], _act_str(v["act"]))
        res.violation(key,
                      "%s (kind %s, capacity %d): holding %d message(s), offer %s -> %s differs from Fifo.tla: "
                      "expected %s, observed %s" % (name, kind, cap, v["len"], _act_str(v["act"]), v["clause"],
                                                    _short(v["expected"]), _short(v["observed"])),
                      {"dut": name, "cap": cap, "path": [list(a) if a != "Reset" else a for a in v["path"]],
                       "act": list(v["act"]) if v["act"] != "Reset" else "Reset", "clause": v["clause"],
                       "expected": v["expected"], "observed": v["observed"], "control_state": v["sig"]})
    if not r["violations"] and r["spec_states"] != r["spec_states_total"]:
        raise MachineryError("%s cap=%d: only %d of %d spec states reached without any mismatch"
                             % (name, cap, r["spec_states"], r["spec_states_total"]))


def _short(d):
    return {k: (v[0] if isinstance(v, tuple) and v else (None if v == () else v)) for k, v in d.items() if k != "order"}


def _graph_walks(res, cat, caps, eff):
    jobs = [(e.name, c, eff[e.name]) for e in cat for c in e.caps if c in caps]
    jobs.sort(key=lambda j: -j[1])
    kinds = {e.name: e.kind for e in cat}
    with _pool() as ex:
        results = list(ex.map(_walk_job, jobs))
    table = {}
    for r in results:
        _report_walk(res, r, kinds[r["name"]])
        res.add_evals(r["cycles"])
        res.count("spec_to_code_transitions_replayed", r["edges"])
        res.count("spec_to_code_product_states", r["product_states"])
        table.setdefault(r["name"], {})[r["cap"]] = [r["product_states"], r["edges"]]
        res.distinct(("walk", r["name"], r["cap"]))
        for s in r["shim"]:
            res.assume("%s is not importable on the unchanged tree (InValRdyIfc/OutValRdyIfc are not exported by "
                       "pymtl3.stdlib.ifcs); the stream val/rdy interfaces were lent under those names" % s)
    res.note("walked_classes_caps_productstates_edges", table)
    r0 = results[-1]
    res.sample({"kind": "spec->code walk", "dut": r0["name"], "cap": r0["cap"], "product_states": r0["product_states"],
                "transitions": r0["edges"], "control_signals": r0["signames"][:8]})


# ============================================================================================
# faulty software queues (canaries for both directions)
# ============================================================================================

class FaultyDut:
    """A reference queue written independently of Fifo.tla, with one injected fault."""

    def __init__(self, kind, cap, fault):
        self.kind, self.cap, self.fault = kind, cap, fault
        self.q = []
        self.n = 0

    def sig(self):
        return (self.n % 2,) if self.fault in ("drop", "swap") else ()

    def signames(self):
        return ["n%2"]

    def count(self):
        return len(self.q)

    def reset(self):
        self.q = []

    def cycle(self, eo, m, do):
        q, k, cap = self.q, self.kind, self.cap
        cnt = len(q)
        full, empty = cnt >= cap, cnt == 0
        if k == "pipe":
            dr = not empty
            dx = do and dr
            er = (not full) or (dx and self.fault != "rdy")
            ex = eo and er
        elif k == "bypass":
            er = not full
            ex = eo and er
            dr = (not empty) or ex
            dx = do and dr
        else:
            er, dr = not full, not empty
            if self.fault == "rdy":
                er = cnt + 1 < cap or cap == 1 and not full
            ex, dx = eo and er, do and dr
        dm = (q[0] if q else m) if dr else None
        if ex:
            self.n += 1
            if self.fault == "drop" and q and self.n % 2 == 0:
                q.append(q[-1])                 # the new message is lost, the previous one duplicated
            elif self.fault == "swap" and q and self.n % 2 == 0:
                q.insert(len(q) - 1, m)         # overtakes the youngest stored message
            else:
                q.append(m)
        if dx:
            q.pop(0)
        return {"enq_rdy": er, "deq_rdy": dr, "enq_xfer": bool(ex), "deq_xfer": bool(dx), "deq_msg": dm,
                "count": cnt, "count2": len(q)}


def _walk_canaries(res):
    n = 0
    for kind, cap, fault in (("normal", 3, "drop"), ("pipe", 3, "swap"), ("pipe", 2, "rdy"), ("normal", 3, "rdy"),
                             ("bypass", 2, "swap")):
        if (kind, cap) not in _GRAPH:
            continue
        r = walk(lambda: FaultyDut(kind, cap, fault), _GRAPH[(kind, cap)], True, "faulty-" + fault, cap, limit=3)
        if not r["violations"]:
            raise MachineryError("walk canary: faulty queue (%s, %s, cap %d) was not noticed" % (fault, kind, cap))
        cl = {v["clause"] for v in r["violations"]}
        if fault in ("drop", "swap") and "deq_msg" not in cl:
            raise MachineryError("walk canary: %s fault reported as %s, not as a message mismatch" % (fault, cl))
        n += 1
    if n < 3:
        raise MachineryError("walk canaries did not run")
    res.note("walk_canaries_rejected", n)


# ============================================================================================
# 3. code -> spec
# ============================================================================================

def _event(obs, eo, m, do):
    b = lambda v: 2 if v is None else int(bool(v))
    n = lambda v: -1 if v is None else int(v)
    ev = {"k": "cycle", "eo": int(eo), "m": int(m) if eo else 0, "do": int(do), "er": b(obs["enq_rdy"]),
          "dr": b(obs["deq_rdy"]), "ex": int(obs["enq_xfer"]), "dx": int(obs["deq_xfer"]), "dm": n(obs["deq_msg"]),
          "c": n(obs["count"]), "c2": n(obs["count2"]), "bad": obs.get("illegal", "") or "", "pk": []}
    if "order" in obs:
        o = obs["order"]
        ev["pk"] = [int(o.index("e") < o.index("p")), int(o.index("d") < o.index("p")), int(bool(obs["peek_rdy"])),
                    n(obs["peek_msg"]) if obs["peek_msg"] is not None else 0]
    return ev


_MODES = ((0.9, 0.1), (0.1, 0.9), (0.95, 0.95), (0.3, 0.3), (1.0, 0.5), (0.5, 1.0), (0.6, 0.0), (0.0, 0.6))


def record(dut, R, length, has_reset, kind, cap):
    """Drive one bursty random offer history; each accepted message carries a fresh serial number."""
    ev = []
    serial = 1
    pe, pd = R.choice(_MODES)
    left = 0
    for _ in range(length):
        if left == 0:
            pe, pd = R.choice(_MODES)
            left = R.randint(3, 6 * cap + 10)
        left -= 1
        if has_reset and R.random() < 0.004:
            dut.reset()
            ev.append({"k": "reset", "c2": -1 if dut.count() is None else dut.count()})
            continue
        eo, do = R.random() < pe, R.random() < pd
        try:
            obs = dut.cycle(eo, serial, do)
        except MachineryError:
            raise
        except Exception as e:              # the simulated queue itself crashed: the history ends here
            ev.append({"k": "cycle", "eo": int(eo), "m": serial if eo else 0, "do": int(do), "er": 2, "dr": 2, "ex": 0,
                       "dx": 0, "dm": -1, "c": -1, "c2": -1, "bad": "raises-" + type(e).__name__, "pk": []})
            break
        ev.append(_event(obs, eo, serial, do))
        if obs["enq_xfer"] or (eo and R.random() < 0.1):     # a producer may also withdraw an offer
            serial += 1
    return {"kind": kind, "cap": cap, "ev": ev}


def _trace_job(job):
    import c17_duts
    name, cap, idx, length, has_reset = job
    entry = next(e for e in c17_duts.catalogue() if e.name == name)
    dut = _seeded_make(entry, cap, "trace%d" % idx)
    t = record(dut, rng("c17/%s/%d/%d" % (name, cap, idx)), length, has_reset, entry.kind, cap)
    t["dut"] = name
    t["idx"] = idx
    if hasattr(dut, "block_order"):
        t["sched"] = "".join(x[0] for x in (dut.block_order or ()))
    return t


def _traces(res, cat, eff, caps, big_caps, per, lmin, lmax):
    R = rng("c17-lengths")
    jobs = []
    for e in cat:
        cs = [c for c in e.caps if c in caps]
        if e.parametric:                                 # classes parameterised by num_entries
            cs += list(big_caps)
        for c in cs:
            for i in range(per):
                jobs.append((e.name, c, i, R.randint(lmin, lmax), eff[e.name]))
    with _pool() as ex:
        traces = list(ex.map(_trace_job, jobs, chunksize=2))
    nev = sum(len(t["ev"]) for t in traces)
    res.add_evals(nev)
    payload = [{"kind": t["kind"], "cap": t["cap"], "ev": t["ev"]} for t in traces]
    runs, verdicts = tlc.validate_traces("FifoTrace", {"traces": payload}, chunk=max(1, min(40, len(payload) // 16 + 1)))
    for r in runs:
        res.add_tlc(r)
        for p in r.prints:
            if p and p[0] == "T":
                res.count("transfers_accepted_in_traces", p[2])
                res.count("transfers_delivered_in_traces", p[3])
    res.add_traces(len(traces))
    scheds = set()
    for t, (err, pos) in zip(traces, verdicts):
        res.distinct(("trace", t["dut"], t["cap"], t["idx"]))
        if t.get("sched"):
            scheds.add((t["dut"], t["sched"]))
        # non-vacuity per trace: something was accepted and delivered, boundaries were touched
        cyc = [e for e in t["ev"] if e["k"] == "cycle"]
        if err == "ok" and not (any(e["ex"] for e in cyc) and any(e["dx"] for e in cyc)):
            raise MachineryError("vacuous trace for %s cap=%d" % (t["dut"], t["cap"]))
        if err != "ok":
            e = t["ev"][pos - 1]
            key = "trace:%s:cap=%d:%s" % (t["dut"], t["cap"], err)
            res.violation(key, "%s (kind %s, capacity %d): %s at cycle %d of a random offer history: %s"
                          % (t["dut"], t["kind"], t["cap"], err, pos, e),
                          {"dut": t["dut"], "cap": t["cap"], "idx": t["idx"], "clause": err, "event": pos,
                           "prefix": t["ev"][max(0, pos - 12):pos]})
    res.note("cl_block_orders_seen", sorted("%s:%s" % s for s in scheds))
    res.note("trace_events", nev)
    res.note("trace_capacities", sorted({t["cap"] for t in traces}))
    full_hits = sum(1 for t in traces for e in t["ev"] if e["k"] == "cycle" and e["c2"] == t["cap"])
    pipe_hits = sum(1 for t in traces if t["kind"] == "pipe" for e in t["ev"]
                    if e["k"] == "cycle" and e["ex"] and e["dx"] and e["c"] == t["cap"])
    byp_hits = sum(1 for t in traces if t["kind"] == "bypass" for e in t["ev"]
                   if e["k"] == "cycle" and e["ex"] and e["dx"] and e["c"] == 0)
    res.note("trace_boundary_hits", {"full": full_hits, "enq_into_full_pipe": pipe_hits, "bypass_through_empty": byp_hits})
    if not (full_hits and pipe_hits and byp_hits):
        raise MachineryError("random histories never reached a boundary case: %s" % res.notes["trace_boundary_hits"])
    ok = [t for t, v in zip(traces, verdicts) if v[0] == "ok"]
    if ok:
        t = ok[len(ok) // 2]
        res.sample({"kind": "impl trace", "dut": t["dut"], "cap": t["cap"], "events": len(t["ev"]), "first": t["ev"][:3]})
    return ok


def _trace_canaries(res, ok):
    """Corrupted copies of accepted real traces, and traces of faulty software queues, must be rejected."""
    can, what = [], []
    R = rng("c17-canary")
    pool = [t for t in ok if sum(1 for e in t["ev"] if e["k"] == "cycle" and e["dx"]) >= 4]
    R.shuffle(pool)
    for t in pool[:45]:
        c = {"kind": t["kind"], "cap": t["cap"], "ev": copy.deepcopy(t["ev"])}
        dl = [i for i, e in enumerate(c["ev"]) if e["k"] == "cycle" and e["dx"] and e["dm"] != -1]
        kind = len(can) % 5
        if kind == 0:        # a delivered message dropped: the next one shows up in its place
            i = dl[len(dl) // 2]
            c["ev"][i]["dm"] = c["ev"][i]["dm"] + 1
        elif kind == 1:      # two delivered messages swapped
            i, j = dl[len(dl) // 2 - 1], dl[len(dl) // 2]
            c["ev"][i]["dm"], c["ev"][j]["dm"] = c["ev"][j]["dm"], c["ev"][i]["dm"]
        elif kind == 2:      # wrong enq rdy
            i = next(k for k, e in enumerate(c["ev"]) if e["k"] == "cycle" and e["er"] != 2)
            c["ev"][i]["er"] = 1 - c["ev"][i]["er"]
        elif kind == 3:      # a delivery erased from the history (message lost)
            i = dl[len(dl) // 2]
            c["ev"][i]["dx"] = 0
        else:                # count off by one / a message delivered twice
            idx = [k for k, e in enumerate(c["ev"]) if e["k"] == "cycle" and e["c2"] > 0]
            if idx:
                c["ev"][idx[len(idx) // 2]]["c2"] -= 1
            else:
                i, j = dl[0], dl[1]
                c["ev"][j]["dm"] = c["ev"][i]["dm"]
        can.append(c)
        what.append(("corrupt", kind))
    for kind, cap, fault in (("normal", 3, "drop"), ("pipe", 4, "swap"), ("pipe", 2, "rdy"), ("normal", 4, "rdy"),
                             ("bypass", 2, "drop"), ("bypass", 3, "swap")):
        t = record(FaultyDut(kind, cap, fault), rng("c17-faulty-%s-%s" % (kind, fault)), 300, True, kind, cap)
        can.append(t)
        what.append(("faulty", fault))
    if len(can) < 10:
        raise MachineryError("too few canary traces (%d)" % len(can))
    _, cv = tlc.validate_traces("FifoTrace", {"traces": can})
    acc = [what[i] for i, v in enumerate(cv) if v[0] == "ok"]
    if acc:
        raise MachineryError("canary traces accepted by FifoTrace: %s" % acc[:5])
    res.note("trace_canaries_rejected", len(can))
    res.note("trace_canary_clauses", sorted({v[0] for v in cv}))


# ============================================================================================
# findings made by reading the code, probed so that the evidence records them
# ============================================================================================

def _probe_reset(res, cat):
    """Which classes keep their contents over a reset pulse (no reset term on the full bit / no reset
    behaviour at all).  The statement says nothing about reset, so for the classes the catalogue lists
    as reset-less this is recorded, not judged, and they are driven without resets (if one of them
    does clear, resets are injected after all).  Classes listed as resettable are always walked with
    Reset edges; a failure to clear is reported there."""
    keep, eff = [], {}
    for e in cat:
        eff[e.name] = e.has_reset
        if e.iface == "cl" or e.has_reset:
            if not e.has_reset:
                keep.append(e.name)
            continue
        dut = _seeded_make(e, e.caps[0], "probe")
        dut.cycle(True, 5, False)
        if dut.count() != 1:
            raise MachineryError("reset probe: %s did not accept a message into an empty queue" % e.name)
        dut.reset()
        if dut.count() == 0:
            eff[e.name] = True
        else:
            keep.append(e.name)
    res.note("classes_whose_state_ignores_reset", keep)
    res.assume("reset is injected only on classes whose state has a reset term; these keep their contents over a "
               "reset pulse and are driven without resets: %s" % ", ".join(keep))
    return eff


# ============================================================================================

def _clean_replay_dir():
    from common import VERIF
    d = os.path.join(VERIF, "replay", "C17")
    if os.path.isdir(d):
        for f in os.listdir(d):
            if f.startswith("violation_") and f.endswith(".json"):
                os.remove(os.path.join(d, f))


def run(res, tier):
    quick = tier == "quick"
    _clean_replay_dir()
    caps = (1, 2, 3, 4) if quick else (1, 2, 3, 4, 5)
    import time
    import c17_duts
    ph, t0 = {}, time.time()

    def lap(name):
        nonlocal t0
        ph[name] = round(time.time() - t0, 1)
        t0 = time.time()

    _model_check(res, (1, 2, 3) if quick else (1, 2, 3, 4, 5), (1, 2) if quick else (1, 2, 3, 4), 5 if quick else 7)
    lap("model_check")
    _load_graphs(res, caps)
    lap("dump_graphs")
    cat = c17_duts.catalogue()
    eff = _probe_reset(res, cat)
    _graph_walks(res, cat, caps, eff)
    _walk_canaries(res)
    lap("walks")
    ok = _traces(res, cat, eff, (1, 2, 3, 4, 5), (7,) if quick else (6, 7, 8, 13, 16), 2 if quick else 24,
                 200, 500 if quick else 2000)
    lap("traces")
    _trace_canaries(res, ok)
    lap("trace_canaries")
    res.note("phase_seconds", ph)
    res.cov["exhaustive"] = True
    res.note("rule", "spec->code: for every queue class x capacity <= %d, every transition (enq?, msg in 1..3, deq?, and "
             "reset where implemented) of Fifo.tla from every reachable pair (queue contents, implementation control "
             "state); code->spec: %d random bursty histories per class x capacity (capacities 1..5 and %s), "
             "200..%d cycles, serial-number payloads; a case is one (class, capacity) walk or one history"
             % (caps[-1], 2 if quick else 24, "7" if quick else "6,7,8,13,16", 500 if quick else 2000))
    res.assume("only protocol-legal offers: en is raised only while rdy is high; val and the consumer's rdy are "
               "independent of the queue's outputs")
    res.assume("occupancy of classes without a count port is read from their full bits / deque; "
               "valrdy NormalQueueRTL: count = num_entries - num_free_entries")
    res.assume("the valid bit of an en/rdy send port (enrdy_queues deq) is observable only in cycles where the "
               "consumer is ready")


def replay(obj):
    """Re-drive the recorded action path of a spec->code violation and print what happens."""
    import c17_duts
    d = obj.get("detail") or {}
    print("property C17  key=%s\n  %s" % (obj.get("key"), obj.get("what")))
    if "path" not in d:
        for e in d.get("prefix", []):
            print("  ", e)
        return 0
    entry = next(e for e in c17_duts.catalogue() if e.name == d["dut"])
    dut = _seeded_make(entry, d["cap"], "walk1")
    for a in list(d["path"]) + [d["act"]]:
        if a == "Reset":
            dut.reset()
            print("  Reset -> count", dut.count())
        else:
            print("  cycle enq=%s m=%s deq=%s ->" % tuple(a), _short(dut.cycle(bool(a[0]), a[1], bool(a[2]))))
    print("  expected at the last step:", d["expected"])
    return 1
