"""C09  Structurally illegal designs are always rejected at elaboration.

spec/Elab.tla: Analysis(D).defects -- the set of defect classes of a design computed at bit level
(two different drivers of a bit, net without a candidate writer, connection loop, the port-direction
table [Type 1..9] for update blocks and for net edges oriented away from the writer, assignment
operators) and Images(defects), the exception classes that report them; spec/ElabTrace.tla
validates what elaborate() did.
  1. TLC classifies every descriptor of the grid (exploring every order of its statements and of
     the writer worklist, invariant OpAgrees) and prints defects / nets.
  2. code -> spec: driver kind x second driver kind x overlap shape x hierarchical position, the
     assignment-operator, port-rule, loop, self/duplicate connect, type-mismatch, loop-back and
     no-writer families, plus mutated random statement sets, plus the @s.func helper families (the
     footprint of a block includes that of every helper in its transitive call closure: two
     blocks reaching one writing helper, a helper-driver against every other driver kind and
     overlap shape, port rules through helpers, diamonds / shared read-only helpers / dead
     helpers as legal controls, twins of other designs with writes moved into helpers), are
     printed as real construct()s (helpers as `@s.func def fnN()` in any position) for
     every statement permutation x side flip and elaborated; ElabTrace requires: defects = {} =>
     elaborate() returns (which nets and writers it builds is C08's subject: C08 runs the legal
     designs of this grid too); otherwise an exception of the image of SOME defect present
     (which of several coexisting defects is reported is not specified).
  3. spec -> code: the same verdicts are recomputed from the result TLC printed and must agree.
  4. canaries: accepted-illegal, rejected-legal, wrong class.

NOTE: two overlapping members of one signal driven by one net are two drivers of the shared bits
(MultiWriter).  Shapes the statement is silent about (the same pair connected twice; a net with a
member that overlaps the net's own writer) are only recorded.  `//=` cannot syntactically target a struct field
(AttributeError inside pymtl3's setattr hook), so lambda drivers are only generated for signals and
slices.
"""
import copy
import json

import elabgen as g
import tlc
from common import MachineryError, rng, scratch

READY = True


def replay(obj):
    return g.replay("C09", obj)


def grid(tier):
    quick = tier == "quick"
    R = rng("c09-grid")
    cells = g.c09_grid()
    extras = g.c09_extras()
    if quick:
        # the core grid: every (position, A, B, shape) once (first view triple), a sample of the rest
        seen, core, rest = set(), [], []
        for d in cells:
            (core if d.tag not in seen else rest).append(d)
            seen.add(d.tag)
        core = [core[i] for i in sorted(R.sample(range(len(core)), 420))]
        cells = core + [rest[i] for i in sorted(R.sample(range(len(rest)), 60))]
    rnd = g.random_designs(60 if quick else 1500, R, mut_rate=0.85)
    # @s.func helpers: the call-graph shapes (all of them in both tiers), the grid cells with a
    # driver that writes through helpers, port rules / operators / recursion through helpers, and
    # metamorphic twins (writes of a block moved into helpers) of the other designs
    fcells = g.func_grid()
    nfgrid = len(fcells)
    if quick:
        RF = rng("c09-func-grid")
        fcells = [fcells[i] for i in sorted(RF.sample(range(len(fcells)), 130))]
    fextras = g.func_extras()
    twins = g.helperized(cells + extras, 0.08 if quick else 0.15) + g.helperized(rnd, 0.5)
    ds = g.fixed_shapes() + g.overlap_net_shapes() + g.func_shapes(core=quick) + cells + fcells + extras + fextras + rnd + twins
    seen, out = set(), []
    for d in ds:
        k = d.key()
        if k not in seen:
            seen.add(k)
            out.append(d)
    return out, len(g.c09_grid()), len(extras), {"func_grid_cells_total": nfgrid, "func_grid_cells_run": len(fcells),
                                                 "func_call_shape_designs": len(g.func_shapes(core=quick)),
                                                 "func_extra_designs": len(fextras), "helperized_twins": len(twins)}


def _canaries(res, info):
    D, exp, traces, verdicts = (info[k] for k in ("designs", "exp", "traces", "verdicts"))
    can, kinds = [], []
    legal = [i for i in range(len(D)) if verdicts[i][0] == "ok" and not exp[i]["defects"] and not exp[i]["unspec"]
             and traces[i]["ev"][0]["out"] == "ok"]
    bad = [i for i in range(len(D)) if verdicts[i][0] == "ok" and exp[i]["defects"] and not exp[i]["unspec"]
           and traces[i]["ev"][0]["out"] != "ok"]
    if (len(legal) < 5 or len(bad) < 10) and res.violations:
        res.note("canaries_rejected", "skipped: %d / %d conforming legal / illegal designs" % (len(legal), len(bad)))
        return
    if len(legal) < 5 or len(bad) < 10:
        raise MachineryError("too few conforming legal (%d) / illegal (%d) designs for canaries" % (len(legal), len(bad)))
    for i in legal[:12]:
        t = copy.deepcopy(traces[i])
        t["ev"][0]["out"], t["ev"][0]["nets"] = "MultiWriterError", []
        can.append((t, i, "rejected-legal"))
    for n, i in enumerate(bad[:30]):
        t = copy.deepcopy(traces[i])
        if n % 2 == 0:
            t["ev"][0]["out"], t["ev"][0]["nets"] = "ok", []
            can.append((t, i, "accepted-illegal"))
        else:
            wrong = next(c for c in ("NoWriterError", "MultiWriterError", "UpdateBlockWriteError")
                         if c not in g.images(exp[i]["defects"]))
            t["ev"][0]["out"] = wrong
            can.append((t, i, "wrong-class"))
    for (t, i, kind) in can:
        if g.judge(D[i], exp[i], t["ev"][0]["out"], t["ev"][0]["nets"], "C09") is None:
            raise MachineryError("canary %s not flagged by the comparison with Elab's result" % kind)
    _, cv = tlc.validate_traces("ElabTrace", {"traces": [c[0] for c in can]})
    acc = [(can[i][2], D[can[i][1]].key()) for i, v in enumerate(cv) if v[0] == "ok"]
    if acc:
        raise MachineryError("canary traces accepted by ElabTrace: %s" % acc[:5])
    res.note("canaries_rejected", len(can))


def run(res, tier):
    quick = tier == "quick"
    designs, ngrid, nextra, fnotes = grid(tier)
    cap = 48 if quick else 240
    with scratch():
        info = g.check_designs(res, designs, prop="C09", cap=cap, nsim=0, ncyc=0,
                               hashseeds=[0, 1, 2, 3] if quick else list(range(16)), tag="c09",
                               cross_seed=10 if quick else 150)
    for a in g.ELAB_ACTIONS:
        if info["elab_cov"].get(a, 0) == 0:
            raise MachineryError("action %s of Elab.tla never taken (vacuous)" % a)
    if info["trace_runs"][0].coverage:
        for a in ("ElabEv", "Finish"):
            if sum(r.coverage.get(a, (0, 0))[1] for r in info["trace_runs"]) == 0:
                raise MachineryError("action %s of ElabTrace.tla never taken (vacuous)" % a)
    exp = info["exp"]
    classes = {}
    for e in exp:
        for d in e["defects"]:
            classes[d] = classes.get(d, 0) + 1
    res.note("designs_per_defect_class", dict(sorted(classes.items())))
    need = {"MW", "NW", "Loop", "Self", "TM", "T1", "T2", "T3", "T4", "T5", "T5L", "T6", "T7", "T8", "T9",
            "OpU", "OpF", "OpFNT", "LamClash"}
    if need - set(classes):
        raise MachineryError("defect classes never produced by the grid: %s" % sorted(need - set(classes)))
    # the call-graph shapes have their class by construction: Elab.tla must agree (guards the spec's
    # treatment of helpers independently of pymtl3), and every one of them must have been run
    byshape = {}
    for D, e in zip(designs, exp):
        if D.tag.startswith("func/") and D.tag.split("/")[1] in g.FUNC_CALL_SHAPES:
            want = g.FUNC_CALL_SHAPES[D.tag.split("/")[1]]
            if e["defects"] != (set() if want == "ok" else {want}) or e["unspec"]:
                raise MachineryError("Elab.tla classifies the %s design %s as %s / %s" %
                                     (want, D.key(), sorted(e["defects"]), sorted(e["unspec"])))
            byshape[D.tag.split("/")[1]] = byshape.get(D.tag.split("/")[1], 0) + 1
    if set(byshape) != set(g.FUNC_CALL_SHAPES):
        raise MachineryError("helper call-graph shapes never run: %s" % sorted(set(g.FUNC_CALL_SHAPES) - set(byshape)))
    res.note("helper_call_shapes", dict(sorted(byshape.items())))
    for k, v in fnotes.items():
        res.note(k, v)
    nhelper = sum(1 for D in designs if D.has_helpers())
    res.note("designs_with_helper_functions", nhelper)
    nlegal = res.notes.get("legal_designs", 0)
    if nlegal < 40:
        raise MachineryError("only %d legal designs in the grid" % nlegal)
    _canaries(res, info)
    for i in (0, len(designs) // 3, 2 * len(designs) // 3, len(designs) - 1):
        res.sample({"design": designs[i].key(), "spec_defects": sorted(exp[i]["defects"]),
                    "observed": {json.loads(k)[0]: v["n"] for k, v in info["results"][i]["outs"].items()}})
    res.note("grid_cells_total", ngrid)
    res.note("extra_family_designs", nextra)
    res.note("variant_cap", cap)
    res.note("rule", "a case is one design: a cell (position in %s) x (driver A) x (driver B in none/%s) x overlap "
             "shape (%s, 2-6 view pairs each) of the %d-cell grid (quick: 480 of them), the %d operator / port-rule / "
             "loop / self- and duplicate-connect / type-mismatch / loop-back / no-writer designs, mutated random "
             "statement sets, and the @s.func helper families: call-graph shapes over one writing helper (two blocks "
             "reaching it directly / through wrappers / through a shared wrapper, one block through a diamond / twice "
             "/ a chain, shared read-only helpers, dead helpers) x 3 positions x 4 views, grid cells with a driver "
             "that writes through helpers, port rules / operators / call cycles through helpers, and twins of the "
             "other designs with some writes of a block moved into helpers; each is elaborated for every statement permutation x side flip up to the cap"
             % ("/".join(g.C09_POS), "/".join(g.C09_DRIVERS), "/".join(g.C09_SHAPES), ngrid, nextra))
    res.assume("which of several coexisting defects is reported is not specified: any exception class in the image "
               "of a defect present is accepted")
    res.assume("a signal that is read but never driven outside any net is not a defect of the statement")
    res.assume("two overlapping members of one signal driven by one net: two drivers of the shared bits (MultiWriter)")
    res.assume("connecting the same pair twice / a net with a member overlapping the net's own writer: outcome only "
               "recorded")
    res.assume("the writes / reads of an @s.func helper belong to every update block whose transitive call closure "
               "contains it (one driver per block, however many call paths); a helper no block reaches drives nothing")
    res.assume("an assignment operator inside a helper that is wrong for the block kind that reaches it, and helpers "
               "calling each other in a cycle: the statement is silent, outcome only recorded")
    res.assume("designs whose permutations x flips exceed the cap (%d) are sampled" % cap)
