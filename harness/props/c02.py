"""C02  Within a cycle every reader runs after its writer, in every scheduler.

The enabling condition Ready(b) of spec/SimKernel.tla IS the property: every step whose syntactic
write footprint overlaps b's read footprint (bit level: whole signals, struct fields, nested fields,
overlapping slices, variable indices), unless explicitly inverted, and every explicit predecessor,
has run before b; each step runs exactly once per pass when the graph is acyclic.  Every block call
the real schedulers make (five pass groups, tie-break seeds, all forced linear extensions of pymtl3's
own constraint set) is recorded and TLC evaluates Ready(b) on each call -- independent of whether
the values happen to come out right for the sampled inputs.  Explicit U<U constraints (extra,
inverting) are part of the corpus; constraint cycles that carry no signal must make every scheduler
raise UpblkCyclicError.  CL designs: spec/MethodOrder.tla gives the method-level constraints
M(x) < M(y), M(x) == M(y), U(b) < M(x), M(x) < U(b) an event-level meaning (block starts / ends, method
invocations by a caller), derives the block-level order from it and TLC shows over all interleavings
that the two coincide; every block call AND method invocation of generated CL components (update_once
blocks calling method ports / non-blocking / blocking interfaces of children and grandchildren through
method nets, pass-through methods, == classes on one and on both ends, chains, mixed with signals and net
steps; blocks that call blocking methods run behind the greenlet tickers of WrapGreenletPass: a grid of
U<U, WR<RD, WR<net<RD, inverted, M<M, U<M, M<U between greenlet-wrapped, update_once and plain blocks in
both definition orders, chains of wrapped blocks) is recorded under the five pass
groups, tie-break seeds, forced linear extensions of pymtl3's own constraint set and the open-loop
scheduler (top-level methods called by the test bench) and validated by spec/MethodOrderTrace.tla;
TLC's linear extensions of the specification's order are forced on the real simulator and must give
the same observable state wherever the constraints order every block touching it; signal-free
constraint cycles and cycles through update_once blocks must be refused by every scheduler.

NOTE: footprints, the methods a block invokes and the resolution of method nets come from the design
descriptor (never from pymtl3's upblk_reads / upblk_writes / upblk_calls).  CL part: a method that
calls a method declares M(outer) == M(inner) (pymtl3's convention); non-blocking methods are always
ready and blocking methods return immediately (a greenlet-wrapped block runs to completion once per
cycle: the wrapping is modelled as transparent, suspended bodies are not generated; the body is observed
inside its greenlet by the profile hook); two blocks related only through methods that
no block invokes are left unordered; OpenLoopCLPass is driven as GenDAGPass + WrapGreenletPass +
OpenLoopCLPass (AutoTickSimPass itself locks the simulation twice and fails on every design) and may
refuse a cyclic design with any exception; its schedule cannot be overwritten, so forced schedules
cover the closed-loop simulator only.  Spec modules: SimKernel, SimKernelTrace, DL (shared),
MethodOrder, MethodOrderTrace; helpers kernel.py, kernel_check.py, designgen.py (shared), c02_cl.py.
"""
import c02_cl
import kernel
import kernel_check as kc
from common import scratch

READY = True


def run(res, tier):
    quick = tier == "quick"
    kc.model_check(res, maxcyc=1)
    with scratch("c02_") as sdir:
        designs = kc.grid_designs() + kc.explicit_designs() + \
            kc.rand_designs("c02r", 15 if quick else 400, opts={"stmts_per_block": 3, "nets": 0.6})

        def drive(c):
            c.run_modes(kernel.MODES, cycles=1 if quick else 3, seeds=(0,) if quick else (0, 1, 2, 3), recheck=False,
                        sched_only=lambda d: d.family == "novarcycle")
            c.run_forced(limit=4 if quick else 200, cycles=1,
                         only=lambda d: d.family in ("grid", "explicit") or not quick)
        c, ndesigns = kc.run_chunked(res, "c02", "C02", sdir, designs, len(designs) if quick else 80, drive)
        res.sample({"design": c.djs[3]["name"], "source": c.designs[3].py_source(),
                    "steps": [s["name"] for s in c.djs[3]["steps"]],
                    "order_seen": [e["b"] for e in c.traces[7]["ev"] if e["k"] == "step"]})
    res.note("designs", ndesigns)
    res.note("rule", "a case = (design, scheduler | forced linear extension); the grid enumerates writer shape x "
             "reader shape x {block, net} x {same component, child}; explicit family = inverted / extra / cyclic U<U")
    res.assume("generated designs")
    # ---- CL designs: method-level constraints, update_once, method nets, open loop
    c02_cl.run_phase(res, tier)
    res.assume("CL: a method that calls a method declares M(outer) == M(inner); non-blocking methods always ready; "
               "blocking methods return immediately (greenlet-wrapped blocks complete once per cycle)")
