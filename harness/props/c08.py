"""C08  Connected signals form single-writer nets independent of connect order.

spec/Elab.tla (construct-time statements -> nets, writers, defect classes; statement permutations
and the writer worklist explored by TLC, invariant OpAgrees), spec/ElabTrace.tla (validation of
what pymtl3 did).
  1. TLC explores, for every design of the grid, all orders of its construct-time statements and
     all orders in which headless nets can be examined, checks that each ends in the declarative
     bit-level result (connected components, unique candidate writer) and prints that result.
  2. spec -> code: every statement permutation x every side flip of every design (or a seeded
     sample above the cap) is printed as a real construct() with dummy allocations between the
     statements, elaborated in sub-processes under different PYTHONHASHSEEDs;
     get_all_value_nets() projected to {(writer, members)} must equal the printed result for
     every variant (hence be identical across variants).
  3. code -> spec: the observed outcomes and, for the simulated variants, the value of every net
     member after sim_eval_combinational() and sim_tick() under DefaultPassGroup with random
     inputs, are validated by ElabTrace (NetCoherent: member value = writer value).
  Designs with @s.func helper functions are part of the grid: a net member written only through a
  helper (directly, through a wrapper, through a diamond) is the net's writer, and every design
  has a seeded chance of a twin in which writes of a block move into helpers (same result).
  4. canaries: swapped writer, dropped member, flipped member value, rejected-legal.
C08's premise is a design without defects: designs Elab.tla classifies as defective (two drivers of
a bit, no driver, loop, port rule, ...) are classified (they exercise the Conflict / Stuck actions)
but not elaborated here -- whether pymtl3 rejects them is C09's subject.  A legal design that
elaborate() rejects (in some or all statement orders) has no nets, so it is reported here too,
under the same key as in C09.

NOTE: value views are read back through pymtl3's own Bits slicing / struct field access (C05/C06
are the properties that bind those); designs above the variant cap are sampled, not exhausted;
update blocks of generated designs assign values taken from a Python list the harness mutates
between cycles (read outside pymtl3's AST analysis, so they add no nets or constraints).
"""
import copy
import json

import elabgen as g
import tlc
from common import MachineryError, rng, scratch

READY = True


def replay(obj):
    return g.replay("C08", obj)


def grid(tier):
    quick = tier == "quick"
    R = rng("c08-grid")
    # C08 is about designs with connections: the connection-free fixed shapes belong to C09
    ds = [d for d in g.fixed_shapes() if any(st["k"] == "c" for st in d.stmts)] + g.overlap_net_shapes() + g.ifc_shapes()
    cells = g.chain_cells()
    pick = cells if not quick else [cells[i] for i in sorted(R.sample(range(len(cells)), 70))]
    for i, c in enumerate(pick):
        ds.append(g.chain_design(c, R.choice(["flat", "down", "up"]),
                                 R.choice(["in", "in", "const", "blk", "lam", "ff", "direct"])))
    ds += g.random_designs(130 if quick else 2200, R, mut_rate=0.4)
    # the designs with connections of C09's grid: its legal cells get their nets, writers and
    # simulated values checked here (C09 itself only looks at accept / reject / error class)
    c09 = [d for d in g.c09_grid() + g.c09_extras() if any(st["k"] == "c" for st in d.stmts)]
    ds += c09 if not quick else [c09[i] for i in sorted(R.sample(range(len(c09)), 90))]
    # @s.func helpers (the writes of a helper belong to every block that reaches it): the writer of
    # a net may be known only through a helper.  The call-graph shapes, the helper cells of C09's
    # grid that have connections, and twins of the designs above with some writes of a block moved
    # into helpers (same nets, same writers, same values expected)
    RF = rng("c08-func")
    fg = [d for d in g.func_grid() if any(st["k"] == "c" for st in d.stmts)]
    twins = g.helperized(ds, 0.25)
    ds += g.func_shapes(core=quick) + (fg if not quick else [fg[i] for i in sorted(RF.sample(range(len(fg)), 60))]) + twins
    # drop duplicates (same canonical text)
    seen, out = set(), []
    for d in ds:
        k = d.key()
        if k not in seen:
            seen.add(k)
            out.append(d)
    return out, len(cells), len(twins)


def _canaries(res, info):
    D, exp, results, traces, verdicts = (info[k] for k in ("designs", "exp", "results", "traces", "verdicts"))
    good = [i for i in range(len(D)) if verdicts[i][0] == "ok" and not exp[i]["defects"] and not exp[i]["unspec"]
            and exp[i]["nets"] and any(e["k"] == "sim" for e in traces[i]["ev"])]
    if len(good) < 6:
        if res.violations:          # the tree under test rejects nearly everything: report that instead
            res.note("canaries_rejected", "skipped: %d conforming designs" % len(good))
            return
        raise MachineryError("too few accepted legal simulated designs for canaries (%d)" % len(good))
    can, kinds = [], []
    for n, i in enumerate(good[:36]):
        t = copy.deepcopy(traces[i])
        ev = next(e for e in t["ev"] if e["k"] == "elab" and e["out"] == "ok")
        kind = n % 4
        if kind == 0:      # writer swapped with a reader
            net = ev["nets"][0]
            net[0] = next(m for m in net[1] if m != net[0])
        elif kind == 1:    # member dropped
            net = max(ev["nets"], key=lambda x: len(x[1]))
            net[1] = [m for m in net[1] if m != net[0]][:-1] + [net[0]]
            if len(net[1]) == 1:
                ev["nets"].remove(net)
        elif kind == 2:    # one reader carries another value in simulation
            sv = next(e for e in t["ev"] if e["k"] == "sim")
            net = ev["nets"][0]
            m = next(m for m in net[1] if m != net[0])
            for p in sv["vals"]:
                if p[0] == m:
                    p[1] ^= 1
        else:              # the design was rejected
            ev["out"], ev["nets"] = "MultiWriterError", []
        can.append(t)
        kinds.append(kind)
        # the Python-side comparison must flag the same corruptions
        if kind in (0, 1, 3) and g.judge(D[i], exp[i], ev["out"], ev["nets"], "C08") is None:
            raise MachineryError("replay canary (kind %d) not flagged by the comparison with Elab's result" % kind)
    _, cv = tlc.validate_traces("ElabTrace", {"traces": can})
    acc = [(i, kinds[i]) for i, v in enumerate(cv) if v[0] == "ok"]
    if acc:
        raise MachineryError("canary traces accepted by ElabTrace: %s" % acc[:5])
    res.note("canaries_rejected", len(can))


def run(res, tier):
    quick = tier == "quick"
    designs, ncells, ntwins = grid(tier)
    res.note("helperized_twins", ntwins)
    res.note("designs_with_helper_functions", sum(1 for D in designs if D.has_helpers()))
    cap = 48 if quick else 384
    with scratch():
        info = g.check_designs(res, designs, prop="C08", cap=cap, nsim=2 if quick else 4, ncyc=3 if quick else 5,
                               hashseeds=[0, 1, 2, 3] if quick else list(range(16)), tag="c08",
                               cross_seed=12 if quick else 120)
    for a in g.ELAB_ACTIONS:
        if info["elab_cov"].get(a, 0) == 0:
            raise MachineryError("action %s of Elab.tla never taken (vacuous)" % a)
    for a in ("ElabEv", "SimEv", "Finish"):
        if sum(r.coverage.get(a, (0, 0))[1] for r in info["trace_runs"]) == 0 and info["trace_runs"][0].coverage:
            raise MachineryError("action %s of ElabTrace.tla never taken (vacuous)" % a)
    classes = {}
    for e in info["exp_all"]:
        for d in e["defects"]:
            classes[d] = classes.get(d, 0) + 1
    res.note("designs_per_defect_class", dict(sorted(classes.items())))
    nlegal = len(info["designs"])
    if nlegal * 4 < len(designs):
        raise MachineryError("only %d of %d generated designs are legal: the nets/writers comparison would be "
                             "nearly vacuous" % (nlegal, len(designs)))
    designs = info["designs"]
    nsim = sum(1 for t in info["traces"] for e in t["ev"] if e["k"] == "sim")
    res.note("simulation_observations", nsim)
    if nsim == 0 and not res.violations:
        raise MachineryError("no simulation observation recorded")
    _canaries(res, info)
    for i in (0, len(designs) // 2, len(designs) - 1):
        res.sample({"design": designs[i].key(), "spec_defects": sorted(info["exp"][i]["defects"]),
                    "spec_nets": sorted((w, sorted(N)) for N, w in info["exp"][i]["nets"].items()),
                    "observed": {json.loads(k)[0]: v["n"] for k, v in info["results"][i]["outs"].items()}})
    res.note("variant_cap", cap)
    res.note("chain_cells_total", ncells)
    res.note("rule", "a case is one design (canonical text of its used signals and statements): the fixed shapes, "
             "a sample (quick) or all (thorough) of the %d chain cells src->X.v1; X.v2->Y.w1; Y.w2->sink over "
             "overlapping view pairs of 4/8-bit and struct signals at three hierarchy placements, and seeded "
             "legal-biased random statement sets (<=4 connects, <=2 writing blocks, 2-3 hierarchy levels, 40%% "
             "mutated) and the designs with connections of C09's defect grid (quick: 90 of them), the @s.func helper call-graph "
             "shapes and helper cells of that grid, and twins of a quarter of all these with some writes of a block "
             "moved into helper functions; all are classified "
             "by Elab.tla, those without defects are elaborated for every statement permutation x side flip up to "
             "the cap and simulated" % ncells)
    res.assume("designs whose permutations x flips exceed the cap (%d) are sampled (identity and reversal always "
               "included)" % cap)
    res.assume("two overlapping members of one signal that are both driven by one net are two drivers of the shared "
               "bits (a MultiWriter defect, C09); connecting the same pair twice, and a net one of whose members "
               "overlaps the net's own writer, are shapes the statement is silent about: if they elaborate, nets and "
               "writers are compared but NetCoherent is not required of the self-overlapping net")
    res.assume("member values are read through pymtl3's Bits slicing / struct field access")
