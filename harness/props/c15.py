"""C15  Replacing a component yields the same design as building it directly.

spec/Replace.tla (configuration cfg : Position -> Class over a harness hierarchy with nested positions
and a palette per position, constructor arguments arg of the hosting positions, whole-design metadata
`meta` as sets of tagged entries, actions Replace / ReplaceWithObj, invariants HistoryIndependent
(meta = Meta(cfg)), NoLeftover, SameInterface, NetsWellFormed) and spec/ReplaceTrace.tla (trace
validation).  Three families (harness/c15_designs.py), every position with interface-compatible
classes of different KINDS:
  RTL  plain child, list elements, 2-D list elements, hosting child m (two wrapper classes) and
       grand-child m.g; palette: update / update_ff (a wire, or the out-port itself) / lambda blocks,
       @s.func functions, U/RD/WR constraints, slices, nested children with constants, a class with
       CL inside (CallerPort connected to a sub-component's CalleePort, update_once, no external
       method port), a placeholder;
  PB   parent blocks of every kind (@update, @update_ff, @update_once, lambda, @s.func helper) that
       write the child's in-ports (whole, slice, struct field) and read its out-ports (whole, slice,
       field), its in-ports and a grand-child's port through the child; blocks over all list elements;
       a block of the top reading a port two levels down; palette: comb / registers driving the ports
       / internal method nets / more nested children with value nets between grand-children,
       constants, slice and field connections; hosting position with two wrapper classes;
  CL   method ports, a non-blocking interface, update_once blocks, M constraints (also declared by the
       parent), @s.func helper and top-level block calling a (grand-)child's method port / interface,
       nested child, a class with RTL inside (register sub-component, value nets, constant),
       placeholder, hosting position with two wrapper classes.
  1. TLC checks the invariants of Replace.tla over every scenario (bounded histories; one run per
     family) and, as a canary inside the same run (MutantReport), every model-level mutant of the
     replacement must break an invariant within two steps; in the thorough tier every mutant is also
     run as a model of its own (constant Bug) and TLC must report a violated invariant.
  2. spec -> code: TLC dumps the history graph of the scenarios; EVERY path (history) is replayed
     with the real replace_component / replace_component_with_obj (every other history with the new
     objects built before the design itself); after the last step (every prefix is a history of its
     own) the metadata projected through the public getters is compared (i) with the specification's
     `meta` - inside TLC, ReplaceTrace.tla - and (ii) with a design built from scratch for cfg; both
     designs are simulated on the same inputs under DefaultPassGroup, Mamba2020 and SimpleSimPass
     (quick tier: DefaultPassGroup and, for every other history, in turn one of the others) and compared on the top-level
     outputs AND on the value of every signal of the design in every cycle (a register that does not
     commit is seen there); a reachability sweep from the top must not reach any object of a removed
     component.  Histories replace a position twice (A -> B -> A), a list element then its sibling,
     a grand-child then its host and the host then the grand-child (replace_component on the host
     re-uses the constructor arguments of the removed host: the nested position falls back).
  3. code -> spec: longer random histories are executed, an observation is recorded after every
     step and the whole history is validated by ReplaceTrace.tla; freshly elaborated designs are
     validated against the derived views (nets, writers, adjacency) of the specification.
  4. canaries: corrupted copies of accepted observations, a history recorded with the wrong class and
     a host replacement that ignores the constructor arguments must be rejected by TLC; corrupted
     copies of real projections by the fresh-build comparison; a planted reference by the sweep; the
     design of another class must simulate differently under every pass group; every register that a
     parent's update_ff block writes into a replaceable component must change in the per-signal
     trace of the design built from scratch, and a stuck copy of its column must be told apart.

Violation keys: <category>-<container word>[:<kind>] for a metadata difference (category stale /
missing / old-object-kept / dup; kind = class of the object, `slice` for a slice signal,
`ancestor-block` for a constraint declared by a component above the signal's / method's own,
`grandparent-block` for a read / write / call of a block two or more levels above the object's
component), reachable:<container>{key|value} for a removed object the sweep still reaches,
replace-raises:<exception>@<caller>><pymtl3 call site>[|stale-in:<who still holds a removed object>],
and sim-differs[<pass group>]|<m> / sim-raises[<pass group>]:<exception>@<pass function>><innermost
pymtl3 function>|<m> where <m> lists the metadata keys of the same design (`metadata-equal` when
there are none; the pass group is omitted for DefaultPassGroup).  The families run side by side
(threads; one shared pool of replay processes); designs are built in the main process by one thread
at a time.

NOTE: the per-class local metadata and the harness metadata given to TLC are extracted from designs
built from scratch (trusted base: plain elaboration; the extraction is checked on every run: every
design built must equal Harness + UNION Local[class] renamed to its position).  Names are compared,
not objects, except that a name only counts when walking it from the top reaches that very object.
connect order is compared as a set.  Only what the public getters return is compared (signal /
method-port sets = get_all_object_filter); @s.func read/write sets have no getter and are not
compared.  Method calls made inside @s.func helpers do not take part in pymtl3's method constraints,
so the helpers of the harness only call what commutes (a stateless method, rdy()); SimpleSimPass
breaks schedule ties with the global random generator and is only used for the families whose
behaviour does not depend on the order of method calls (RTL, PB).  Configurations holding a
placeholder are not simulated.
"""
import collections
import copy
import json
import multiprocessing
import os
import random
import threading
from concurrent.futures import ThreadPoolExecutor

import c15_proj as J
import tlc
from common import MachineryError, rng

READY = True

import contextlib
import time

_PHASES = collections.OrderedDict()


@contextlib.contextmanager
def phase(name):
    t = time.time()
    try:
        yield
    finally:
        _PHASES[name] = round(_PHASES.get(name, 0) + time.time() - t, 1)

INVARIANTS = ["TypeOK", "HistoryIndependent", "NoLeftover", "SameInterface", "NetsWellFormed"]
BUGS = {"RTL": ["wr_typo", "reads_kept", "signals_kept", "boundary_connection_lost",
                "same_child_connection_lost", "boundary_reads_lost", "spawned_slice_lost", "nested_kept"],
        "PB": ["reads_kept", "boundary_reads_lost", "spawned_slice_lost", "nested_kept", "ancestor_reads_lost",
               "ff_write_lost"],
        "CL": ["no_l4_uncollect", "ifc_kept", "boundary_connection_lost", "nested_kept"]}
FAMILIES = ("RTL", "PB", "CL")
NCYC = 12


def scenarios(tier, famname):
    """inits: initial configurations; positions / palette: where and by what a step replaces"""
    fam = J.family(famname)
    allp = list(fam.positions)
    allc = list(fam.classes)
    leafc = [c for c in fam.palof[fam.leaves[0]]]
    hostc = [c for p in fam.hosts for c in fam.palof[p]]
    uni = [fam.uniform(c) for c in leafc] + [fam.uniform(None, c) for c in hostc[1:]]
    base = [fam.uniform()]
    quick = tier == "quick"
    if famname == "RTL":
        sub_p = ["c[0]", "d[0][1]", "m.g", "m"]
        sub_c = ["Nest", "Mix", "Mid", "MidB"] if quick else ["Cons", "Nest", "Mix", "Mid", "MidB"]
        pair_p = ["a", "c[0]", "c[1]", "d[1][0]", "m", "m.g"]
        pair_c = ["Reg", "Nest", "Mix", "RegO", "Slc", "Hold", "Mid", "MidB"]
        pair3_c = ["Reg", "Nest", "Mix", "RegO", "Mid", "MidB"]
        nest_c = ["Reg", "Nest", "Mix", "Cons", "Hold", "Mid", "MidB"]
    elif famname == "PB":
        sub_p = ["c", "l[1]", "m", "m.g"]
        sub_c = ["PReg", "PMix", "PBMidB"] if quick else ["PReg", "PMix", "PNest", "PBMid", "PBMidB"]
        pair_p, pair_c, nest_c, pair3_c = allp, allc, allc, allc
    else:
        sub_p = ["q", "qs[1]", "w", "w.foo"]
        sub_c = ["QNest", "QReg", "CLMid", "CLMidB"] if quick else ["QCnt", "QNest", "QReg", "CLMid", "CLMidB"]
        pair_p, pair_c, nest_c, pair3_c = allp, allc, allc, allc
    nest_p = fam.hosts + fam.nested
    # replace_component on a hosting position after its nested position has changed (the API falls back
    # to the constructor arguments of the removed host) needs both calls at every step
    nested = dict(name="nested-len2", inits=base, positions=nest_p, palette=nest_c, kinds="both", maxlen=2)
    if quick:
        uni_p = [p for p in allp if p not in ("c[0]", "d[0][1]")]       # (those two are in sub-len3)
        return [nested, dict(name="uniform-inits", inits=uni, positions=uni_p, palette=allc, kinds="both", maxlen=1),
                dict(name="pairs-len2", inits=base, positions=pair_p, palette=pair_c, kinds="alt", maxlen=2),
                dict(name="sub-len3", inits=base, positions=sub_p, palette=sub_c, kinds="alt", maxlen=3)]
    return [dict(nested, name="nested-len3", maxlen=3, palette=nest_c),
            dict(name="uniform-inits", inits=uni, positions=allp, palette=allc, kinds="both", maxlen=1),
            dict(name="uniform-len2", inits=uni, positions=pair_p, palette=pair_c, kinds="alt", maxlen=2),
            dict(name="all-len2", inits=base, positions=allp, palette=allc, kinds="both", maxlen=2),
            dict(name="pairs-len3", inits=base, positions=pair_p, palette=pair3_c, kinds="alt", maxlen=3),
            dict(name="sub-len4", inits=base, positions=sub_p, palette=sub_c, kinds="alt", maxlen=4)]


# --------------------------------------------------------------------------------------
# TLC on Replace.tla
# --------------------------------------------------------------------------------------

def model_input(fam, model, scs, bugs=(), mutant_init=None):
    m = dict(model)
    m["allpos"] = list(fam.positions)
    m["scenarios"] = [dict(inits=[dict(g) for g in sc["inits"]], positions=list(sc["positions"]),
                           palette=list(sc["palette"]), kinds=sc["kinds"], maxlen=sc["maxlen"]) for sc in scs]
    m["bugs"] = list(bugs)
    m["mutant_init"] = dict(mutant_init or fam.uniform())
    return m


def cfg_text(bug="none", hist_only=False, invariants=True):
    t = ('SPECIFICATION Spec\nCONSTANTS Bug = "%s"\n HistOnly = %s\n' % (bug, "TRUE" if hist_only else "FALSE"))
    if invariants:
        t += "".join("INVARIANT %s\n" % i for i in INVARIANTS)
    return t + "CHECK_DEADLOCK FALSE\n"


def _write_input(d, name, obj):
    p = os.path.join(d, name)
    with open(p, "w") as f:
        json.dump(obj, f)
    return p


def model_check(res, fam, model, scs, scratch):
    """one TLC run: the invariants of Replace.tla over every scenario, and (MutantReport) every
    model-level mutant must break HistoryIndependent / NoLeftover within two steps"""
    bugs = BUGS[fam.name]
    inp = _write_input(scratch, "model_%s.json" % fam.name, model_input(fam, model, scs, bugs))
    r = tlc.run("Replace", cfg_text=cfg_text(), env={"VERIF_INPUT": inp}, coverage=True, timeout=3600,
                workers=max(2, (os.cpu_count() or 4) // 4))
    res.add_tlc(r)
    names = "/".join(sc["name"] for sc in scs)
    if r.violated:
        raise MachineryError("Replace.tla violates %s in %s (%s) (the specification itself is not "
                             "history independent)\n%s" % (r.violated, fam.name, names, r.out[-2500:]))
    if not r.ok:
        raise MachineryError("TLC failed on Replace (%s): %s\n%s" % (fam.name, r.errors, r.out[-2500:]))
    for act in ("Replace", "ReplaceWithObj"):
        if r.coverage.get(act, (0, 0))[1] == 0:
            raise MachineryError("action %s never taken in Replace (%s): vacuous" % (act, fam.name))
    caught = {p[2]: p[3] for p in r.prints if len(p) == 4 and p[0] == "V" and p[1] == "mutant"}
    for bug in bugs:
        if caught.get(bug) is not True:
            raise MachineryError("model-level mutant %s of Replace.tla (%s) breaks no invariant within two steps "
                                 "(MutantReport: %s)" % (bug, fam.name, caught))
        res.count("model_mutants_rejected")
    return r


def model_canaries(res, fam, model, scratch):
    """thorough tier: every model-level mutant (constant Bug), run as a model of its own, must make TLC
    report a violated invariant"""
    allp, allc = list(fam.positions), list(fam.classes)
    sc = dict(name="canary", inits=[fam.uniform()], positions=allp, palette=allc, kinds="alt", maxlen=2)
    inp = _write_input(scratch, "model_%s_canary.json" % fam.name, model_input(fam, model, [sc]))
    nsc = dict(name="canary-nested", inits=[fam.uniform()], positions=fam.hosts + fam.nested, palette=allc,
               kinds="both", maxlen=2)
    ninp = _write_input(scratch, "model_%s_canary_nested.json" % fam.name, model_input(fam, model, [nsc]))

    def one(bug):
        return bug, tlc.run("Replace", cfg_text=cfg_text(bug=bug), workers=2, timeout=3600,
                            env={"VERIF_INPUT": ninp if bug == "nested_kept" else inp})
    with ThreadPoolExecutor(max_workers=4) as ex:
        for bug, r in ex.map(one, BUGS[fam.name]):
            if not (set(r.violated) & {"HistoryIndependent", "NoLeftover"}):
                raise MachineryError("model-level mutant %s of Replace.tla (%s) violates no invariant: %s %s\n%s"
                                     % (bug, fam.name, r.violated, r.errors, r.out[-1500:]))
            res.count("model_mutant_runs_rejected")


def histories_of(res, fam, model, scs, scratch):
    """spec -> code: every path of the dumped history graph, per scenario"""
    inp = _write_input(scratch, "hist_%s.json" % fam.name, model_input(fam, model, scs))
    r, states, init, edges = tlc.dump_graph("Replace", cfg_text=cfg_text(hist_only=True, invariants=False),
                                            env={"VERIF_INPUT": inp})
    res.add_tlc(r)
    if not r.ok:
        raise MachineryError("TLC failed dumping the history graph (%s): %s\n%s" % (fam.name, r.errors, r.out[-2000:]))
    out = collections.defaultdict(set)
    for (s, d, name, args) in edges:
        if name not in ("Replace", "ReplaceWithObj") or len(args) != 2:
            raise MachineryError("unexpected edge label %s%s in the history graph" % (name, args))
        out[s].add((d, name, str(args[0]), str(args[1])))
    hists = [[] for _ in scs]
    for s0 in sorted(init):
        st = states[s0]
        icfg = {str(k): str(v) for k, v in st["cfg"].items()}
        hist = hists[int(st["sc"]) - 1]
        stack = [(s0, [])]
        while stack:
            s, path = stack.pop()
            if path:
                hist.append((icfg, path))
            for (d, name, pos, cls) in sorted(out.get(s, ())):
                stack.append((d, path + [(name, pos, cls)]))
    for sc, hist in zip(scs, hists):
        exp = sum(_count_paths(fam, sc, k) for k in range(1, sc["maxlen"] + 1)) * len(sc["inits"])
        if len(hist) != exp:
            raise MachineryError("history graph of %s/%s has %d paths, expected %d" % (fam.name, sc["name"], len(hist), exp))
    return hists


def _count_paths(fam, sc, k):
    b = len(fam.moves(sc["positions"], set(sc["palette"])))
    return (b * (2 if sc["kinds"] == "both" else 1)) ** k


# --------------------------------------------------------------------------------------
# replay pool
# --------------------------------------------------------------------------------------

class Replayer:
    def __init__(self, inputs):
        self.inputs = inputs
        self.pool = multiprocessing.get_context("fork").Pool(os.cpu_count() or 4)
        self.table = {}
        self.fresh_traces = {}

    def close(self):
        self.pool.terminate()
        self.pool.join()

    def run(self, jobs, chunk=40):
        """jobs: dicts(id, fam, init, steps, check, sim) -> {id: record}"""
        def final(j):
            return (j["fam"], J.cfg_key(J.family(j["fam"]).final_cfg(j["init"], j["steps"])))
        jobs = sorted(jobs, key=final)                    # neighbours share the fresh-build oracle
        chunks = [(jobs[i:i + chunk], self.inputs) for i in range(0, len(jobs), chunk)]
        recs = {}
        for out, table in self.pool.imap_unordered(J.run_chunk, chunks):
            self.table.update(table)
            for r in out:
                if r.get("harness_error"):
                    raise MachineryError("replaying %s failed outside the calls under test:\n%s"
                                         % (r.get("job"), r["harness_error"]))
                recs[r["id"]] = r
        if len(recs) != len(jobs):
            raise MachineryError("replay pool lost jobs (%d of %d)" % (len(recs), len(jobs)))
        return recs


# --------------------------------------------------------------------------------------
# trace validation (comparison with the specification's meta happens inside TLC)
# --------------------------------------------------------------------------------------

def _payload(fam, model, table, traces):
    """traces refer to observation hashes; intern them into 1-based indices of this payload"""
    pay = dict(model)
    pay["allpos"] = list(fam.positions)
    pay["scenarios"] = []
    pay["bugs"] = []
    pay["ofields"] = list(J.OFIELDS)
    tix, gix, tab, gtab = {}, {}, [], []

    def ti(h):
        if h not in tix:
            tab.append(table[h])
            tix[h] = len(tab)
        return tix[h]

    def gi(h):
        if h not in gix:
            gtab.append(table[h])
            gix[h] = len(gtab)
        return gix[h]
    dummy = None
    out = []
    for t in traces:
        evs = []
        for e in t["ev"]:
            if e.get("obs") is not None:
                o = e["obs"]
                obs = {"parts": {k: ti(h) for k, h in o["parts"].items()}, "nets": gi(o["nets"]), "mnets": gi(o["mnets"])}
                dummy = dummy or obs
                evs.append({"k": e["k"], "pos": e["pos"], "cls": e["cls"], "has": True, "obs": obs})
            else:
                evs.append({"k": e["k"], "pos": e["pos"], "cls": e["cls"], "has": False, "obs": None})
        out.append({"init": t["init"], "ev": evs})
    for t in out:
        for e in t["ev"]:
            if e["obs"] is None:
                e["obs"] = dummy or {"parts": {}, "nets": 1, "mnets": 1}
    if not tab:
        tab.append({f: [] for f in J.OFIELDS})
    if not gtab:
        gtab.append([])
    pay["table"], pay["gtable"], pay["traces"] = tab, gtab, out
    return pay


def validate(res, fam, model, table, traces, batch=None):
    """-> list of (err, position, clauses) per trace; clauses = {(category, field)} printed by TLC for
    the failing step"""
    if not traces:
        return []
    if batch is None:       # a JVM start costs several CPU seconds: a few big chunks per family (the families
        ncpu = max(2, (os.cpu_count() or 4) // len(FAMILIES))      # validate side by side)
        batch = max(60, min(1500, (len(traces) + ncpu - 1) // ncpu))
    chunks = [traces[i:i + batch] for i in range(0, len(traces), batch)]

    def one(ch):
        pay = _payload(fam, model, table, ch)
        runs, verdicts = tlc.validate_traces("ReplaceTrace", pay, chunk=len(ch), parallel=1, timeout=3600)
        cl = collections.defaultdict(set)
        for r in runs:
            for p in r.prints:
                if p and p[0] == "R":
                    cl[(p[1], p[2])].add((p[3], p[4]))
        return runs, [(v[0], v[1], cl.get((i + 1, v[1]), set())) for i, v in enumerate(verdicts)]
    out = []
    with ThreadPoolExecutor(max_workers=os.cpu_count() or 4) as ex:
        for runs, vs in ex.map(one, chunks):
            for r in runs:
                res.add_tlc(r)
            out.extend(vs)
    res.add_traces(len(traces))
    return out


# --------------------------------------------------------------------------------------
# verdicts
# --------------------------------------------------------------------------------------

class Findings:
    """key -> minimal reproduction"""
    def __init__(self):
        self.best = {}
        self.count = collections.Counter()
        self.lock = threading.Lock()

    def add(self, key, what, rec, extra):
        with self.lock:
            self._add(key, what, rec, extra)

    def _add(self, key, what, rec, extra):
        self.count[key] += 1
        rank = (len(rec["steps"]), json.dumps(rec["steps"]), json.dumps(rec["init"], sort_keys=True))
        if key not in self.best or rank < self.best[key][0]:
            detail = {"family": rec["fam"], "init": rec["init"], "history": rec["steps"],
                      "objects_built_beforehand": bool(rec.get("pre"))}
            detail.update(extra)
            self.best[key] = (rank, what, detail)

    def flush(self, res):
        for key in sorted(self.best):
            _, what, detail = self.best[key]
            detail["occurrences"] = self.count[key]
            res.violation(key, what, detail)


def _hist_text(rec):
    init = rec["init"]
    u = set(init.values())
    i = "all positions %s" % next(iter(u)) if len(u) == 1 else json.dumps(init, sort_keys=True)
    return "%s harness, initially %s; %s" % (rec["fam"], i, "; ".join(
        "%s(s.%s, %s)" % ("replace_component" if k == "Replace" else "replace_component_with_obj", p, c)
        for (k, p, c) in rec["steps"]))


CAT_TEXT = {"stale": "has an entry that the design built from scratch does not have",
            "missing": "lacks an entry of the design built from scratch",
            "old-object-kept": "still refers to the removed object where the design built from scratch refers to its replacement",
            "dup": "has two objects under one name"}


def judge(F, rec, tlc_verdict=None):
    """record of one replayed history (+ TLC's verdict on its observation) -> findings"""
    h = _hist_text(rec)
    if rec["raised"]:
        r = rec["raised"]
        if r.get("fresh_builds"):
            kept = ("|stale-in:" + "+".join(r["kept_by"])) if r.get("kept_by") else ""
            F.add("replace-raises:%s@%s%s" % (r["exc"], r["where"], kept),
                  "%s: step %d raises %s (%s) although the target design builds from scratch"
                  % (h, r["step"], r["exc"], r["msg"].splitlines()[0] if r["msg"] else ""), rec, {"raised": r})
        else:
            raise MachineryError("the target configuration of %s does not even build from scratch: %s" % (h, r))
    for c in rec["checks"]:
        for (cat, f, kind, es) in c["findings"]:
            key = J.finding_key(cat, f, kind)
            F.add(key, "%s: after step %d the %s of the mutated design %s: %s"
                  % (h, c["step"], J.FIELD_WORD[f].replace("-", " "), CAT_TEXT[cat], es[:3]),
                  rec, {"step": c["step"], "entries": es})
        for x in c["reach"]:
            if x["folded_into"] is None:
                F.add(x["key"], "%s: after step %d the removed %s is still reachable from the top at %s"
                      % (h, c["step"], x["object"], x["path"]), rec, {"step": c["step"], "path": x["path"], "object": x["object"]})
    s = rec["sim"]
    if s:
        last = [c for c in rec["checks"] if c["step"] == len(rec["steps"])]
        mk = sorted({J.finding_key(cat, f, kind) for c in last for (cat, f, kind, es) in c["findings"]}
                    | {x["key"] for c in last for x in c["reach"] if x["folded_into"] is None})
        # a difference in behaviour next to metadata differences of the same design is keyed by them
        # (it is their consequence; another metadata difference gives another key); without any it
        # stands alone
        sfx = "+".join(mk) if mk else "metadata-equal" if last else "metadata-not-compared"
        pg = "" if s.get("pg", "DefaultPassGroup") == "DefaultPassGroup" else "[%s]" % s["pg"]
        if s["kind"] == "differs":
            F.add("sim-differs%s|%s" % (pg, sfx),
                  "%s: simulation under %s differs from the design built from scratch at cycle %d in %s: %s vs %s "
                  "(metadata differences of this design: %s)"
                  % (h, s.get("pg"), s["cycle"], s.get("where") or "the final record", str(s["replaced"])[:300],
                     str(s["fresh"])[:300], mk or "none"), rec, {"sim": s, "metadata": mk})
        elif s["kind"] == "raises":
            F.add("sim-raises%s:%s@%s|%s" % (pg, s["exc"], s["where"], sfx),
                  "%s: simulating the mutated design under %s raises %s in %s (%s); the design built from scratch "
                  "simulates (metadata differences of this design: %s)"
                  % (h, s.get("pg"), s["exc"], s["where"], s["msg"].splitlines()[0] if s["msg"] else "", mk or "none"),
                  rec, {"sim": s, "metadata": mk})
        elif s["kind"] in ("fresh-raises", "both-raise"):
            raise MachineryError("the design built from scratch for %s cannot be simulated: %s" % (h, s))
    if tlc_verdict is not None:
        err, pos, clauses = tlc_verdict
        if err in ("bad-trace-event", "unknown-event", "model-history-dependent"):
            raise MachineryError("ReplaceTrace rejected the recorded history itself (%s): %s" % (err, h))
        if rec["checks"]:
            c = rec["checks"][-1]
            mine = {(a, b) for (a, b) in c["rawclauses"]}
            theirs = set(clauses) if err != "ok" else set()
            if err != "ok" and pos != len(rec["steps"]):
                raise MachineryError("ReplaceTrace failed at event %d of %s (%s)" % (pos, h, err))
            for (cat, f) in sorted(theirs - mine):
                F.add("differs-from-spec:%s-%s" % (cat, J.FIELD_WORD[f]),
                      "%s: TLC (Replace.tla) reports %s %s although the mutated design equals the one built from scratch"
                      % (h, cat, f), rec, {"clauses": sorted(theirs)})
            if mine - theirs:
                raise MachineryError("%s: the design built from scratch differs from Meta(cfg) of Replace.tla in %s "
                                     "(fresh designs are not compositional for this configuration)" % (h, sorted(mine - theirs)))


# --------------------------------------------------------------------------------------
# the check
# --------------------------------------------------------------------------------------

class _Locked:
    """Result shared by the two family threads: every method call under one lock"""
    def __init__(self, res):
        self._r, self._l = res, threading.Lock()

    def __getattr__(self, k):
        a = getattr(self._r, k)
        if not callable(a):
            return a

        def f(*x, **kw):
            with self._l:
                return a(*x, **kw)
        return f


# pymtl3 elaboration patches NamedObject.__setattr__ globally: designs are built by one thread at a time
_PYMTL = threading.Lock()


def _inputs():
    return {"RTL": J.rtl_inputs(NCYC, rng("c15-inputs")), "PB": J.rtl_inputs(NCYC, rng("c15-inputs-pb")),
            "CL": [0] * NCYC}


def _param_scenarios(res):
    """replace_component on children whose construct() arguments were set with set_param (plain attribute, list
    element addressed by index / by a regular expression, with parameters set one level down): the replacement
    gets the parameters a fresh build gives it, so names and simulation equal those of the design built directly
    with the replacement in place.  (Added after an independent observation: replacing a list element of a parent
    that holds set_param entries raised NameError.)"""
    import itertools
    import c15_designs as D
    from pymtl3 import DefaultPassGroup

    def sim(top):
        top.apply(DefaultPassGroup())
        top.sim_reset()
        outs = []
        for v in (0, 1, 37, 200, 255):
            top.in_ @= v
            top.sim_eval_combinational()
            outs.append([int(o) for o in top.out])
            top.sim_tick()
        return outs

    def names(top):
        return sorted(repr(o) for o in top.get_all_object_filter(lambda x: True))
    n = 0
    for r in range(len(D.PAR_SETS) + 1):
        for sets in itertools.combinations(D.PAR_SETS, r):
            for target in ("p", "xs[0]", "xs[1]"):
                for twice in (False, True):
                    tag = "%s:%s%s" % (target, "+".join(p for p, _ in sets) or "none", ":twice" if twice else "")
                    fresh = D.ParTop(cls_of={target: D.ParLeafX})
                    for p, v in sets:
                        fresh.set_param(p, k=v)
                    fresh.elaborate()
                    exp_names, exp = names(fresh), sim(fresh)
                    top = D.ParTop()
                    for p, v in sets:
                        top.set_param(p, k=v)
                    top.elaborate()
                    n += 1
                    res.add_evals()
                    res.distinct(("param-scenario", tag))
                    try:
                        if twice:
                            top.replace_component(eval("top." + target), D.ParLeaf)
                        top.replace_component(eval("top." + target), D.ParLeafX)
                        got_names, got = names(top), sim(top)
                    except Exception as e:      # noqa: BLE001
                        res.violation("param:%s:%s:raises:%s" % (target.split("[")[0], "indexed-or-regex-param" if any("xs" in p for p, _ in sets) else "other-params", type(e).__name__),
                                      "set_param %s, then replace_component(s.%s, ParLeafX)%s raises %s: %s"
                                      % ([p for p, _ in sets], target, " (second replacement)" if twice else "", type(e).__name__, str(e)[:200]),
                                      {"sets": [list(x) for x in sets], "target": target, "twice": twice})
                        continue
                    if got_names != exp_names:
                        res.violation("param:%s:names-differ" % target.split("[")[0],
                                      "set_param %s, replace_component(s.%s): name sets differ from the fresh build" % ([p for p, _ in sets], target),
                                      {"only_replaced": sorted(set(got_names) - set(exp_names))[:10], "only_fresh": sorted(set(exp_names) - set(got_names))[:10]})
                    elif got != exp:
                        res.violation("param:%s:simulation-differs" % target.split("[")[0],
                                      "set_param %s, replace_component(s.%s, ParLeafX): outputs %s, the design built directly gives %s"
                                      % ([p for p, _ in sets], target, got[2], exp[2]), {"sets": [list(x) for x in sets], "target": target})
    res.note("param_scenarios", n)


def run(res, tier):
    from common import scratch
    quick = tier == "quick"
    _param_scenarios(res)
    inputs = _inputs()
    F = Findings()
    for f in FAMILIES:
        J.family(f)
    rp = Replayer(inputs)                    # fork the workers before any thread exists
    lres = _Locked(res)
    try:
        with scratch() as sd:
            with ThreadPoolExecutor(max_workers=len(FAMILIES)) as ex:
                futs = [ex.submit(_family, lres, tier, f, rp, F, rng("c15-" + f), sd) for f in FAMILIES]
                for fu in futs:
                    fu.result()
            with phase("canaries"):
                try:
                    _canaries(res, rp, rng("c15-canaries"))
                except MachineryError as e:
                    # the canaries that exercise the repository (sweep, simulation) can be upset by the very
                    # defect that the violations found above report: the violations are the verdict then
                    if not F.best:
                        raise
                    res.note("canary_failed_next_to_violations", str(e)[:500])
    finally:
        rp.close()
    F.flush(res)
    res.note("finding_occurrences", dict(F.count))
    res.note("phase_wall_s", dict(_PHASES))
    res.note("rule", "spec->code: every path of the TLC history graph of every scenario (positions x palette x "
             "API call, bounded length, one or several uniform initial designs) is replayed on real designs; "
             "code->spec: random histories of length %d with an observation after every step; a case is one "
             "history (initial configuration + sequence of (call, position, class))" % (8 if quick else 14))
    res.assume("fresh designs are compositional (checked on every run: every class in every position it fits, "
               "uniform and random configurations); the classes that fit one position share one port interface")
    res.assume("connect order is compared as a set; per-component _dsl.consts is not compared")
    res.assume("simulation: DefaultPassGroup, Mamba2020, SimpleSimPass (not for the CL family; quick tier: Default and "
               "one of the others in turn), %d cycles of seeded inputs, outputs and every signal compared every "
               "cycle; configurations holding a placeholder are not simulated" % NCYC)
    res.assume("replace_component_with_obj on a hosting position is given an object built with the classes "
               "currently below it")


def _pgs(fam, tier, i):
    """pass groups under which history number i is simulated: all of the family's in the thorough tier;
    in the quick tier DefaultPassGroup and, for every other history, in turn one of the others"""
    pgs = list(fam.pass_groups)
    if tier != "quick":
        return pgs
    if i % 2:
        return pgs[:1]
    return [pgs[0], pgs[1 + (i // 4) % (len(pgs) - 1)]]


def _family(res, tier, famname, rp, F, R, sd):
    quick = tier == "quick"
    fam = J.family(famname)
    ph = lambda n: phase("%s:%s" % (famname, n))  # noqa: E731
    extra = [fam.random_cfg(R) for _ in range(6 if quick else 40)]
    with ph("extract-model"), _PYMTL:
        try:
            model = J.extract_model(fam, extra)
        except J.NotCompositional as e:
            raise MachineryError("designs built from scratch are not compositional (%s): %s" % (famname, e))
        # ---- fresh designs against the derived views of the specification (and canary base)
        fresh_cfgs = [fam.uniform(c, c) for c in fam.classes] + extra
        ftr = []
        for g in fresh_cfgs:
            P, _ = J.project(fam.build(g))
            o = _intern_obs(rp.table, J.observation(fam, P))
            ftr.append({"init": g, "ev": [{"k": "Observe", "pos": "", "cls": "", "obs": o}]})
    res.note("model_json_bytes_" + famname, len(json.dumps(model)))

    # ---- TLC on Replace.tla: model-level mutants, invariants and history graph of every scenario,
    #      side by side (small models; the JVM start dominates)
    scs = scenarios(tier, famname)
    with ph("tlc-model"), ThreadPoolExecutor(max_workers=4) as ex:
        fc = ex.submit(model_canaries, res, fam, model, sd) if not quick else None
        fv = ex.submit(validate, res, fam, model, rp.table, ftr)
        fm = ex.submit(model_check, res, fam, model, scs, sd)
        fh = ex.submit(histories_of, res, fam, model, scs, sd)
        if fc is not None:
            fc.result()
        vs = fv.result()
        fm.result()
        hss = fh.result()
    for t, (err, pos, cl) in zip(ftr, vs):
        if err != "ok":
            raise MachineryError("a freshly elaborated %s design %s differs from the derived views of Replace.tla: %s %s"
                                 % (famname, t["init"], err, sorted(cl)))
    res.count("fresh_designs_validated", len(ftr))
    rp.fresh_traces[famname] = (model, ftr)

    # ---- spec -> code: all histories of every scenario
    jobs, nid = [], 0
    for sc, hs in zip(scs, hss):
        res.note("histories_%s_%s" % (famname, sc["name"]), len(hs))
        for (icfg, path) in hs:
            # every other history hands replace_component_with_obj objects built before the design
            jobs.append(dict(id=nid, fam=famname, init=icfg, steps=path, check="last", sim=True, pre=nid % 4 in (1, 2),
                             pgs=_pgs(fam, tier, nid)))
            nid += 1
    seen = {}
    for j in jobs:                                # scenarios overlap: replay a history once
        seen.setdefault((json.dumps(j["init"], sort_keys=True), json.dumps(j["steps"])), j)
    jobs = list(seen.values())
    with ph("replay"):
        recs = rp.run(jobs)
    res.add_evals(sum(len(j["steps"]) for j in jobs))
    order = sorted(recs)
    traces = []
    for i in order:
        r = recs[i]
        ev = [{"k": k, "pos": p, "cls": c, "obs": None} for (k, p, c) in r["steps"]]
        if r["checks"]:
            ev[r["checks"][-1]["step"] - 1]["obs"] = r["checks"][-1]["obs"]
        if r["raised"]:
            ev = ev[:r["raised"]["step"] - 1]
        traces.append({"init": r["init"], "ev": ev})
        res.distinct(("h", famname, json.dumps(r["init"], sort_keys=True), json.dumps(r["steps"])))
    with ph("validate"):
        vs = validate(res, fam, model, rp.table, traces)
    for i, v in zip(order, vs):
        judge(F, recs[i], v)
    res.count("spec_to_code_histories_replayed", len(jobs))
    k = order[len(order) // 2]
    res.sample({"kind": "spec->code history", "family": famname, "init": recs[k]["init"], "steps": recs[k]["steps"],
                "sim": recs[k]["sim"], "tlc": str(vs[len(order) // 2][0])})

    # ---- code -> spec: long random histories, observation after every step
    n, ln = (24, 8) if quick else (300, 14)
    jobs = []
    for i in range(n):
        init = fam.random_cfg(R)
        mv = fam.moves()
        steps = [(R.choice(["Replace", "ReplaceWithObj"]),) + R.choice(mv) for _ in range(ln)]
        jobs.append(dict(id=("long", i), fam=famname, init=init, steps=steps, check="all", sim=True, pre=i % 2 == 1,
                         pgs=_pgs(fam, tier, i)))
    with ph("random-replay"):
        recs = rp.run(jobs, chunk=2)
    # simulation after every intermediate step needs an unmutated copy: replay the prefixes
    pjobs = []
    for i in range(n):
        r = recs[("long", i)]
        upto = (r["raised"]["step"] - 1) if r["raised"] else len(r["steps"]) - 1
        for k in range(1, upto + 1):
            pjobs.append(dict(id=("prefix", i, k), fam=famname, init=r["init"], steps=r["steps"][:k], check="last",
                              sim=True, pre=r["pre"], pgs=_pgs(fam, tier, i + k)))
    with ph("random-replay"):
        precs = rp.run(pjobs, chunk=8)
    traces, order = [], []
    for i in range(n):
        r = recs[("long", i)]
        ev = [{"k": k, "pos": p, "cls": c, "obs": None} for (k, p, c) in r["steps"]]
        for c in r["checks"]:
            ev[c["step"] - 1]["obs"] = c["obs"]
        # stop the trace at the first step whose observation differs from the design built from
        # scratch (TLC stops there too); findings of later steps are judged by the harness alone
        cut = len(ev)
        for c in r["checks"]:
            if c["rawclauses"]:
                cut = c["step"]
                break
        if r["raised"]:
            cut = min(cut, r["raised"]["step"] - 1)
        traces.append({"init": r["init"], "ev": ev[:cut]})
        order.append(("long", i))
        res.distinct(("r", famname, i))
    with ph("random-validate"):
        vs = validate(res, fam, model, rp.table, traces, batch=(len(traces) + 1) // 2)
    for key, t, v in zip(order, traces, vs):
        r = recs[key]
        err, pos, cl = v
        judge(F, r, None)
        if err in ("bad-trace-event", "unknown-event", "model-history-dependent"):
            raise MachineryError("ReplaceTrace rejected a recorded random history (%s)" % err)
        first_bad = next((c for c in r["checks"] if c["rawclauses"]), None)
        mine = {(a, b) for (a, b) in first_bad["rawclauses"]} if first_bad and first_bad["step"] <= len(t["ev"]) else set()
        theirs = set(cl) if err != "ok" else set()
        if mine - theirs:
            raise MachineryError("random history %s: design built from scratch differs from Meta(cfg) in %s"
                                 % (_hist_text(r), sorted(mine - theirs)))
        for (cat, f) in sorted(theirs - mine):
            F.add("differs-from-spec:%s-%s" % (cat, J.FIELD_WORD[f]),
                  "%s: TLC reports %s %s at event %d although the mutated design equals the one built from scratch"
                  % (_hist_text(r), cat, f, pos), r, {"clauses": sorted(theirs), "event": pos})
    for key, r in precs.items():
        judge(F, r, None)
    res.add_evals(sum(len(recs[k]["steps"]) for k in recs))
    res.count("code_to_spec_random_histories", n)
    res.sample({"kind": "code->spec random history", "family": famname, "init": recs[("long", 0)]["init"],
                "steps": recs[("long", 0)]["steps"][:6], "tlc": str(vs[0][0])})


def _intern_obs(table, o):
    import hashlib
    ids = {}
    for t, part in o["parts"].items():
        s = json.dumps(part, sort_keys=True)
        h = hashlib.sha1(s.encode()).hexdigest()
        table.setdefault(h, part)
        ids[t] = h
    g = {}
    for k in ("nets", "mnets"):
        s = json.dumps(o[k], sort_keys=True)
        h = hashlib.sha1(s.encode()).hexdigest()
        table.setdefault(h, o[k])
        g[k] = h
    return {"parts": ids, "nets": g["nets"], "mnets": g["mnets"]}


# --------------------------------------------------------------------------------------
# canaries
# --------------------------------------------------------------------------------------

def _canary_traces(rp, famname, R):
    """(traces, expectations): expectation = a clause that must be reported, or None (any rejection)"""
    if True:
        model, ftr = rp.fresh_traces[famname]
        fam = J.family(famname)
        # (a) corrupted copies of accepted observations must be rejected by TLC with the right clause
        can, expect = [], []
        for t in ftr[:10]:
            g = t["init"]
            o = t["ev"][0]["obs"]
            p = R.choice(fam.positions)
            part = copy.deepcopy(rp.table[o["parts"][p]])
            kind = len(can) % 4
            if kind == 0:       # a stale signal name left below the position
                part["sigs"] = part["sigs"] + [[["$", ".zz_leftover"]]]
                exp = ("stale", "sigs")
            elif kind == 1:     # a stale constraint of a class that is not there
                part["wru"] = part["wru"] + [[["$", "::up_b"], ["#", "lt"], ["$", ".zz_w"]]]
                exp = ("stale", "wru")
            elif kind == 2:     # a named object dropped
                part["named"] = part["named"][1:]
                exp = ("missing", "named")
            else:               # an entry owned by a deleted object
                part = None
                exp = ("stale", "once")
            o2 = copy.deepcopy(o)
            if part is None:
                junk = copy.deepcopy(rp.table[o["parts"]["?"]])
                junk["once"] = [[["?", "<stale>s.x::up"]]]
                o2["parts"]["?"] = _intern_part(rp.table, junk)
            else:
                o2["parts"][p] = _intern_part(rp.table, part)
            can.append({"init": g, "ev": [{"k": "Observe", "pos": "", "cls": "", "obs": o2}]})
            expect.append(exp)
        # a corrupted net: writer replaced by another member
        for t in ftr[:4]:
            o = t["ev"][0]["obs"]
            nets = copy.deepcopy(rp.table[o["nets"]])
            big = [n for n in nets if len(n) >= 3 and n[0] != n[2]]
            if not big:
                continue
            big[0][0] = big[0][2] if big[0][0] == big[0][1] else big[0][1]
            o2 = copy.deepcopy(o)
            o2["nets"] = _intern_part(rp.table, nets)
            can.append({"init": t["init"], "ev": [{"k": "Observe", "pos": "", "cls": "", "obs": o2}]})
            expect.append(("stale", "nets"))
        # (b) a history replayed with a different class than recorded must be rejected
        g0 = fam.uniform()
        pos = fam.leaves[0]
        base = g0[pos]
        other = [c for c in fam.palof[pos] if c != base and c not in fam.placeholders][0]
        o = _intern_obs(rp.table, _reobserve(fam, g0, [("Replace", pos, other)]))
        can.append({"init": g0, "ev": [{"k": "Replace", "pos": pos, "cls": base, "obs": o}]})
        expect.append(None)
        # (b') replace_component on a hosting position re-uses the constructor arguments of the removed
        # object: a trace claiming that the nested position keeps its current class must be rejected
        if fam.hosts:
            hp = fam.hosts[0]
            q = fam.below[hp][0]
            c2 = [c for c in fam.palof[q] if c != g0[q] and c not in fam.placeholders][0]
            hc = fam.palof[hp][-1]
            good = [("Replace", q, c2), ("Replace", hp, hc)]
            if fam.final_cfg(g0, good)[q] != g0[q]:
                raise MachineryError("canary: Family.step does not fall back to the constructor argument")
            wrong = dict(fam.final_cfg(g0, good))
            wrong[q] = c2                                     # the design a naive reading would expect
            P, _ = J.project(fam.build(wrong))
            o = _intern_obs(rp.table, J.observation(fam, P))
            can.append({"init": g0, "ev": [{"k": "Replace", "pos": q, "cls": c2, "obs": None},
                                           {"k": "Replace", "pos": hp, "cls": hc, "obs": o}]})
            expect.append(None)
        return can, expect


def _canaries(res, rp, R):
    ncan = 0
    prepared = {f: _canary_traces(rp, f, R) for f in rp.fresh_traces}

    def val(famname):
        can, expect = prepared[famname]
        model, _ = rp.fresh_traces[famname]
        return famname, validate(res, J.family(famname), model, rp.table, can, batch=len(can))
    with ThreadPoolExecutor(max_workers=len(prepared)) as ex:
        verdicts = dict(ex.map(val, list(prepared)))
    for famname, (model, ftr) in rp.fresh_traces.items():
        fam = J.family(famname)
        can, expect = prepared[famname]
        for t, exp, (err, pos, cl) in zip(can, expect, verdicts[famname]):
            if err == "ok" or (exp is not None and exp not in cl):
                raise MachineryError("canary trace accepted by ReplaceTrace (%s: %s; expected %s, got %s %s)"
                                     % (famname, [(e["k"], e["pos"], e["cls"]) for e in t["ev"]], exp, err, sorted(cl)))
            ncan += 1
        g0 = fam.uniform()
        pos = fam.leaves[0]
        base = g0[pos]
        other = [c for c in fam.palof[pos] if c != base and c not in fam.placeholders][0]
        # (c) harness-side comparison: a stale name planted in a copy of a real projection
        g = dict(g0)
        p0 = fam.leaves[0]
        P, kinds = J.project(fam.build(g))
        Q = copy.deepcopy(P)
        Q["sigs"].append("<deleted>s.%s.zz" % p0)
        Q["wru"].append(["<stale>s.%s::up_b" % p0, "#lt", "<deleted>s.%s.w" % p0])
        Q["named"].remove("s." + p0)
        st, mi = J.diff(Q, P)
        keys = {J.finding_key(c, f, k) for (c, f, k, _) in J.classify(st, mi, J.duplicates(Q), kinds, kinds)}
        want = {"stale-signal-name", "stale-WR-U-constraint", "missing-named-object:Component"}
        if not want <= keys:
            raise MachineryError("canary: planted leftovers not reported by the fresh-build comparison: %s" % sorted(keys))
        ncan += 1
        # (d) sweep: a removed object planted in a _dsl container must be found
        top = fam.build(g)
        removed = J.apply_step(fam, top, "Replace", p0, g[p0], g)
        reached = {d for (_, d) in J.sweep(top, removed)}       # (a defect may make removed objects reachable)
        victim = next((o for (o, d) in removed if (d.startswith("InPort") or d.startswith("CalleePort"))
                       and d not in reached), None)
        if victim is not None:
            top._dsl.all_U_U_constraints.add((victim, victim))
            hit = [p for (p, d) in J.sweep(top, removed) if "all_U_U_constraints" in p]
            if not hit:
                raise MachineryError("canary: sweep does not find a removed object planted in top._dsl.all_U_U_constraints")
        ncan += 1
        # (e) simulation comparison: the design for another class at one position must be told apart
        # from the design built from scratch under every pass group, and a register of the harness that
        # does not commit (its writer block silently dropped from the schedule) must be seen in the
        # per-signal trace
        inputs = rp.inputs[famname]
        F = J.fresh(fam, g0, inputs)
        g1 = dict(g0)
        g1[pos] = other
        for pg in fam.pass_groups:
            ref = J.fresh_sim(fam, g0, inputs, pg)
            if ref[0] != "ok":
                if pg == "DefaultPassGroup":
                    raise MachineryError("canary: the base design of %s does not simulate: %s" % (famname, ref))
                continue
            try:
                got = ("ok", J.simulate(fam, fam.build(g1), inputs, pg, F["sigs"], F["pure"]))
            except Exception as e:          # noqa: BLE001
                got = ("raises", {"exc": type(e).__name__})
            if J.compare_sim(fam, ref, got, F["sigs"], pg)["kind"] == "same":
                raise MachineryError("canary: %s under %s cannot tell %s from %s at %s" % (famname, pg, other, base, pos))
            ncan += 1
        # registers commit, observably: in every uniform configuration every signal written by an
        # update_ff block (public metadata) takes at least two values in the per-signal trace of the
        # design built from scratch, and a trace in which it is stuck is told apart
        for c in fam.classes:
            gu = fam.uniform(c, c)
            if any(gu[p] in fam.placeholders for p in gu):
                continue
            top = fam.build(gu)
            _, wr, _ = top.get_all_upblk_metadata()
            regs = sorted({(repr(x), repr(top.get_update_block_host_component(b)))
                           for b in top.get_all_update_ff() for x in wr[b]})
            Fu = J.fresh(fam, gu, inputs)
            ref = J.fresh_sim(fam, gu, inputs)
            if ref[0] != "ok":
                raise MachineryError("canary: uniform design %s of %s does not simulate: %s" % (c, famname, ref))
            rows = [r for r in ref[1] if len(r) > len(Fu["sigs"])]
            nout = len(rows[0]) - len(Fu["sigs"])
            for rg, host in regs:
                j = nout + Fu["sigs"].index(rg)
                if len({r[j] for r in rows}) < 2:
                    # a register inside a palette class may be stuck by construction (its enable is tied
                    # to its own output); a register that an update_ff block of the harness / of a hosting
                    # class writes INTO the component below it is what replace_component must preserve
                    if fam.split_name(rg)[0] == fam.split_name(host)[0]:
                        res.count("static_internal_registers")
                        continue
                    raise MachineryError("canary: register %s of the uniform %s design of %s never changes in the "
                                         "simulation (a register that does not commit would not be seen)" % (rg, c, famname))
                stuck = [list(r) for r in ref[1]]
                for r in stuck:
                    if len(r) > len(Fu["sigs"]):
                        r[j] = rows[0][j]
                if J.compare_sim(fam, ref, ("ok", stuck), Fu["sigs"], "DefaultPassGroup")["kind"] != "differs":
                    raise MachineryError("canary: a stuck register %s is not told apart" % rg)
                ncan += 1
    res.note("canaries_rejected", ncan)


def _intern_part(table, part):
    import hashlib
    s = json.dumps(part, sort_keys=True)
    h = hashlib.sha1(s.encode()).hexdigest()
    table.setdefault(h, part)
    return h


def _reobserve(fam, init, steps):
    top = fam.build(init)
    for s in steps:
        J.apply_step(fam, top, *s)
    P, _ = J.project(top)
    return J.observation(fam, P)


def replay(obj):
    """re-run the history of a replay file and print what is found"""
    d = obj.get("detail") or {}
    if "history" not in d:
        print(json.dumps(obj, indent=1))
        return 0
    inputs = _inputs()
    rec = J.replay_history(d["family"], d["init"], [tuple(s) for s in d["history"]], inputs[d["family"]], check="all",
                           pre=d.get("objects_built_beforehand", False))
    for c in rec["checks"]:
        c.pop("obs", None)
    print(json.dumps(rec, indent=1, default=str))
    F = Findings()
    for c in rec["checks"]:
        c.setdefault("rawclauses", [])
    judge(F, rec, None)
    print("keys:", sorted(F.best))
    return 1 if obj.get("key") in F.best else 0
