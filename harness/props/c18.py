"""C18  Magic memories act as one in-order memory whatever the timing parameters: MagicMem.tla model-checked,
Process steps replayed on MagicMemoryFL, Send/Process/Deliver histories of MagicMemoryCL and stream.MagicMemoryRTL
validated by MagicMemTrace -- directly and through the interface adapters / connect hooks of mem_ifcs.py and
stream/fl.py (FL, CL and RTL masters), which must be transparent; the components that make timing change only
WHEN (DelayPipeDeqCL, DelayPipeSendCL, StallCL) as a state machine of their own: DelayPipe.tla model-checked
(FIFO order, nothing lost / duplicated / invented, not before t + delay, occupancy), every transition of its state
graph replayed on the real classes, long random histories validated by DelayPipeTrace with the stall decisions
logged and again inferred by TLC.

spec/MagicMem.tla (byte memory + per-port inflight / resp FIFOs; Send, Process, Deliver; no timing in
the data path), spec/MagicMemMC.tla (menus from JSON), spec/MagicMemTrace.tla (trace validation);
spec/DelayPipe.tla (DelayPipeDeqCL / DelayPipeSendCL / StallCL as a state machine, one action per
clock cycle), spec/DelayPipeTrace.tla (trace validation).  Helper modules: harness/c18_drv.py,
c18_pipe.py, c18_pipecheck.py, c18_adp.py.
  1. TLC checks Conservation, ResponseOrder, ProcessOrder, SequentialImage (history variable),
     ReadsSeeLatestStore, AmoAtomic, ResponsesFromHistory on 2 ports x <= 3 requests over two
     overlapping word addresses with sub-word lengths, all interleavings of Send/Process/Deliver.
  2. spec -> code: TLC -simulate behaviours of the model; every Process step is replayed on a real
     MagicMemoryFL (read / write / amo as up_mem calls them) and the returned bytes and the image
     compared with the model state (binds the byte order and the nine AMO functions).
  3. code -> spec: MagicMemoryCL (1-3 ports, latency 1-6, stall 0/.3/.7) and stream.MagicMemoryRTL
     (extra latency 0-4, stall 0/.3/.5/.7) are driven by harness sources / sinks with per-message
     random delays; Send / Process (wrapped FL instance, outermost call) / Deliver events and the
     final read_mem image are validated by MagicMemTrace (linear: the processing order is logged).
     A subset is validated again with the Process events dropped (TLC infers the order).
  4. timing independence: the same race-free streams under several timing configurations and both
     implementations must give identical response contents and images.
  5. canaries: swapped responses, stale read data, wrong final byte, dropped Process, wrong opaque,
     AMO response that is not the old value must be rejected (linear and inferred mode); hand-written
     one-request histories: an amo.add applied once is accepted, applied twice / applied and never
     answered / answered and never applied / answered with the new value are rejected in both modes.
  6. the memories behind the interface adapters (c18_adp.py): FL masters -> MemMasterIfcFL.connect hook
     -> MemIfcFL2CLAdapter -> MagicMemoryCL; CL masters -> MemIfcCL2FLAdapter -> MagicMemoryFL; en/rdy
     MemMasterIfcRTL ports -> by-name connect hooks (RecvRTL2SendCL / RecvCL2SendRTL) -> MagicMemoryCL
     (latency 0-5: the delay-0 bypass pipes too); FL masters -> stream.fl.MemMasterAdapter ->
     stream.MagicMemoryRTL; FL sender / receiver blocks -> stream.fl.SendQueueAdapter / RecvQueueAdapter
     -> stream.MagicMemoryRTL.  Every run is validated by the SAME MagicMemTrace (logged processing
     order; a subset again with the order inferred); race-free streams must give the contents and the
     image of the direct connection; an exception inside the simulated design is a violation keyed by
     the request class it hit.  Chains whose adapter cannot be constructed on this tree
     (MemMinionIfcFL.connect for CL masters, MemIfcFL2RTLAdapter, MemIfcRTL2FLAdapter) are built on every
     run, recorded in the evidence while they raise at construction, and checked like the others as soon
     as they can be built.  Canaries: the previous response returned again, a lost memory call, a wrong
     final byte.
  7. delay pipes and the random stall (c18_pipe.py, c18_pipecheck.py): TLC checks DelayPipe.tla for both
     kinds, delay 0..3 (thorough 0..5), with and without a StallCL in front: Conservation / FifoOrder
     (nothing lost, duplicated, invented, reordered), Occupancy (never more in flight than slots),
     NotEarly (accepted in cycle t => not delivered before t + delay), Punctual (never held => at the
     exit exactly in t + delay), StallIsIdle (a stalled cycle = a cycle without an offer), per-action
     coverage of the eight outcome classes, and a model canary (NotEarly is tight).
     spec -> code: the dumped state graph of every configuration (delay 0..3, thorough 0..4) is covered
     by paths; every transition is replayed on the real DelayPipeDeqCL / DelayPipeSendCL inside a top with
     a producer block, a consumer block (DelayPipeSendCL: a CL callee with a controllable rdy), peek();
     pymtl3's M()/U() constraints order the blocks, both producer/consumer orders where the pipe leaves
     it open; with StallCL the walk dictates the draw; rdy / transfer bits, the message at the exit and
     list(pipeline) are compared after every cycle.
     code -> spec: long bursty histories with serial-number payloads, delays 0..8 (thorough ..11), and
     StallCL (probabilities .2/.5/.8, several seeds; the seeded stream decides) in front of delays 0..3,
     validated by DelayPipeTrace: linear with the draws read from the tapped stream, and again with the
     stall decisions, the enq side and the slots removed (TLC infers the decisions: the stall may only
     choose WHEN).  Canaries: a software pipe that delivers one cycle early / swaps two messages / drops
     one is rejected by the walk and by the trace module (the fault-free one is accepted); corrupted real
     histories (content changed, swapped, vanished, duplicated, rdy flipped, slot changed; inferred mode:
     swapped, vanished, changed, one cycle early) are rejected.
The TLC runs of 1, 2 and 7 are started first and run beside 3-6 (they need nothing from them).

NOTE: Trusted base: TLC, spec/MagicMem.tla and the (S) clauses of spec/DelayPipe.tla / DelayPipeTrace.tla
as the statement, harness/c18_drv.py, c18_adp.py, c18_pipe.py (sources, sinks, masters, the wrapper around
the MagicMemoryFL instance's read/write/amo -- also behind the callee ports of MagicMemoryFL.ifc --,
val/rdy sampling after each sim_tick, the tap on StallCL's random stream, reading list(pipeline)).
Assumptions: AMOs are word-sized (len = 0); 32-bit data, 8-bit opaque messages; accesses stay in a
16-24 byte window (the rest of the memory is checked to stay zero); INV/FLUSH only on the CL memory
(the stream memory asserts on them; the FL interfaces have no such call); response `len`/`test` fields
and the data field of write responses are not constrained by the statement and not compared; of a
sub-word read response only the requested bytes are compared; an FL master observes only the returned
data (type / opaque of its Deliver event are those of its request).  The statement does not tie the
processing point to the val/rdy
handshake: a memory call that serves no accepted, unprocessed request (e.g. a request of the stream
memory that is presented but not yet accepted -- MagicMemoryRTL evaluated those before 1fc3b85) is a
violation only if the run is not observably sequential, i.e. if no order of applying every request
exactly once between the cycle it is first presented and its response explains all responses and the
final image (decided by the inferred-order mode).  A request applied twice with a visible effect, or
applied and never accepted / answered, has no such order.
MODEL OF THE CODE (not fixed by the statement, modelled after DelayPipeCL.py / StallCL.py and flagged as
such in the violation text): the exact ready timing of the pipes -- the number of slots (delay + 1 /
delay), the inelastic hold of the whole DelayPipeDeqCL while its last slot is occupied, enq.rdy = slot 0
empty after the cycle's advance, the delay-0 forms (DelayPipeDeqCL: one slot, enq before deq, same-cycle
bypass; DelayPipeSendCL: enq is send), Punctual, and StallCL's rdy = (one draw per evaluation > stall_prob)
and downstream rdy.  Statement-level clauses of the pipe part: order, content, nothing lost / duplicated
/ invented, not before t + delay, occupancy, and "no stall decisions explain the history".
A chain that cannot be constructed carries no request stream, so the statement says nothing about it;
an FL master in front of a latency-0 MagicMemoryCL is a combinational loop (the adapter answers in the
cycle of the response) which pymtl3 refuses to schedule: FL chains use latency >= 1.
"""
import collections
import copy
import json
import multiprocessing
import os
import re
import tempfile
import shutil
from concurrent.futures import ThreadPoolExecutor

import tlc
from common import MachineryError, rng

READY = True

NAMES = {0: "rd", 1: "wr", 3: "ad", 4: "an", 5: "or", 6: "sw", 7: "mi", 8: "mu", 9: "mx", 10: "xu",
         11: "xo", 14: "iv", 15: "fl"}
AMOS = list(range(3, 12))
EDGE = [0, 1, 2, 0x7f, 0x80, 0xff, 0x100, 0x7fff, 0x8000, 0xffff, 0x10000, 0x7fffffff, 0x80000000,
        0x80000001, 0xfffffffe, 0xffffffff, 0x00ff00ff, 0xff00ff00]
NEEDS_CONFIRMATION = "applied-without-accepted-request"
IMPL_NAMES = {
    "cl": "MagicMemoryCL", "rtl": "stream.MagicMemoryRTL",
    "fl2cl": "MagicMemoryCL behind MemIfcFL2CLAdapter (FL masters, MemMasterIfcFL.connect hook)",
    "cl2fl": "MagicMemoryFL behind MemIfcCL2FLAdapter (CL masters)",
    "cl2fl_hook": "MagicMemoryFL behind MemIfcCL2FLAdapter (CL masters, MemMinionIfcFL.connect hook)",
    "rtl2cl": "MagicMemoryCL behind RecvRTL2SendCL / RecvCL2SendRTL (en/rdy MemMasterIfcRTL ports, by-name connect hooks)",
    "fl2rtl2cl": "MagicMemoryCL behind MemIfcFL2RTLAdapter (FL masters -> en/rdy ports -> connect hooks)",
    "rtl2fl": "MagicMemoryFL behind MemIfcRTL2FLAdapter (en/rdy master ports, MemMinionIfcFL.connect hook)",
    "stream_fl": "stream.MagicMemoryRTL behind stream.fl.MemMasterAdapter (FL masters)",
    "stream_q": "stream.MagicMemoryRTL behind stream.fl.SendQueueAdapter / RecvQueueAdapter",
}


def _le(v, n=4):
    return [(v >> (8 * i)) & 255 for i in range(n)]


# ==============================================================================================
# 1. model checking
# ==============================================================================================

_MC_INVS = ["TypeOK", "Conservation", "ResponseOrder", "ProcessOrder", "SequentialImage",
            "ReadsSeeLatestStore", "AmoAtomic", "ResponsesFromHistory"]


def _mc_cfg(nports, w, maxreq, invs=True):
    s = ("SPECIFICATION MCSpec\nCONSTANTS NPorts = %d\n W = %d\n MaxReq = %d\n InitMem <- MCInit\n"
         " Menu <- MCMenu\nCHECK_DEADLOCK FALSE\n" % (nports, w, maxreq))
    if invs:
        s += "".join("INVARIANT %s\n" % i for i in _MC_INVS)
    return s


def _universe(w):
    """Requests over two overlapping words (offsets 0 and 2) with sub-word lengths."""
    u = []
    for a in (0, 2):
        u.append({"t": 0, "o": 0, "a": a, "n": 0, "d": [0, 0, 0, 0]})
        for t in AMOS:
            for d in (0x80000001, 0x7fffffff, 0x0001ffff, 0xffffffff):
                u.append({"t": t, "o": 0, "a": a, "n": 0, "d": _le(d)})
    for a in range(0, w):
        for n in (1, 2, 3):
            if a + n <= w and a <= 5:
                u.append({"t": 0, "o": 0, "a": a, "n": n, "d": [0, 0, 0, 0]})
                u.append({"t": 1, "o": 0, "a": a, "n": n, "d": [0xa0 + a, 0xb0 + n, 0xc0 + a, 0xdd]})
    for a in (0, 2):
        u.append({"t": 1, "o": 0, "a": a, "n": 0, "d": [0x11 + a, 0x22, 0x33, 0x80 + a]})
    u.append({"t": 14, "o": 0, "a": 0, "n": 0, "d": [0, 0, 0, 0]})
    return u


def _menus(R, w, m, k):
    """k pairs of per-port menus of m requests; every pair has a store and a load on both ports."""
    uni = _universe(w)
    loads = [r for r in uni if r["t"] == 0]
    stores = [r for r in uni if r["t"] in (1,) + tuple(AMOS)]
    out = []
    # a fixed hand-written pair first: straddling sub-word write vs word read, signed AMO vs add
    fixed = [[{"t": 1, "o": 0, "a": 0, "n": 0, "d": [1, 2, 3, 4]},
              {"t": 0, "o": 0, "a": 2, "n": 2, "d": [0, 0, 0, 0]},
              {"t": 3, "o": 0, "a": 2, "n": 0, "d": [255, 255, 0, 128]}][:m],
             [{"t": 1, "o": 0, "a": 3, "n": 1, "d": [9, 9, 9, 9]},
              {"t": 0, "o": 0, "a": 0, "n": 0, "d": [0, 0, 0, 0]},
              {"t": 7, "o": 0, "a": 0, "n": 0, "d": [0, 0, 0, 128]}][:m]]
    if m <= 3:
        out.append(fixed)
    while len(out) < k:
        pair = []
        for p in range(2):
            menu = [R.choice(stores), R.choice(loads)]
            while len(menu) < m:
                c = R.choice(uni)
                if c not in menu:
                    menu.append(c)
            pair.append(menu[:m])
        out.append(pair)
    return out


def _send_coverage(r):
    m = re.search(r"^<Send line \d+, col \d+ to line \d+, col \d+ of module MagicMem[^>]*>: (\d+):(\d+)",
                  r.out, re.M)
    return int(m.group(2)) if m else 0


def _model_check_compute(quick):
    """The TLC runs only (no access to the Result: runs in a background thread)."""
    R = rng("c18/mc")
    w = 8
    init = [R.randrange(256) for _ in range(w)]
    jobs = []   # (menus, maxreq, with TLC coverage statistics)
    if quick:
        # -coverage doubles the cost of a run: only one run per tier collects the per-action
        # statistics, every run is checked for vacuity by the depth of its state graph (see below)
        jobs += [(mn, 3, False) for mn in _menus(R, w, 2, 2)[1:]]     # [0] is the hand-written pair
        jobs += [(mn, 2, False) for mn in _menus(R, w, 5, 1)]
        jobs += [(mn, 2, True) for mn in _menus(R, w, 2, 1)]
    else:
        m3 = _menus(R, w, 3, 8)
        m4 = _menus(R, w, 4, 1)
        m7 = _menus(R, w, 7, 3)
        # the largest run (3.6 M states) first; action statistics from the hand-written menu pair
        jobs += [(mn, 3, False) for mn in m4]
        jobs += [(mn, 3, k == 0) for k, mn in enumerate(m3)]
        jobs += [(mn, 2, False) for mn in m7]
    tmp = tempfile.mkdtemp(prefix="c18mc_")
    ncpu = os.cpu_count() or 4
    par = min(len(jobs), max(1, ncpu // 3))

    def one(i):
        menus, maxreq, cov = jobs[i]
        fn = os.path.join(tmp, "mc_%d.json" % i)
        with open(fn, "w") as f:
            json.dump({"init": init, "menu": menus}, f)
        return tlc.run("MagicMemMC", cfg_text=_mc_cfg(2, w, maxreq), env={"VERIF_INPUT": fn},
                       coverage=cov, workers=max(2, min(4, ncpu // par)), timeout=3000, heap="2g")

    try:
        with ThreadPoolExecutor(max_workers=par) as ex:
            runs = list(ex.map(one, range(len(jobs))))
    finally:
        shutil.rmtree(tmp, ignore_errors=True)
    return jobs, runs


def _model_check_record(res, jobs, runs):
    ncov = 0
    for (menus, maxreq, cov), r in zip(jobs, runs):
        res.add_tlc(r)
        tag = "mc:maxreq=%d:%s" % (maxreq, "|".join(",".join("%s@%d/%d" % (NAMES[q["t"]], q["a"], q["n"])
                                                               for q in mn) for mn in menus))
        if r.violated:
            res.violation("model:%s:%s" % (sorted(set(r.violated)), tag),
                          "MagicMem.tla violates %s" % r.violated, r.out[-3000:])
            continue
        elif not r.ok:
            raise MachineryError("TLC failed on MagicMemMC: %s\n%s" % (r.errors, r.out[-2500:]))
        # not vacuous: the complete state graph has depth 3 * ports * MaxReq + 1 only if behaviours
        # with every request sent, processed and delivered were explored
        if r.depth != 3 * 2 * maxreq + 1:
            raise MachineryError("MagicMemMC explored depth %d, expected %d (vacuous?)" % (r.depth, 6 * maxreq + 1))
        if cov:
            ncov += 1
            for act in ("Process", "Deliver"):
                if r.coverage.get(act, (0, 0))[1] == 0:
                    raise MachineryError("action %s never taken in MagicMemMC (vacuous)" % act)
            if _send_coverage(r) == 0:
                raise MachineryError("action Send never taken in MagicMemMC (vacuous)")
        res.distinct(tag)
    if ncov == 0:
        raise MachineryError("no MagicMemMC run collected action coverage")
    res.note("model_check_bounds", "2 ports, window 8 bytes (words at 0 and 2 overlap), %s"
             % ", ".join("menu %d x <=%d req/port" % (len(j[0][0]), j[1]) for j in jobs))
    # model canary: a memory whose Process forgets sub-word lengths must violate SequentialImage --
    # checked on the trace level below (canaries); here: the invariants are not vacuous because the
    # history grows (Process coverage) and reads/AMOs occur in every menu.


# ==============================================================================================
# 2. spec -> code on MagicMemoryFL
# ==============================================================================================

def _s2c_inputs(quick):
    """Inputs of the TLC -simulate rounds (drawn up front so that the rounds can run side by side)."""
    R = rng("c18/s2c")
    w = 12
    uni = []
    for a in range(0, w - 3):
        for t in AMOS:
            uni.append({"t": t, "o": 0, "a": a, "n": 0, "d": _le(R.choice(EDGE))})
            uni.append({"t": t, "o": 0, "a": a, "n": 0, "d": _le(R.getrandbits(32))})
        uni.append({"t": 0, "o": 0, "a": a, "n": 0, "d": [0] * 4})
        uni.append({"t": 1, "o": 0, "a": a, "n": 0, "d": _le(R.getrandbits(32))})
    for a in range(0, w):
        for n in (1, 2, 3):
            if a + n <= w:
                uni.append({"t": 0, "o": 0, "a": a, "n": n, "d": [0] * 4})
                uni.append({"t": 1, "o": 0, "a": a, "n": n, "d": _le(R.getrandbits(32))})
    rounds, num = (4, 30) if quick else (16, 75)
    out = []
    for k in range(rounds):
        init = [R.randrange(256) for _ in range(w)]
        menus = [R.sample(uni, 14) for _ in range(2)]
        out.append({"w": w, "init": init, "menus": menus, "num": num, "sd": R.randrange(1 << 30)})
    return out


def _s2c_simulate(inp):
    """One TLC -simulate round (runs in a worker process) -> (TLCRun, behaviours)."""
    with tempfile.TemporaryDirectory(prefix="c18s2c_") as td:
        fn = os.path.join(td, "in.json")
        with open(fn, "w") as f:
            json.dump({"init": inp["init"], "menu": inp["menus"]}, f)
        r, behs = tlc.simulate_traces("MagicMemMC", cfg_text=_mc_cfg(2, inp["w"], 6, invs=False),
                                      env={"VERIF_INPUT": fn}, num=inp["num"], depth=40, sd=inp["sd"])
    # only what the replay needs crosses the process boundary: per behaviour the successive
    # (history entry, image) pairs
    w = inp["w"]
    slim = []
    for beh in behs:
        steps = []
        nh = 0
        for (_name, _args, st) in beh:
            h = st["hist"]
            if len(h) == nh:
                continue
            if len(h) != nh + 1:
                return r, None
            nh = len(h)
            e = h[-1]
            steps.append(({"t": e["req"]["t"], "a": e["req"]["a"], "n": e["req"]["n"], "d": list(e["req"]["d"])},
                          list(e["data"]), [st["mem"][i] for i in range(w)]))
        slim.append(steps)
    r.out = r.out[-3000:]
    return r, slim


def _spec_to_code(res, quick, inputs, sims):
    import c18_drv as D
    from pymtl3 import Bits32, zext
    from pymtl3.stdlib.mem.MagicMemoryFL import MagicMemoryFL
    nb = 0
    nsteps = 0
    kinds = collections.Counter()
    for inp, (r, behs) in zip(inputs, sims):
        init, w = inp["init"], inp["w"]
        if behs is None:
            raise MachineryError("simulated behaviour skips a Process step")
        if not behs:
            raise MachineryError("TLC -simulate produced no behaviours for MagicMemMC\n%s" % r.out[-2000:])
        res.add_tlc(r)
        for beh in behs:
            fl = MagicMemoryFL(D.MEM_NBYTES)
            fl.elaborate()
            fl.write_mem(D.BASE, bytearray(init))
            nb += 1
            hist = []
            for (q, edata, exp_img) in beh:
                hist.append(q)
                n = 4 if q["n"] == 0 else q["n"]
                addr = Bits32(D.BASE + q["a"])
                data = Bits32(D.from_le(q["d"]))
                if q["t"] == 0:
                    got = D.le_bytes(zext(fl.read(addr, n), 32), n)
                elif q["t"] == 1:
                    fl.write(addr, n, data[0:n << 3])
                    got = []
                elif q["t"] in AMOS:
                    got = D.le_bytes(fl.amo(q["t"], addr, n, data), 4)
                else:
                    got = []
                img = list(fl.read_mem(D.BASE, w))
                nsteps += 1
                kinds[NAMES[q["t"]]] += 1
                res.add_evals()
                if list(edata) != got or img != exp_img:
                    res.violation("fl-replay:%s:%s" % (NAMES[q["t"]], "returned-data" if list(edata) != got else "image"),
                                  "MagicMemoryFL %s at offset %d len %d data %s: model expects returned %s image %s, "
                                  "implementation returned %s image %s"
                                  % (NAMES[q["t"]], q["a"], q["n"], q["d"], list(edata), exp_img, got, img),
                                  {"init": init, "hist": [str(x) for x in hist]})
                    break     # the images have diverged: later steps of this behaviour say nothing new
    if nsteps == 0 or len([k for k in kinds if k in ("ad", "mi", "mu", "mx", "xu")]) < 5:
        raise MachineryError("spec->code replay did not reach the arithmetic AMOs: %s" % dict(kinds))
    res.note("spec_to_code_process_steps_replayed", nsteps)
    res.note("spec_to_code_behaviours", nb)
    res.note("spec_to_code_kinds", dict(kinds))
    # replay canary: the comparison must notice a wrong byte
    fl = MagicMemoryFL(D.MEM_NBYTES)
    fl.elaborate()
    fl.write(Bits32(D.BASE), 2, Bits32(0x1234)[0:16])
    if list(fl.read_mem(D.BASE, 4)) != [0x34, 0x12, 0, 0]:
        raise MachineryError("replay canary: little-endian sub-word write not observed as expected")


# ==============================================================================================
# 3. code -> spec: stream and timing generation
# ==============================================================================================

def _gen_streams(R, nports, maxlen, w, regions=None, inv=True, profile=None):
    """Per port a list of request dicts.  regions: per port (lo, hi) byte range (race-free streams),
    default the whole window."""
    profile = profile or R.choice(["mix", "mix", "subword", "amo", "amo1", "rw"])
    hot = [R.randrange(0, w - 3) for _ in range(2)]
    streams = []
    for p in range(nports):
        lo, hi = regions[p] if regions else (0, w)
        n = R.randint(max(1, maxlen // 3), maxlen)
        o0 = R.randrange(256)
        st = []
        for i in range(n):
            x = R.random()
            if profile == "amo":
                kind = "amo" if x < .6 else ("rd" if x < .8 else "wr")
            elif profile == "amo1":
                kind = "amo" if x < .8 else "rd"
            elif profile == "subword":
                kind = "rd" if x < .5 else "wr"
            elif profile == "rw":
                kind = "rd" if x < .45 else ("wr" if x < .9 else "amo")
            else:
                kind = "rd" if x < .35 else ("wr" if x < .68 else ("amo" if x < .93 else "nop"))
            if kind == "nop" and not inv:
                kind = "rd"
            if kind == "amo":
                nb, nf = 4, 0
            elif kind == "nop":
                nb, nf = 1, 0
            else:
                nb = R.choice([1, 2, 3, 4, 4]) if profile != "subword" else R.choice([1, 2, 3])
                nf = nb % 4
            if hi - lo < nb:
                nb, nf = 1, 1
                kind = "rd" if kind == "amo" else kind
            if profile == "amo1" and kind == "amo":
                a = min(max(lo, hot[0]), hi - nb)
            elif R.random() < .6:
                a = min(max(lo, R.choice(hot) + R.randint(-3, 3)), hi - nb)
            else:
                a = R.randrange(lo, hi - nb + 1)
            if kind == "rd":
                t, d = 0, (0 if R.random() < .7 else R.getrandbits(32))
            elif kind == "wr":
                t, d = 1, (R.getrandbits(32) | 0x01010101 if R.random() < .8 else R.choice(EDGE))
            elif kind == "amo":
                t = R.choice(AMOS)
                d = R.choice(EDGE) if R.random() < .6 else R.getrandbits(32)
            else:
                t, d, a = R.choice([14, 15]), 0, 0
            st.append({"t": t, "o": (o0 + i) % 256, "a": a, "n": nf, "d": d})
        streams.append(st)
    return streams, profile


def _delays(R, n, allow_zero=True):
    mode = R.choice(["zero", "small", "small", "burst", "slow"]) if allow_zero else R.choice(["small", "burst", "slow"])
    if mode == "zero":
        return [0] * (n + 1)
    if mode == "small":
        return [R.randint(0, 3) for _ in range(n + 1)]
    if mode == "burst":
        return [R.choice([0, 0, 0, R.randint(5, 12)]) for _ in range(n + 1)]
    return [R.randint(2, 7) for _ in range(n + 1)]


def _timing(R, impl, streams, force=None):
    np_ = len(streams)
    cfg = {"src_delays": [_delays(R, len(s)) for s in streams],
           "sink_delays": [_delays(R, len(s)) for s in streams]}
    if impl == "cl":
        cfg["latency"] = R.randint(1, 6)
        cfg["stall_prob"] = R.choice([0, 0.3, 0.7])
    else:
        cfg["extra_latency"] = R.randint(0, 4)
        cfg["stall_prob"] = R.choice([0, 0.3, 0.5, 0.7])
    if force:
        cfg.update(force)
    return cfg


def _job(j):
    """Runs in a worker process: build + simulate one configuration, return the trace."""
    import c18_drv as D
    try:
        if j["impl"] in ("cl", "rtl"):
            f = D.run_cl if j["impl"] == "cl" else D.run_rtl
            t = f(j["streams"], j["cfg"], j["W"], j["init"])
        else:                   # an adapter chain (c18_adp.CHAINS)
            import c18_adp as A
            import random as _random
            import zlib
            _random.seed(zlib.crc32(j["tag"].encode()))      # pymtl3's scheduler breaks ties with the global module
            t = A.run_chain(j["impl"], j["streams"], j["cfg"], j["W"], j["init"])
            if "exc" in t or "noconstruct" in t:
                t["job"] = j
                return t
    except Exception as ex:     # an exception inside the simulated design is reported, not swallowed
        import traceback
        return {"exc": "%s: %s" % (type(ex).__name__, ex), "tb": traceback.format_exc()[-1500:], "job": j}
    t["mode"] = "lin"
    t["tol"] = "none"
    t["job"] = j
    return t


_POOL = None      # worker processes of this run (forked in run() before any thread is started)


def _run_jobs(jobs):
    if not jobs:
        return []
    return _POOL.map(_job, jobs, chunksize=max(1, len(jobs) // (8 * (os.cpu_count() or 4))))


# ==============================================================================================
# validation protocol (several verdicts per trace: accepted iff some branch says ok)
# ==============================================================================================

_TRACE_KEYS = ("np", "W", "init", "ev", "final", "mode", "tol")


def _validate(res, traces, chunk=None, timeout=3000):
    """-> list of (err, pos) per trace; ("ok", _) iff some branch of the trace spec accepts."""
    n = len(traces)
    if n == 0:
        return []
    ncpu = min(os.cpu_count() or 4, 16)
    if chunk is None:
        chunk = max(20, min(300, (n + ncpu - 1) // ncpu))
    chunks = [(i, traces[i:i + chunk]) for i in range(0, n, chunk)]
    tmp = tempfile.mkdtemp(prefix="c18tr_")
    out = [None] * n

    def one(ci):
        base, trs = chunks[ci]
        fn = os.path.join(tmp, "in_%d.json" % ci)
        with open(fn, "w") as f:
            json.dump({"traces": [{k: t[k] for k in _TRACE_KEYS} for t in trs]}, f)
        r = tlc.run("MagicMemTrace", env={"VERIF_INPUT": fn}, workers=1, timeout=timeout, deadlock=False,
                    heap="1g")
        return base, len(trs), r

    try:
        with ThreadPoolExecutor(max_workers=ncpu) as ex:
            for base, cnt, r in ex.map(one, range(len(chunks))):
                res.add_tlc(r)
                if r.errors or r.violated or not r.ok:
                    raise MachineryError("trace spec MagicMemTrace failed: %s %s\n%s" % (r.errors, r.violated, r.out[-3000:]))
                per = collections.defaultdict(list)
                for v in r.prints:
                    if v and v[0] == "V":
                        per[v[1] - 1].append((v[2], v[3], v[4]))
                for k in range(cnt):
                    t = traces[base + k]
                    vs = per.get(k, [])
                    if any(v[0] == "ok" for v in vs):
                        out[base + k] = ("ok", len(t["ev"]) + 2)
                    elif t["mode"] == "inf":
                        out[base + k] = ("no-processing-order-explains-responses-and-image", 0)
                    elif not vs:
                        raise MachineryError("no verdict for trace %d of MagicMemTrace\n%s" % (base + k, r.out[-2000:]))
                    else:
                        # the branch that always served a matching request (ph = 0), deepest failure
                        e = sorted(vs, key=lambda v: (v[2], -v[1]))[0]
                        out[base + k] = (e[0], e[1])
        for (err, _pos) in out:
            if err.startswith("bad-trace") or err == "unknown-event":
                raise MachineryError("the harness wrote a malformed trace: %s" % err)
        return out
    finally:
        shutil.rmtree(tmp, ignore_errors=True)


def _strip(t, tol="none", offers=True):
    """The trace for the inferred-order mode: no Process events (TLC looks for a processing order).

    offers=True (stream memory): a request counts as sent from the first cycle it is presented (val),
    not from its handshake (val & rdy).  The statement does not tie the processing point to the
    handshake, so a memory that evaluates a presented request ONCE somewhere between offer and
    acceptance is admitted; the model still applies every request exactly once and answers it
    exactly once, so a request applied twice with a visible effect, or applied and never answered,
    has no explaining order.  (MagicMemoryRTL processes at the handshake, which lies in that
    interval.)  offers=False: sent at the handshake -- the stronger reading, which a memory that
    processes at the handshake must satisfy as well."""
    c = dict(t)
    if offers and "ev_inf" in t:
        c["ev"] = t["ev_inf"]
    else:
        c["ev"] = [e for e in t["ev"] if e["k"] != "proc"]
    c["mode"] = "inf"
    c["tol"] = tol
    return c


def _opclass(t, pos):
    ev = t["ev"]
    if 1 <= pos <= len(ev):
        e = ev[pos - 1]
        if e["k"] == "proc":
            return "amo" if e["op"] == "amo" else e["op"]
        if e["k"] == "dlv":
            x = NAMES.get(e["t"], "t%d" % e["t"])
            return "amo" if e["t"] in AMOS else x
        return e["k"]
    return "end"


def _describe(t):
    j = t["job"]
    return {"impl": j["impl"], "cfg": j["cfg"], "W": j["W"], "init": j["init"],
            "streams": [[dict(r, name=NAMES[r["t"]]) for r in s] for s in j["streams"]]}


def _judge(res, traces, label):
    """Linear validation; confirmation in inferred mode where the clause asks for it; tolerant
    re-validation behind a confirmed violation.  Returns the list of accepted traces."""
    verdicts = _validate(res, traces)
    res.add_traces(len(traces))
    good, need = [], []
    for t, (err, pos) in zip(traces, verdicts):
        t["verdict"] = err
        if err == "ok":
            good.append(t)
        elif err == NEEDS_CONFIRMATION:
            need.append((t, pos))
        else:
            _report(res, t, err, pos)
    # confirmation: is there ANY processing order of the accepted requests explaining the run?
    confirmed = []
    if need:
        percls = collections.Counter()
        todo = []
        for t, pos in need:
            k = (t["job"]["impl"], _opclass(t, pos))
            percls[k] += 1
            if percls[k] <= 30:
                todo.append((t, pos))
            else:
                res.count("unaccepted_request_applied_not_individually_confirmed")
        iv = _validate(res, [_strip(t) for t, _ in todo], chunk=8)
        for (t, pos), (err, _p) in zip(todo, iv):
            if err == "ok":
                res.count("unaccepted_request_applied_but_observably_sequential")
                t["verdict"] = "ok-observably"
                good.append(t)
            else:
                confirmed.append((t, pos))
    # a confirmed run is keyed by what was re-applied: an AMO if one is (tolerating the writes),
    # else the write; afterwards everything is tolerated to look for independent failures
    for t, pos, wv in zip([c[0] for c in confirmed], [c[1] for c in confirmed],
                          _validate(res, [dict(c[0], tol="wr") for c in confirmed])):
        if wv[0] == NEEDS_CONFIRMATION:
            pos = wv[1]
        _report(res, t, NEEDS_CONFIRMATION, pos)
    if confirmed:
        tv = _validate(res, [dict(c[0], tol="all") for c in confirmed])
        for (t, _pos), (err, pos) in zip(confirmed, tv):
            if err != "ok":
                _report(res, t, err, pos, suffix=":behind-unaccepted-application")
    res.count("traces_" + label, len(traces))
    return good


def _report(res, t, err, pos, suffix=""):
    j = t["job"]
    op = _opclass(t, pos)
    e = t["ev"][pos - 1] if 1 <= pos <= len(t["ev"]) else None
    expl = ""
    if err == NEEDS_CONFIRMATION:
        expl = (" (the memory applied a request that no port had handed over at that point -- e.g. one that "
                "is offered but not accepted, or one already applied -- and no order of applying every request "
                "once explains the responses and the final image)")
    res.violation("%s:%s:%s%s" % (j["impl"], err, op, suffix),
                  "Magic memory %s (%d ports, %s): %s at event %d %s%s"
                  % (IMPL_NAMES.get(j["impl"], j["impl"]), t["np"],
                     {k: v for k, v in j["cfg"].items() if not k.endswith("delays")}, err, pos, e, expl),
                  {"clause": err, "event_index": pos, "event": e, "run": _describe(t),
                   "events": t["ev"][:400], "final": t["final"]})


# ==============================================================================================
# 3/4/5. the runs
# ==============================================================================================

def _mk_job(impl, streams, cfg, w, init, tag):
    return {"impl": impl, "streams": streams, "cfg": cfg, "W": w, "init": init, "tag": tag}


def _post(res, traces):
    """Harness-level checks on raw results; returns the usable traces."""
    ok = []
    for t in traces:
        j = t["job"]
        if "exc" in t:
            res.violation("%s:exception:%s%s" % (j["impl"], t["exc"].split(":")[0],
                                                 ":" + t["pending"] if "pending" in t else ""),
                          "simulating %s raised %s%s" % (IMPL_NAMES.get(j["impl"], j["impl"]), t["exc"],
                                                         " (oldest unanswered request: %s)" % t["pending"] if "pending" in t else ""),
                          {"run": {"impl": j["impl"], "cfg": j["cfg"], "streams": j["streams"]}, "tb": t["tb"]})
            continue
        if t["hung"]:
            res.violation("%s:responses-missing-after-%d-cycles" % (j["impl"], t["cycles"]),
                          "not every request was answered", {"run": _describe(t), "events": t["ev"][-50:]})
            continue
        if not t["rest_clean"]:
            res.violation("%s:memory-outside-accessed-window-changed" % j["impl"],
                          "bytes outside the window the requests address were modified", {"run": _describe(t)})
        ok.append(t)
    return ok


def _code_to_spec(res, quick):
    R = rng("c18/runs")
    jobs = []
    n_cl, n_rtl = (220, 140) if quick else (6000, 3500)
    maxlen_cl, maxlen_rtl = (12, 9) if quick else (22, 12)
    for k in range(n_cl):
        np_ = R.choice([1, 2, 2, 3, 3])
        w = 16
        streams, prof = _gen_streams(R, np_, maxlen_cl, w)
        cfg = _timing(R, "cl", streams)
        jobs.append(_mk_job("cl", streams, cfg, w, [R.randrange(256) for _ in range(w)], "cl/%d/%s" % (k, prof)))
    for k in range(n_rtl):
        np_ = R.choice([1, 2, 2, 3])
        w = 16
        streams, prof = _gen_streams(R, np_, maxlen_rtl, w, inv=False)
        cfg = _timing(R, "rtl", streams)
        if k % 3 == 0:   # a sink that never stalls: the response pipe never pushes back on requests
            cfg["sink_delays"] = [[0] * (len(s) + 1) for s in streams]
        jobs.append(_mk_job("rtl", streams, cfg, w, [R.randrange(256) for _ in range(w)], "rtl/%d/%s" % (k, prof)))
    traces = _post(res, _run_jobs(jobs))
    nev = sum(len(t["ev"]) for t in traces)
    res.add_evals(nev)
    cov = collections.Counter()
    for j in jobs:
        c = j["cfg"]
        res.distinct((j["impl"], len(j["streams"]), c.get("latency", c.get("extra_latency")), c["stall_prob"],
                      json.dumps(j["streams"], sort_keys=True)))
        cov[(j["impl"], "ports", len(j["streams"]))] += 1
        cov[(j["impl"], "lat", c.get("latency", c.get("extra_latency")))] += 1
        cov[(j["impl"], "stall", c["stall_prob"])] += 1
        for s in j["streams"]:
            for q in s:
                cov[(j["impl"], "type", NAMES[q["t"]])] += 1
    need = ([("cl", "ports", n) for n in (1, 2, 3)] + [("cl", "lat", n) for n in range(1, 7)] +
            [("cl", "stall", x) for x in (0, .3, .7)] + [("rtl", "lat", n) for n in range(0, 5)] +
            [("cl", "type", NAMES[t]) for t in NAMES] + [("rtl", "type", NAMES[t]) for t in NAMES if t < 14])
    miss = [x for x in need if cov[x] == 0]
    if miss:
        raise MachineryError("generator never produced %s" % miss)
    res.note("run_coverage", {"%s/%s/%s" % k: v for k, v in sorted(cov.items(), key=str)})
    if traces:
        t = traces[0]
        res.sample({"kind": "impl trace (first 12 events)", "impl": t["job"]["impl"], "cfg":
                    {k: v for k, v in t["job"]["cfg"].items() if not k.endswith("delays")},
                    "events": t["ev"][:12], "final": t["final"]})
    good = _judge(res, traces, "code_to_spec")
    res.note("events_validated", nev)
    return good


def _inferred(res, good, quick):
    """Second mode: Process events dropped, TLC infers an order (subset)."""
    R = rng("c18/inf")
    cand = [t for t in good if t["verdict"] == "ok" and len(t["ev"]) <= (70 if quick else 110)]
    R.shuffle(cand)
    sub = cand[:40 if quick else 500]
    if not sub:
        if res.violations:      # nothing was accepted: the violations already reported say why
            res.note("traces_validated_with_inferred_process_order", 0)
            return []
        raise MachineryError("no accepted trace small enough for the inferred-order mode")
    # every second run with "sent at the handshake" (a run accepted with the logged order has its
    # Process events behind the handshakes, so both readings must find an order)
    iv = _validate(res, [_strip(t, offers=(k % 2 == 0)) for k, t in enumerate(sub)], chunk=6)
    for t, (err, pos) in zip(sub, iv):
        if err != "ok":
            # accepted with the logged order but no order found without it: the two modes disagree
            raise MachineryError("inferred-order mode rejects a run accepted in linear mode: %s" % t["job"]["tag"])
    res.note("traces_validated_with_inferred_process_order", len(sub))
    res.add_traces(len(sub))
    return sub


def _timing_independence(res, quick):
    """Same race-free request streams under several timing configurations and both memories."""
    R = rng("c18/timing")
    ngroups, ncfg = (14, 3) if quick else (250, 5)
    jobs = []
    groups = []
    for g in range(ngroups):
        np_ = R.choice([1, 2, 3])
        racefree = g % 4 != 3
        w = 8 * np_ if racefree else 16
        regions = [(8 * p, 8 * p + 8) for p in range(np_)] if racefree else None
        streams, prof = _gen_streams(R, np_, 10 if quick else 14, w, regions=regions, inv=False)
        init = [R.randrange(256) for _ in range(w)]
        members = []
        for c in range(ncfg):
            for impl in ("cl", "rtl"):
                cfg = _timing(R, impl, streams)
                if impl == "rtl" and c == 0:
                    cfg["sink_delays"] = [[0] * (len(s) + 1) for s in streams]
                members.append(len(jobs))
                jobs.append(_mk_job(impl, streams, cfg, w, init, "timing/%d/%d/%s" % (g, c, impl)))
        groups.append((racefree, members))
    raw = _run_jobs(jobs)
    usable = _post(res, raw)
    res.add_evals(sum(len(t["ev"]) for t in usable))
    _judge(res, usable, "timing")

    def contents(t):
        per = collections.defaultdict(list)
        for e in t["ev"]:
            if e["k"] == "dlv":
                nb = 0 if e["t"] == 1 else (4 if (e["t"] in AMOS or e["n"] == 0) else e["n"])
                per[e["p"]].append((e["t"], e["o"], tuple(e["d"][:nb])))
        return (tuple(tuple(per[p]) for p in range(t["np"])), tuple(t["final"]))

    same = differ_racy = skipped = 0
    outcomes = []
    for racefree, members in groups:
        ms = [raw[i] for i in members]
        acc = [t for t in ms if t.get("verdict", "").startswith("ok")]
        if len(acc) < len(ms):
            skipped += 1           # a member was rejected by the spec: already reported above
        cs = {contents(t) for t in acc}
        outcomes.append(len(cs))
        if racefree:
            if len(cs) > 1:
                raise MachineryError("race-free streams validated by the spec under every timing "
                                     "configuration nevertheless differ in contents: %s" % ms[0]["job"]["tag"])
            same += 1
        elif len(cs) > 1:
            differ_racy += 1
    res.note("timing_independence", {
        "groups": ngroups, "timing_configs_per_group": 2 * ncfg, "race_free_groups_identical_contents": same,
        "racy_groups_with_several_legal_outcomes": differ_racy,
        "groups_with_a_member_rejected_by_the_spec": skipped})


# ==============================================================================================
# 6. the memories behind the interface adapters
# ==============================================================================================

# chains that can be built on the pinned tree: failing to build one of them is a violation
_REQUIRED_CHAINS = ("fl2cl", "cl2fl", "rtl2cl", "stream_fl", "stream_q")
# chains whose adapter / connect hook cannot be constructed on the pinned tree (no request ever
# flows, so the statement says nothing about them): built on every run, checked like the others as
# soon as they can be built, recorded in the evidence otherwise
_PROBED_CHAINS = ("cl2fl_hook", "fl2rtl2cl", "rtl2fl")


def _whole_word_reads(streams, regions, w):
    """the same streams with every sub-word read widened to the word (kept inside the port's region)"""
    out = []
    for p, st in enumerate(streams):
        lo, hi = regions[p] if regions else (0, w)
        out.append([dict(r, n=0, a=max(lo, min(r["a"], hi - 4))) if (r["t"] == 0 and r["n"] != 0) else r for r in st])
    return out


def _adapters(res, quick):
    """FL / CL / RTL masters connected to the memories through the interface adapters: every run is
    validated by MagicMemTrace (the processing order is logged); race-free streams must give the
    contents of the direct connection."""
    import c18_adp as A
    R = rng("c18/adapters")
    ngroups = 12 if quick else 180
    chains = _REQUIRED_CHAINS + _PROBED_CHAINS
    jobs, groups = [], []
    for g in range(ngroups):
        np_ = R.choice([1, 2, 2, 3])
        racefree = g % 4 != 3
        w = 8 * np_ if racefree else 16
        regions = [(8 * p, 8 * p + 8) for p in range(np_)] if racefree else None
        streams, prof = _gen_streams(R, np_, 8 if quick else 12, w, regions=regions, inv=False)
        if g % 3 == 1:
            streams = _whole_word_reads(streams, regions, w)
        init = [R.randrange(256) for _ in range(w)]
        members = []
        for impl in ("cl",) + chains:
            base = "rtl" if impl.startswith("stream") else "cl"
            cfg = _timing(R, base, streams)
            if base == "cl":
                # latency 0 (bypass pipes) as well -- except behind an FL master, whose adapter answers in
                # the cycle of the response (M(read) > M(resp)): with a 0-cycle memory that is a
                # combinational loop, which pymtl3 refuses to schedule
                cfg["latency"] = R.randint(1 if impl in A.FL_CHAINS else 0, 5)
            members.append(len(jobs))
            jobs.append(_mk_job(impl, streams, cfg, w, init, "adp/%d/%s/%s" % (g, impl, prof)))
        groups.append((racefree, members))
    raw = _run_jobs(jobs)
    # chains that cannot be constructed
    nocon = collections.defaultdict(collections.Counter)
    built = collections.Counter()
    for t in raw:
        impl = t["job"]["impl"]
        if "noconstruct" in t:
            nocon[impl][t["noconstruct"].split(":")[0]] += 1
            if impl in _REQUIRED_CHAINS or impl == "cl":
                res.violation("%s:not-constructible:%s" % (impl, t["noconstruct"].split(":")[0]),
                              "%s cannot be built / elaborated / scheduled: %s" % (IMPL_NAMES[impl], t["noconstruct"]),
                              {"run": {"impl": impl, "cfg": t["job"]["cfg"], "streams": t["job"]["streams"]}})
        else:
            built[impl] += 1
            if "inserted" in t and "exc" not in t:
                res.note("adapters_inserted_" + impl, sorted(set(t["inserted"])))
    for impl in _PROBED_CHAINS:
        if nocon[impl] and built[impl]:
            raise MachineryError("chain %s is built in some runs and not in others: %s" % (impl, dict(nocon[impl])))
    res.note("adapter_chains_not_constructible_on_this_tree",
             {impl: {"what": IMPL_NAMES[impl], "raises": dict(nocon[impl])} for impl in _PROBED_CHAINS if nocon[impl]})
    res.note("adapter_chains_driven", {impl: built[impl] for impl in ("cl",) + chains if built[impl]})
    usable = _post(res, [t for t in raw if "noconstruct" not in t])
    res.add_evals(sum(len(t["ev"]) for t in usable))
    for t in usable:
        j = t["job"]
        res.distinct((j["impl"], len(j["streams"]), j["cfg"].get("latency", j["cfg"].get("extra_latency")),
                      j["cfg"]["stall_prob"], json.dumps(j["streams"], sort_keys=True)))
    good = _judge(res, usable, "adapters")

    # transparency: the contents (type, requested bytes; the opaque field where the master sees it)
    # and the final image of race-free streams equal those of the direct connection
    def contents(t, with_opaque):
        per = collections.defaultdict(list)
        for e in t["ev"]:
            if e["k"] == "dlv":
                nb = 0 if e["t"] == 1 else (4 if (e["t"] in AMOS or e["n"] == 0) else e["n"])
                per[e["p"]].append((e["t"], e["o"] if with_opaque else 0, tuple(e["d"][:nb])))
        return (tuple(tuple(per[p]) for p in range(t["np"])), tuple(t["final"]))

    compared = 0
    for racefree, members in groups:
        ms = [raw[i] for i in members]
        ref = ms[0]
        if not racefree or not ref.get("verdict", "").startswith("ok"):
            continue
        for t in ms[1:]:
            if not t.get("verdict", "").startswith("ok"):
                continue
            op = t["job"]["impl"] not in A.FL_CHAINS
            compared += 1
            if contents(t, op) != contents(ref, op):
                raise MachineryError("race-free streams validated by the spec differ between the direct connection "
                                     "and %s: %s" % (t["job"]["impl"], t["job"]["tag"]))
    # the same runs with the Process events dropped: an order must be found (subset)
    sub = [t for t in good if t["job"]["impl"] != "cl" and t["verdict"] == "ok" and len(t["ev"]) <= 70]
    R.shuffle(sub)
    sub = sub[:24 if quick else 300]
    for t, (err, _p) in zip(sub, _validate(res, [_strip(t, offers=False) for t in sub], chunk=6)):
        if err != "ok":
            raise MachineryError("inferred-order mode rejects an adapter run accepted in linear mode: %s" % t["job"]["tag"])
    res.add_traces(len(sub))
    # canaries on the adapter runs: the previous response returned again, a response taken from the
    # other port, a memory call lost, a wrong final byte
    can, kinds = [], collections.Counter()
    for t in good:
        if t["job"]["impl"] == "cl" or t["verdict"] != "ok":
            continue
        ev = t["ev"]
        rd = [i for i, e in enumerate(ev) if e["k"] == "dlv" and e["t"] == 0]
        c = None
        if kinds["previous-response"] <= min(kinds["lost-call"], kinds["final"]):
            for a, b in zip(rd, rd[1:]):
                nb = 4 if ev[b]["n"] == 0 else ev[b]["n"]
                if ev[a]["p"] == ev[b]["p"] and ev[a]["d"][:nb] != ev[b]["d"][:nb]:
                    c = copy.deepcopy(t)
                    c["ev"][b]["d"] = list(ev[a]["d"])
                    kinds["previous-response"] += 1
                    break
        if c is None and kinds["lost-call"] <= kinds["final"]:
            pr = [i for i, e in enumerate(ev) if e["k"] == "proc" and e["op"] != "rd"]
            if pr:
                c = copy.deepcopy(t)
                del c["ev"][pr[-1]]
                kinds["lost-call"] += 1
        if c is None:
            c = copy.deepcopy(t)
            c["final"][R.randrange(len(c["final"]))] ^= 0x10
            kinds["final"] += 1
        can.append(c)
        if len(can) >= 30:
            break
    if can:
        cv = _validate(res, can)
        if any(v[0] == "ok" for v in cv):
            raise MachineryError("corrupted adapter runs accepted by MagicMemTrace")
    if (len(kinds) < 3 or not sub) and not res.violations:
        raise MachineryError("adapter canaries / inferred subset could not be built: %s, %d" % (dict(kinds), len(sub)))
    res.note("adapters", {"groups": ngroups, "race_free_runs_compared_with_direct_connection": compared,
                          "validated_again_with_inferred_process_order": len(sub), "canaries_rejected": dict(kinds)})
    for t in good:
        if t["job"]["impl"] == "fl2cl":
            res.sample({"kind": "adapter run (first 9 events)", "impl": IMPL_NAMES["fl2cl"], "events": t["ev"][:9]})
            break



def _synthetic_canaries(res):
    """Hand-written histories of one port and one amo.add (memory word 5 -> 6): what the statement
    admits must be accepted, each shape of mis-processing must be rejected with its clause.  The
    shapes are those of a memory that evaluates a request while its handshake is stalled."""
    w = 8
    init = [5, 0, 0, 0, 0, 0, 0, 0]
    req = {"p": 0, "t": 3, "o": 0x5a, "a": 0, "n": 0, "d": [1, 0, 0, 0]}
    send = dict(req, k="send")

    def proc(old):
        return {"k": "proc", "op": "amo", "t": 3, "a": 0, "nb": 4, "d": [1, 0, 0, 0], "r": [old, 0, 0, 0],
                "w": [old + 1, 0, 0, 0]}

    def dlv(old):
        return {"k": "dlv", "p": 0, "t": 3, "o": 0x5a, "n": 0, "d": [old, 0, 0, 0]}

    def tr(ev, fin, mode):
        if mode == "inf":
            ev = [e for e in ev if e["k"] != "proc"]
        return {"np": 1, "W": w, "init": init, "ev": ev, "final": [fin] + [0] * (w - 1), "mode": mode, "tol": "none"}

    cases = [
        # (name, events, final byte 0, expected linear verdict, expected inferred verdict)
        ("applied-once-at-the-handshake", [send, proc(5), dlv(5)], 6, "ok", "ok"),
        # evaluated in the stalled cycle, applied again when accepted: the response carries the second call
        ("applied-twice-response-of-second-call", [proc(5), send, proc(6), dlv(6)], 7, NEEDS_CONFIRMATION, "rej"),
        # the same with a response that hides it: the image still shows two additions
        ("applied-twice-response-of-first-call", [send, proc(5), proc(6), dlv(5)], 7, NEEDS_CONFIRMATION, "rej"),
        ("applied-and-never-answered", [send, proc(5)], 6, "requests-left-unanswered", "rej"),
        ("answered-and-never-applied", [send, dlv(5)], 5, "response-without-processed-request", "rej"),
        ("response-is-the-new-value", [send, proc(5), dlv(6)], 6, "amo-response-not-old-value", "rej"),
    ]
    lin = _validate(res, [tr(ev, fin, "lin") for (_n, ev, fin, _l, _i) in cases], chunk=len(cases))
    inf = _validate(res, [tr(ev, fin, "inf") for (_n, ev, fin, _l, _i) in cases], chunk=len(cases))
    for (name, _ev, _fin, el, ei), lv, iv in zip(cases, lin, inf):
        if lv[0] != el:
            raise MachineryError("synthetic history %s: linear mode says %s, expected %s" % (name, lv[0], el))
        if (iv[0] == "ok") != (ei == "ok"):
            raise MachineryError("synthetic history %s: inferred mode says %s, expected %s" % (name, iv[0], ei))
    return [c[0] for c in cases]


def _canaries(res, good):
    """Corrupted copies of accepted traces must be rejected."""
    R = rng("c18/canary")
    lin, exp, inf = [], [], []
    pool = [t for t in good if t["verdict"] == "ok"]
    R.shuffle(pool)

    def dl(t, p=None, pred=lambda e: True):
        return [i for i, e in enumerate(t["ev"]) if e["k"] == "dlv" and (p is None or e["p"] == p) and pred(e)]

    kinds = collections.Counter()
    for t in pool:
        if min(kinds.values(), default=0) >= 6 and len(kinds) >= 6:
            break
        c = copy.deepcopy(t)
        ev = c["ev"]
        # (a) swap two consecutive responses of one port
        if kinds["swap"] < 8:
            for p in range(c["np"]):
                d = dl(c, p)
                if len(d) >= 2:
                    i, j = d[0], d[1]
                    a, b = ev[i], ev[j]
                    if (a["t"], a["o"]) != (b["t"], b["o"]):
                        cc = copy.deepcopy(c)
                        cc["ev"][i], cc["ev"][j] = cc["ev"][j], cc["ev"][i]
                        lin.append(cc); exp.append("swap"); kinds["swap"] += 1
                        break
        # (b) stale / wrong read data in a response (within the requested bytes)
        d = dl(c, None, lambda e: e["t"] == 0)
        if d and kinds["stale"] < 8:
            cc = copy.deepcopy(c)
            cc["ev"][d[-1]]["d"][0] ^= 0x41
            lin.append(cc); exp.append("stale"); kinds["stale"] += 1
        # (c) wrong final byte
        if kinds["final"] < 8:
            cc = copy.deepcopy(c)
            cc["final"][R.randrange(len(cc["final"]))] ^= 1
            lin.append(cc); exp.append("final"); kinds["final"] += 1
        # (d) a dropped Process event of a request that is answered
        pr = [i for i, e in enumerate(ev) if e["k"] == "proc" and e["op"] != "rd"]
        if pr and kinds["dropproc"] < 8:
            cc = copy.deepcopy(c)
            del cc["ev"][pr[0]]
            lin.append(cc); exp.append("dropproc"); kinds["dropproc"] += 1
        # (e) opaque of another request
        d = dl(c)
        if d and kinds["opaque"] < 8:
            cc = copy.deepcopy(c)
            cc["ev"][d[len(d) // 2]]["o"] = (cc["ev"][d[len(d) // 2]]["o"] + 1) % 256
            lin.append(cc); exp.append("opaque"); kinds["opaque"] += 1
        # (f) AMO response that is not the old value
        d = dl(c, None, lambda e: e["t"] in AMOS)
        if d and kinds["amo"] < 8:
            cc = copy.deepcopy(c)
            cc["ev"][d[0]]["d"][3] ^= 0x80
            lin.append(cc); exp.append("amo"); kinds["amo"] += 1
    # inferred mode: wrong final byte / read byte with a value that occurs nowhere in the run.  The
    # value must be underivable, so only runs without AMOs qualify; they are looked for in the whole
    # pool (independently of the loop above, which may be satisfied by its first few traces).
    for t in pool:
        if len(inf) >= 6:
            break
        ev = t["ev"]
        if len(ev) > 50 or any(e["k"] == "send" and e["t"] in AMOS for e in ev):
            continue
        used = set(t["init"]) | set(t["final"])
        for e in ev:
            used |= set(e.get("d", []))
        free = [v for v in range(256) if v not in used]
        if not free:
            continue
        cc = _strip(copy.deepcopy(t))
        d = [i for i, e in enumerate(cc["ev"]) if e["k"] == "dlv" and e["t"] == 0]
        if len(inf) % 2 == 0 or not d:
            cc["final"][0] = free[0]
        else:
            cc["ev"][d[0]]["d"][0] = free[0]
        inf.append(cc)
    if len(kinds) < 6 or min(kinds.values()) < 1 or len(inf) < 2:
        if not res.violations:
            raise MachineryError("could not build every canary kind: %s, inferred %d" % (dict(kinds), len(inf)))
        # too few accepted runs to corrupt, because runs were rejected (reported as violations): the
        # verdict is exit 1 either way; the hand-written histories below are still checked
        res.note("canary_kinds_not_built_for_lack_of_accepted_runs", [k for k in
                 ("swap", "stale", "final", "dropproc", "opaque", "amo") if kinds[k] == 0] + (["inferred"] if len(inf) < 2 else []))
    cv = _validate(res, lin)
    acc = [exp[i] for i, v in enumerate(cv) if v[0] == "ok"]
    if acc:
        raise MachineryError("canary traces accepted by MagicMemTrace (linear mode): %s" % acc[:5])
    iv = _validate(res, inf, chunk=4)
    if any(v[0] == "ok" for v in iv):
        raise MachineryError("canary traces accepted by MagicMemTrace (inferred mode)")
    syn = _synthetic_canaries(res)
    res.note("canaries_rejected", {"linear": dict(kinds), "inferred": len(inf),
                                   "clauses": dict(collections.Counter(v[0] for v in cv)),
                                   "synthetic_histories": syn})


def run(res, tier):
    quick = tier == "quick"
    import time
    ph = {}

    def timed(name, f, *a):
        t0 = time.time()
        r = f(*a)
        ph[name] = round(time.time() - t0, 1)
        return r

    # The TLC model-checking runs and the TLC -simulate rounds need nothing from the other phases:
    # they run in the background (a thread starting TLC processes / tasks of the worker pool) while
    # the implementations are driven.  The pool is forked first, before any thread exists.
    global _POOL
    import c18_drv  # noqa: F401  (imported before the fork so that the workers share it)
    import c18_adp  # noqa: F401
    import c18_pipe  # noqa: F401
    import c18_pipecheck as PC
    ctx = multiprocessing.get_context("fork")
    _POOL = ctx.Pool(os.cpu_count() or 4)
    bg = ThreadPoolExecutor(max_workers=2)
    s2c_fut = []
    pend = []
    try:
        t0 = time.time()
        s2c_in = _s2c_inputs(quick)
        s2c_fut = [_POOL.apply_async(_s2c_simulate, (i,)) for i in s2c_in]
        mc_fut = bg.submit(_model_check_compute, quick)
        # delay pipes / StallCL: model checking in a second background thread; the graph walks (one
        # task per configuration: TLC dump + replay on the real classes) and the random histories
        # are tasks of the worker pool
        pipe_mc_fut = bg.submit(PC.mc_compute, quick)
        walk_fut = _POOL.map_async(PC.walk_job, PC.walk_configs(quick), chunksize=1)
        hist_fut = _POOL.map_async(PC.history_job, PC.history_jobs(quick) + PC.canary_jobs(), chunksize=2)
        pend = [walk_fut, hist_fut]
        good = timed("code_to_spec", _code_to_spec, res, quick)
        timed("inferred_order", _inferred, res, good, quick)
        timed("timing_independence", _timing_independence, res, quick)
        timed("canaries", _canaries, res, good)
        timed("adapters", _adapters, res, quick)
        timed("pipe_histories", lambda: PC.histories_record(res, hist_fut.get(3000), quick))
        timed("pipe_graph_walk", lambda: PC.walk_record(res, walk_fut.get(3000)))
        t1 = time.time()
        sims = [f.get(3000) for f in s2c_fut]
        timed("spec_to_code_replay", _spec_to_code, res, quick, s2c_in, sims)
        jobs, runs = mc_fut.result()
        _model_check_record(res, jobs, runs)
        PC.mc_record(res, *pipe_mc_fut.result())
        ph["background_model_check_and_simulate_total"] = round(time.time() - t0, 1)
        ph["waited_for_background_after_foreground"] = round(time.time() - t1, 1)
    finally:
        # orderly also when a phase raised: let the background work finish, so that no TLC process
        # and no scratch directory is left behind
        bg.shutdown(wait=True)
        for f in s2c_fut + pend:
            f.wait(3000)
        _POOL.close()
        _POOL.join()
        _POOL = None
    res.note("phase_wall_s", ph)
    res.note("rule", "model: every interleaving of Send/Process/Deliver for 2 ports and the listed request "
             "menus; spec->code: every Process step of simulated model behaviours replayed on MagicMemoryFL; "
             "code->spec: one case = one (memory, port count, latency, stall probability, per-message source and "
             "sink delays, request streams) run; streams mix reads/writes of 1-4 bytes around two hot addresses, "
             "word AMOs of all nine kinds on shared addresses, INV/FLUSH (CL); a case is distinct by its "
             "configuration and streams; adapters: one case = one (chain, port count, timing, streams) run, groups of "
             "runs share race-free streams with a direct connection; delay pipes: every edge of the dumped state graph "
             "of DelayPipe.tla per (kind, delay 0..3, StallCL or not, block order) is one replayed case, one history = "
             "one (kind, delay, stall probability/seed, block order, bursty offer pattern) run")
    res.assume("AMOs are word-sized (len = 0); sub-word AMOs are outside the statement")
    res.assume("32-bit data / 8-bit opaque message types; addresses inside a 16-24 byte window at 0x1000 of an "
               "8 KiB memory, the rest is checked to stay zero")
    res.assume("response fields len/test and the data of write responses are not constrained by the statement; "
               "of a sub-word read response only the requested bytes are compared")
    res.assume("stream.MagicMemoryRTL asserts on INV/FLUSH, so these are only sent to MagicMemoryCL")
    res.assume("delay pipes: the exact ready timing (slots, inelastic hold, delay-0 bypass, one StallCL draw per rdy() "
               "evaluation) is a model of DelayPipeCL.py / StallCL.py, not fixed by the statement; order, content, "
               "conservation, not-before-delay and occupancy are the statement-level clauses")
    res.assume("adapter chains that cannot be constructed on the tree under test carry no request stream and are "
               "recorded, not judged; FL masters use latency >= 1 (a 0-latency memory behind the combinational FL "
               "adapter is a scheduling loop); an FL master observes only the returned data")
    res.assume("a memory call that serves no accepted request is a violation only when no processing order "
               "of the accepted requests explains the responses and the final image (inferred-order mode)")
