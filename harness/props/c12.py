"""C12  Yosys-compatible translation is equivalent, with a faithful flat port map (translation validation).

Translation validation with the machinery of C03 (see props/c03.py): every design of the corpus is translated
by the real YosysTranslationPass, the emitted plain-Verilog text is parsed by harness/svparse.py, flattened by
harness/svelab.py and executed by TLC under the semantics of spec/SVSem.tla against the recorded PyMTL
simulation of the same design (spec/SVSemTrace.tla, every output port every cycle; mode "drv" = OneDriver).

  FlatMap  the yosys back end flattens every port of struct / array / interface type into one port per leaf
           (`p__field`, `p__i`).  The harness hands TLC the PACKED PyMTL value of the original port together
           with the shape of its data type; SVSemTrace drives / compares the flattened variables THROUGH
           BitStruct!Layout (spec/BitStruct.tla: first declared field most significant, list element 0 least
           significant), so a swapped field, a reversed array index or a leaf of the wrong width is an output
           mismatch or a port-map error.  Port arrays / interface members are separate PyMTL ports and are
           matched by the back end's name mangling.
  cross    the SystemVerilog text of the same design (C03's artefact) is validated on the same recorded
           vectors; agreement / disagreement is recorded in the evidence (not for the grid families nd / lv,
           and in the quick tier not for the expression families: C03 validates that text on its own vectors)
  canaries flipped recorded output bit, swapped operator, swapped struct fields in the port map, reversed
           list index inside a struct port, exchanged elements of a flattened port array: all must be rejected

Helper modules and specs: as C03 (harness/sv*.py, spec/SVSem.tla, spec/SVSemTrace.tla, spec/BitStruct.tla).

NOTE: trusted base / assumptions as for C03 (own parser decides syntactic validity for the emitted subset,
spec/SVSem.tla is our reading of IEEE 1800-2017 two-state semantics, never-driven variables read 0, cycles in
which PyMTL raises are outside the property, rejected designs are outside the quantifier).  In addition:
the names of the flattened ports are the back end's mangling (`__` between path elements) - the harness only
joins names, every bit position comes from BitStruct!Layout in TLC.  The emitted text declares loop variables
as `integer` (signed) and indexes with size casts N'(i); under IEEE 1800 6.24.1 such a cast is signed, which
the interpreter honours (violation class `signed-loopvar`, re-validated with all operands unsigned so that the
rest of the design is still checked).
"""
from props import c03

LEVEL = "translation_validation"
READY = True

# True: the size cast N'(integer loop variable) the yosys back end emits is signed, as IEEE 1800-2017 6.24.1
# says ("the signedness shall pass through unchanged"), and a signed index with its top bit set is negative.
# False: every operand is taken as unsigned (what tools that use the index bits as they are - Verilator -
# do); then no `signed-loopvar` violation can arise.  The property statement speaks of the behaviour of the
# text, which we read as the behaviour the standard defines, hence True.
STRICT_SIGNED_CAST = True


def run(res, tier):
    res.note("strict_signed_cast", STRICT_SIGNED_CAST)
    c03.run(res, tier, backend="yosys", pid="C12", cross=True, portmap=True, uns=not STRICT_SIGNED_CAST)


def replay(obj):
    return c03.replay(obj, backend="yosys", pid="C12")
