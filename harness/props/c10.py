"""C10  RTLIR type-checker widths are the real widths; accepted code has no width errors.

spec/RTLIRTypes.tla (width rule table of docs/ref/datatypes.rst as pure operators + a small
exhaustive model with an executable Bits/int value semantics; bitstruct shapes and their packed
width from spec/BitStruct.tla), spec/RTLIRStructs.tla (exhaustive model of the struct / list-field
rules over a bounded family of bitstruct types), spec/RTLIRTypesTrace.tla (trace validation).
helper modules: harness/c10_lang.py (language, generators), harness/c10_obs.py (per-node static /
run-time observation).
  1. TLC model-checks RTLIRTypes.tla: every expression up to depth 2 over small leaves, every
     environment: W >= 1, W is the run-time width, well-typed unexcused blocks raise no width
     error, re-sizing never truncates, explicit mismatches raise.  A violated invariant is a
     statement about the documented rule table, not yet about pymtl3: its counterexample states
     are handed to 2.  (If the real checker accepts counterexample blocks and none of them
     misbehaves, the model misrepresents the code: machinery failure.)
  2. spec -> code: every state of the dumped model graph, and every counterexample state of 1.,
     is rendered as a real update block, type checked, simulated and validated (same comparison
     as 3); only that comparison produces violations.  The same for RTLIRStructs.tla: TLC checks
     that the rule table's width of every access path into a bitstruct signal (fields at every
     depth, every dimension of a list field, partial indexing) is the width of the packed value
     and that struct <-> BitsN assignments are mismatches exactly when the widths differ; every
     copy / pack / unpack state of its graph is replayed as a real block.
  3. code -> spec: generated update blocks (random + systematic families, among them a bitstruct
     family: nested structs, 1-D/2-D/3-D list fields, whole-struct reads / writes, struct <-> BitsN
     in both directions with the right and with plausible wrong widths, struct temporaries,
     constants, instances, struct ports of sub-components / interfaces / port arrays) and the repo's own
     RTLIR test-case components: BehavioralRTLIRGenPass + BehavioralRTLIRTypeCheckPass, per node
     (kind, static width, _is_explicit) and the run-time nbits of the same Python ast node in the
     simulated component (a struct's width: the sum of its fields, a list field's: element x
     product of the dimensions, both computed by the spec from the shape of the declared Python
     type; at run time nbits of to_bits() / of all elements of the list);
     RTLIRTypesTrace requires static = rule table = run time, no width
     ValueError for accepted blocks (casts / unequal shifts excepted), and rejection whenever the
     simulation raises a width error and the spec sees an ExplicitMismatch.
  4. literal clause: inferred width of 2^k + {-1,0,1} (k <= 70) and random literals = BitLen.
  5. canaries: altered widths / verdicts in copies of real traces must be rejected.

NOTE: run-time values that are Python ints have no width; for them the check requires that the
static width holds the value.  The run-time width of a bitstruct value is nbits of its to_bits(),
that of a (partially indexed) list field the sum over its elements; bitstruct shapes are read
from the class's field declarations.  Negative ints (unary minus / invert of an inferred operand), `/`,
`**`, int operands of concat/zext/sext/trunc/reduce and int << Bits are not generated (they fail
in simulation for reasons other than bit width).  The block interpreter of c10_obs.py (statement
by statement exec of the block's own ast on the simulated component) is trusted to evaluate
sub-expressions as the simulator does; it is cross-checked against the real simulation's
exception on every sample.
"""
import collections
import copy
import importlib
import json
import math
import os
import sys
import time
from concurrent.futures import ProcessPoolExecutor

import tlc
from common import MachineryError, REPO, rng, scratch, seed

import c10_lang as L

READY = True

MODEL_INVS = ["WDefined", "WidthIsRuntimeWidth", "WidthIsRuntimeWidth_InferredArith",
              "ConstWidthIsRuntimeWidth", "NoWidthError", "NoWidthError_InferredArith",
              "ResizeNeverTruncates", "MismatchRaises"]
MODEL_ACTIONS = ["MkUn", "MkBinL", "MkBinR", "MkShiftL", "MkShiftR", "MkCmpL", "MkCmpR", "MkIfA", "MkIfB",
                 "MkConcat", "MkZext", "MkTrunc", "MkReduce", "MkCast", "MkSlice", "Retarget"]


def _set(xs):
    return "{" + ", ".join(str(x) for x in sorted(xs)) + "}"


def _model_cfg(sigw, nums, loophi, tws, depth, invs=True):
    c = ("SPECIFICATION Spec\nCONSTANTS\n SigWidths = %s\n Nums = %s\n LoopHi = %s\n TargetWidths = %s\n"
         " MaxDepth = %d\n" % (_set(sigw), _set(nums), _set(loophi), _set(tws), depth))
    if invs:
        c += "".join("INVARIANT %s\n" % i for i in MODEL_INVS)
    return c


# ------------------------------------------------------------------------------------------
# 1. the model
# ------------------------------------------------------------------------------------------

def _counterexamples(out):
    """[(invariant, {e, d, tw})]: the final state of every counterexample TLC printed (-continue)"""
    import re
    cex = []
    parts = re.split(r"Error: Invariant (\S+) is violated\.", out)
    for j in range(1, len(parts) - 1, 2):
        inv, body = parts[j], parts[j + 1]
        sts = re.findall(r"\nState \d+: [^\n]*\n(.*?)(?=\n\s*\n|\Z)", body, re.S)
        if not sts:
            raise MachineryError("cannot find the counterexample of invariant %s in TLC's output" % inv)
        try:
            st = tlc.parse_state(sts[-1])
        except ValueError as e:
            raise MachineryError("cannot parse the counterexample state of invariant %s: %s\n%s" % (inv, e, sts[-1][:400]))
        if "e" not in st or "tw" not in st:
            raise MachineryError("counterexample state of %s has no e / tw: %r" % (inv, sts[-1][:300]))
        cex.append((inv, st))
    return cex


def _model_check(res, tier):
    """TLC on RTLIRTypes.tla.  A violated invariant says that the documented rule table is unsound with
    respect to the value semantics of the model -- a statement about the MODEL.  It is turned into a
    verdict about pymtl3 only by replaying the counterexample states as real update blocks
    (_spec_to_code): the returned list holds them."""
    quick = tier == "quick"
    cfgs = [("core", ({1, 3}, {1, 4}, set(), {1, 3}, 2)),
            ("loopvar", ({2}, {1, 3}, {2}, {2}, 2))]
    if not quick:
        cfgs.append(("wide", ({1, 2, 3}, {0, 1, 3, 4}, set(), {1, 2, 3}, 2)))
        cfgs.append(("deep", ({2}, {1, 2}, set(), {2}, 3)))
    cexs = {}
    from concurrent.futures import ThreadPoolExecutor
    nw = max(2, (os.cpu_count() or 4) // len(cfgs))
    with ThreadPoolExecutor(max_workers=len(cfgs)) as ex:          # the TLC runs side by side
        # per-action coverage is collected (and required) for the two small configurations only
        futs = [ex.submit(tlc.run, "RTLIRTypes", cfg_text=_model_cfg(sw, nums, lh, tws, depth),
                          coverage=name in ("core", "loopvar"),
                          extra=["-continue"], deadlock=False, timeout=3000, workers=nw, heap="4g")
                for name, (sw, nums, lh, tws, depth) in cfgs]
        runs = [f.result() for f in futs]
    for (name, (sw, nums, lh, tws, depth)), r in zip(cfgs, runs):
        res.add_tlc(r)
        if r.errors and not r.violated:
            raise MachineryError("TLC failed on RTLIRTypes (%s): %s\n%s" % (name, r.errors[:3], r.out[-2000:]))
        if r.distinct < 100:
            raise MachineryError("RTLIRTypes model (%s) explored only %d states" % (name, r.distinct))
        for act in MODEL_ACTIONS:
            if name not in ("core", "loopvar"):
                break
            if act == "Retarget" and len(tws) < 2:
                continue
            if r.coverage.get(act, (0, 0))[1] == 0:
                raise MachineryError("action %s never taken in RTLIRTypes (%s) (vacuous)" % (act, name))
        found = _counterexamples(r.out) if r.violated else []
        if len(found) != len(r.violated):
            raise MachineryError("RTLIRTypes (%s): %d invariant violations but %d counterexamples parsed"
                                 % (name, len(r.violated), len(found)))
        for inv, st in found:
            key = json.dumps([inv, tlc._freeze(st["e"]), st["tw"]], sort_keys=True, default=str)
            cexs.setdefault(key, (inv, name, st["e"], st["tw"]))
        res.note("model_%s" % name, {"SigWidths": sorted(sw), "Nums": sorted(nums), "LoopHi": sorted(lh),
                                     "TargetWidths": sorted(tws), "MaxDepth": depth, "states": r.distinct,
                                     "invariant_counterexamples": dict(collections.Counter(r.violated))})
        res.distinct(("model", name, r.distinct))
    return [cexs[k] for k in sorted(cexs)]


# vacuity conditions that depend on the checker's verdicts: a tree that breaks the property may also trip them, so
# they are raised (MachineryError) at the end of the run and only if no violation was found
_DEFERRED = []


STRUCT_INVS = ["TypeOK", "WidthIsPackedWidth", "WidthIsSumAndProduct", "AcceptedNoWidthError",
               "MismatchIffWidthError", "CopyWellTyped"]
STRUCT_ACTIONS = ["Field", "IndexC", "IndexV", "Copy", "Pack", "Unpack"]


def _struct_cfg(tier, invs=True):
    hdr, lw, dims, mld, zi = (({1}, {2}, {2, 3}, 3, False) if tier == "quick" else ({1}, {1, 2}, {2, 3}, 3, True))
    c = ("SPECIFICATION Spec\nCHECK_DEADLOCK FALSE\nCONSTANTS\n HdrWs = %s\n LeafWs = %s\n Dims = %s\n MaxListDim = %d\n ZeroIdx = %s\n"
         % (_set(hdr), _set(lw), _set(dims), mld, "TRUE" if zi else "FALSE"))
    if invs:
        c += "".join("INVARIANT %s\n" % i for i in STRUCT_INVS)
    return c, {"HdrWs": sorted(hdr), "LeafWs": sorted(lw), "Dims": sorted(dims), "MaxListDim": mld, "ZeroIdx": zi}


def _struct_model_check(res, tier):
    """TLC on RTLIRStructs.tla: the struct / list-field rules against the packed-value semantics of
    BitStruct.tla, with the state graph dumped for the replay.  Both sides are specification: a violated
    invariant is a machinery failure.  -> states of the graph"""
    cfg, bounds = _struct_cfg(tier)
    r, states, init, edges = tlc.dump_graph("RTLIRStructs", cfg_text=cfg, timeout=3000)
    res.add_tlc(r)
    if r.violated:
        raise MachineryError("RTLIRStructs.tla violates %s: the struct rules of RTLIRTypes.tla and the packed-value "
                             "semantics of BitStruct.tla disagree\n%s" % (r.violated, r.out[-2500:]))
    if r.errors or not r.ok or not states:
        raise MachineryError("TLC failed on RTLIRStructs: %s\n%s" % (r.errors[:3], r.out[-2000:]))
    if r.distinct < 500 or len(states) != r.distinct:
        raise MachineryError("RTLIRStructs model explored %d states, %d dumped" % (r.distinct, len(states)))
    taken = collections.Counter(e[2] for e in edges)
    for act in STRUCT_ACTIONS:
        if taken.get(act, 0) == 0:
            raise MachineryError("action %s never taken in RTLIRStructs (vacuous): %s" % (act, dict(taken)))
    res.note("model_structs", dict(bounds, states=r.distinct, invariants=STRUCT_INVS, actions=dict(taken)))
    res.distinct(("model", "structs", r.distinct))
    return states


def _struct_spec_to_code(res, tier, workdir, states):
    """the copy / pack / unpack states of the RTLIRStructs graph as real update blocks (quick tier: every state
    whose path ends at a struct or a list, a seeded third of those ending at a Bits field)"""
    R = rng("c10-struct-model")
    blocks, ops, skipped = [], collections.Counter(), 0
    for j, (sid, st) in enumerate(sorted(states.items())):
        ops[st["op"]] += 1
        if st["op"] == "nav":
            continue
        if tier == "quick" and _ends_at_leaf(st) and R.random() >= 1 / 3:
            skipped += 1
            continue
        blocks.append(L.struct_model_block("Q%d" % j, st))
    if min(ops.get(o, 0) for o in ("copy", "pack", "unpack")) == 0:
        raise MachineryError("RTLIRStructs graph has no %s states: %s" % ("/".join(("copy", "pack", "unpack")), dict(ops)))
    recs = _observe(blocks, workdir, nsamples=2)
    good = _prepare(res, recs, "struct_model_states")
    res.note("struct_spec_to_code_states", dict(ops))
    res.note("struct_spec_to_code_replayed", len(good))
    res.note("struct_spec_to_code_not_sampled", skipped)
    if len(good) < len(blocks) * 9 // 10:
        raise MachineryError("only %d of %d RTLIRStructs states could be replayed" % (len(good), len(blocks)))
    acc = sum(1 for g in good if g["verdict"] == "accepted")
    if acc < len(good) // 4:
        _DEFERRED.append("only %d of %d replayed RTLIRStructs blocks are accepted by the type checker" % (acc, len(good)))
    g = good[len(good) // 2]
    res.sample({"kind": "spec->code (structs)", "block": g["src"], "verdict": g["verdict"]})
    return good


def _ends_at_leaf(st):
    sh = st["sh"]
    for p in st["path"]:
        sh = next(f["t"] for f in sh["fs"] if f["n"] == p["n"]) if p["k"] == "f" else sh["t"]
    return sh["k"] == "leaf"


# ------------------------------------------------------------------------------------------
# observing blocks (worker processes)
# ------------------------------------------------------------------------------------------

def _observe_chunk(args):
    """worker: one module file with one component class per block"""
    cid, blocks, sd, workdir, nsamples = args
    import warnings
    warnings.simplefilter("ignore")
    sys.path[0:0] = [REPO] if REPO not in sys.path else []
    if workdir not in sys.path:
        sys.path.insert(0, workdir)
    import random
    import c10_obs as O
    modname = "c10gen_%d" % cid
    with open(os.path.join(workdir, modname + ".py"), "w") as f:
        f.write(L.module_source(blocks))
    importlib.invalidate_caches()
    mod = importlib.import_module(modname)
    R = random.Random(sd * 1000003 + cid)
    out = []
    for b in blocks:
        rec = {"name": b.name, "tag": b.tag, "src": b.lines(), "ff": b.ff}
        try:
            comp = getattr(mod, b.name)()
            o = O.observe_component(comp, R, nsamples)
        except Exception as e:          # noqa: BLE001  elaboration errors of the generated design
            rec["elab_error"] = "%s: %s" % (type(e).__name__, str(e).strip().split("\n")[0][:160])
            out.append(rec)
            continue
        rec.update({k: o[k] for k in ("verdict", "exc", "msg")})
        for k in ("disagree", "sim_setup_error", "unconvertible"):
            if k in o:
                rec[k] = o[k]
        if o["blocks"]:
            blk = o["blocks"][0]
            rec["nodes"], rec["sim"], rec["simulated"] = blk["nodes"], blk["sim"], blk["simulated"]
            sh, gs = O.shape_of(blk["nodes"]), L.flat_shape(b.stmts)
            if sh != gs:
                j = next((i for i, (x, y) in enumerate(zip(sh, gs)) if x != y), min(len(sh), len(gs)))
                rec["shape"] = {"at": j, "rtlir": [list(x) for x in sh[max(0, j - 2):j + 3]],
                                "source": [list(x) for x in gs[max(0, j - 2):j + 3]]}
        out.append(rec)
    return out


def _observe(blocks, workdir, nsamples=3, chunk=40):
    ncpu = os.cpu_count() or 4
    jobs = [(i // chunk + _observe.base, blocks[i:i + chunk], seed(), workdir, nsamples)
            for i in range(0, len(blocks), chunk)]
    _observe.base += len(jobs)
    if len(jobs) <= 1:
        return [r for j in jobs for r in _observe_chunk(j)]
    out = []
    with ProcessPoolExecutor(max_workers=min(ncpu, len(jobs))) as ex:
        for part in ex.map(_observe_chunk, jobs):
            out += part
    return out


_observe.base = 0


def _trace_of(rec):
    return {"kind": "block", "accepted": rec["verdict"] == "accepted", "nodes": rec["nodes"],
            "sim": {"raised": bool(rec["sim"]["raised"]), "cat": rec["sim"]["cat"]}}


# ------------------------------------------------------------------------------------------
# verdicts -> violations
# ------------------------------------------------------------------------------------------

def _val(n):
    v = 0
    for j, x in enumerate(n["limbs"]):
        v |= x << (15 * j)
    return v


def _float_log2_width(v):
    """what a ceil(log2(v+1)) computed in floating point gives"""
    if -1 <= v <= 1:
        return 1
    return math.ceil(math.log2(v + 1))


def _checker_literal_width(v):
    from pymtl3.passes.rtlir.rtype import RTLIRDataType as rdt
    return rdt.get_rtlir_dtype(v).get_length()


def _parent(nodes, nid):
    """the node that has node `nid` (1-based) as an operand"""
    fields = {"assign": ("t", "v"), "if": ("c",), "for": ("s", "e", "st"), "tmp": (), "loopvar": ()}
    for n in nodes[nid:]:
        for f in fields.get(n["k"], ("a", "b", "c", "i", "lo", "hi")):
            if n.get(f) == nid:
                return n, f
        if nid in n.get("args", []):
            return n, "args"
    return None, ""


def _kop(n):
    return n["k"] + ("(%s)" % n["op"] if "op" in n and n["k"] in ("binop", "shift", "cmp", "unop") else "")


def _is_const(nodes, nid):
    n = nodes[nid - 1]
    if n["k"] in ("num", "bconst"):
        return True
    if n["k"] in ("cast", "unop"):
        return _is_const(nodes, n["a"])
    if n["k"] in ("binop", "shift"):
        return _is_const(nodes, n["a"]) and _is_const(nodes, n["b"])
    return False


_OPERANDS = {"binop": ("a", "b"), "shift": ("a", "b"), "cmp": ("a", "b"), "ifexp": ("a", "b"), "unop": ("a",),
             "cast": ("a",), "zext": ("a",), "sext": ("a",), "trunc": ("a",), "reduce": ("a",), "slice": ("a",),
             "bit": ("a", "i"), "elem": ("i",), "field": ("a",), "idx": ("a", "i"), "sinst": ()}


def _kclass(nodes, pos):
    """class of a node for violation keys: kind + how its operands are sized
    (E explicit, I inferred leaf, I* inferred compound); a folded constant expression is its own class"""
    n = nodes[pos - 1]
    if n["k"] in ("binop", "shift", "unop") and _is_const(nodes, pos):
        return "folded-constant"
    if n["k"] == "assign" and ("tc" in nodes[n["t"] - 1] or "tc" in nodes[n["v"] - 1]):
        # an assignment with a bitstruct / list-field typed side: struct <- bits, bits <- struct, struct <- struct
        def side(c):
            return c.get("tc") or ("bits" if c["sx"] else "int")
        return "assign<%s<-%s>" % (side(nodes[n["t"] - 1]), side(nodes[n["v"] - 1]))
    if "tc" in n and n["k"] in ("sig", "field", "idx", "elem", "tmp", "sinst", "ifexp"):
        # a bitstruct / list-field typed node: the class of its type (struct[list2d], list1d, ...)
        return "%s<%s>" % (n["k"], n["tc"])
    ops = []
    for f in _OPERANDS.get(n["k"], ()):
        c = nodes[n[f] - 1]
        ops.append("E" if c["sx"] else ("I" if c["k"] in ("num", "loopvar", "tmp") else "I*"))
    if n["k"] == "concat":
        ops = ["E" if nodes[c - 1]["sx"] else "I" for c in n["args"]][:1]
    return n["k"] + ("(%s)" % ",".join(ops) if ops else "")


def _int_arith(nodes, pos):
    """an arithmetic / shift node both of whose operands are Python ints at run time and that the checker does
    not fold to a constant (loop variables, if-expressions with an int branch, comparisons of ints): Python
    computes it with unbounded precision -> 'binop(loopvar,num)' etc., else None"""
    n = nodes[pos - 1]
    if n["k"] not in ("binop", "shift") or _is_const(nodes, pos):
        return None
    ops = [nodes[n["a"] - 1], nodes[n["b"] - 1]]
    if any(o["rk"] != "int" for o in ops):
        return None
    return "%s[%s]" % (n["k"], _int_sources(nodes, [n["a"], n["b"]]))


def _int_sources(nodes, todo):
    """where the run-time ints of an expression come from: loopvar / ifexp / cmp / ..."""
    src, todo = set(), list(todo)
    while todo:
        c = nodes[todo.pop() - 1]
        if c["k"] in ("loopvar", "ifexp", "cmp", "tmp", "elem", "field", "idx"):
            src.add(c["k"])
        if c["k"] not in ("cmp", "tmp", "loopvar"):
            todo += [c[f] for f in _OPERANDS.get(c["k"], ()) if f in c]
    return ",".join(sorted(src))


def _int_unop_under(nodes, pos):
    """a unary ~ / - below node pos whose operand is a Python int at run time although the checker sizes it
    explicitly (comparison of two ints, if-expression with an int branch): the result is a negative int"""
    todo = [pos]
    while todo:
        p = todo.pop()
        c = nodes[p - 1]
        if c["k"] == "unop" and c["op"] in ("~", "-") and nodes[c["a"] - 1]["rk"] == "int" and nodes[c["a"] - 1]["sx"]:
            return "unop[%s]" % _int_sources(nodes, [c["a"]])
        todo += [c[f] for f in (("v",) if c["k"] == "assign" else _OPERANDS.get(c["k"], ())) if f in c]
        todo += c.get("args", []) if c["k"] == "concat" else []
    return None


def _context(nodes, pos):
    """the nearest enclosing node that provides an explicit context (explicitly sized, or a statement)"""
    cur = pos
    for _ in range(64):
        p, slot = _parent(nodes, cur)
        if p is None:
            return "?"
        if p["k"] in ("assign", "if", "for"):
            if p["k"] == "assign" and nodes[p["t"] - 1]["k"] == "tmpdef":
                return "tmpdef"
            if p["k"] == "assign" and "tc" in nodes[p["t"] - 1]:
                return "assign<%s>" % nodes[p["t"] - 1]["tc"].split("[")[0]      # assign<struct>, assign<list1d>
            return p["k"]
        if p["sx"] or p["k"] in ("bit", "elem", "slice"):
            return p["k"] + ("[%s]" % slot if p["k"] in ("bit", "elem", "slice") else "")
        cur = nodes.index(p) + 1
    return "?"


def _key_for(err, pos, rec):
    """violation key = failing clause : class of the node it fails at @ explicit context; a literal whose
    own inferred width is wrong has its own key"""
    nodes = rec["nodes"]
    if pos > len(nodes):                      # the simulation event
        first = next((i + 1 for i, n in enumerate(nodes) if n["rk"] == "exc"), None)
        lit = _literal_cause(nodes)
        if lit:
            return lit, None
        iu = _int_unop_under(nodes, first) if first else None
        if iu:
            return "int-arith-not-folded:" + iu, nodes[first - 1]
        # a subtraction of two run-time Python ints the checker cannot fold gave a negative int
        for j, c in enumerate(nodes[:first or 0]):
            if c.get("rneg") and c["k"] in ("binop", "shift") and not _is_const(nodes, j + 1) \
                    and not nodes[c["a"] - 1].get("rneg") and not nodes[c["b"] - 1].get("rneg"):
                # (Bits - Bits and Bits - int wrap around: only int - int is negative)
                return "int-arith-not-folded:%s[%s]" % (c["k"], _int_sources(nodes, [c["a"], c["b"]])), c
        return "%s:%s" % (err, _kclass(nodes, first) if first else "?"), (nodes[first - 1] if first else None)
    n = nodes[pos - 1]
    lit = _literal_cause([n]) if n["k"] == "num" else None
    if lit:
        return lit, n
    ia = _int_arith(nodes, pos)
    if ia and err == "runtime-int-exceeds-static-width":
        return "int-arith-not-folded:" + ia, n
    key = "%s:%s" % (err, _kclass(nodes, pos))
    if not n["sx"] or err.startswith("inferred"):
        par, _ = _parent(nodes, pos)
        if par is not None and not par["sx"] and par["k"] in _OPERANDS:
            # an operand of an inferred compound (e.g. of a folded constant expression, a branch of an if-expression)
            ppos = nodes.index(par) + 1
            key += "<" + ("folded-constant" if _is_const(nodes, ppos) else par["k"])
        key += "@" + _context(nodes, pos)
    return key, n


def _literal_cause(nodes):
    """a literal whose width the checker infers too small, in the way float log2 rounding does"""
    for n in nodes:
        if n["k"] == "num":
            v = _val(n)
            try:
                cw = _checker_literal_width(v)
            except Exception:           # noqa: BLE001
                continue
            if cw != L.bitlen(v):
                if cw == _float_log2_width(v):
                    return "literal-width-float-log2"
                return "literal-width:v=%d,got=%d" % (v, cw)
    return None


def _report(res, recs, verdicts, family):
    for rec, (err, pos) in zip(recs, verdicts):
        if err == "ok":
            continue
        key, n = _key_for(err, pos, rec)
        what = "block `%s`: %s" % ("; ".join(rec["src"]), err)
        if n is not None:
            what += " at node %d %s (static width %s, _is_explicit %s, run time %s %s)" % (
                pos, _kop(n), n["sw"], n["sx"], n["rk"], n["rw"] if n["rk"] in ("bits", "int") else n.get("rx", ""))
        if rec["sim"]["raised"]:
            what += "; simulation raises %s: %s" % (rec["sim"]["exc"], rec["sim"]["msg"])
        what += " [checker: %s]" % rec["verdict"]
        res.violation(key, what, {"family": rec.get("family", family), "source": rec["src"], "clause": err, "event": pos,
                                  "verdict": rec["verdict"], "sim": rec["sim"],
                                  "node": {k: v for k, v in (n or {}).items()}})
        res.count("violating_traces")


def _prepare(res, recs, family):
    """filter observed blocks down to those that yield a trace"""
    good = []
    for rec in recs:
        rec["family"] = family
        if "elab_error" in rec:
            res.count("blocks_%s_failing_elaboration" % family)
            continue
        if rec.get("disagree"):
            raise MachineryError("block interpreter and simulation disagree: %s  block: %s"
                                 % (rec["disagree"][:2], rec["src"]))
        if rec["verdict"] in ("syntax", "other") or "nodes" not in rec:
            res.count("blocks_%s_%s" % (family, rec["verdict"]))
            if rec["verdict"] == "other":
                res.count("checker_internal_errors")
                res.note("checker_internal_error_example", "%s: %s %s" % (rec["src"], rec["exc"], rec["msg"]))
            continue
        if rec.get("sim_setup_error"):
            res.count("blocks_not_simulated")
            res.note("not_simulated_example", "%s: %s" % (rec["src"], rec["sim_setup_error"]))
        if "shape" in rec:
            res.violation("rtlir-shape:%s" % (rec["shape"]["source"][min(2, rec["shape"]["at"])][0]
                                              if rec["shape"]["source"] else "?"),
                          "block `%s`: the generated RTLIR tree does not mirror the source expression tree: %s"
                          % ("; ".join(rec["src"]), rec["shape"]), rec)
            continue
        good.append(rec)
    return good


def _validate_all(res, goods, lit_traces):
    """one batch of TLC runs for every block trace and every literal trace"""
    traces = [_trace_of(r) for r in goods] + lit_traces
    runs, verdicts = tlc.validate_traces("RTLIRTypesTrace", {"traces": traces}, timeout=3000)
    for r in runs:
        res.add_tlc(r)
    res.add_traces(len(traces))
    res.add_evals(sum(len(t["nodes"]) for t in traces[:len(goods)]) + len(lit_traces))
    return verdicts[:len(goods)], verdicts[len(goods):]


def _finish(res, good, verdicts):
    for family in sorted(set(r["family"] for r in good)):
        fam = [r for r in good if r["family"] == family]
        acc = sum(1 for r in fam if r["verdict"] == "accepted")
        res.count("blocks_%s" % family, len(fam))
        res.count("blocks_%s_accepted" % family, acc)
    acc = sum(1 for r in good if r["verdict"] == "accepted")
    res.count("blocks_accepted", acc)
    res.count("blocks_rejected", len(good) - acc)
    res.count("blocks_raising_width_error_in_simulation",
              sum(1 for r in good if r["sim"]["raised"] and r["sim"]["cat"] == "width"))
    res.count("nodes_with_runtime_width", sum(1 for r in good for n in r["nodes"] if n["rk"] in ("bits", "int")))
    for r in good:
        res.distinct((r["family"], tuple(r["src"])))
    _report(res, good, verdicts, "")
    res.note("clauses_failed", dict(collections.Counter(v[0] for v in verdicts if v[0] != "ok")))


# ------------------------------------------------------------------------------------------
# 2. spec -> code
# ------------------------------------------------------------------------------------------

def _spec_to_code(res, tier, workdir, cexs):
    """every state of a dumped model graph, and every counterexample state of the model check, as a real block"""
    quick = tier == "quick"
    sw, nums, tws, depth = ({1, 2, 3}, {0, 1, 3, 4}, {1, 2, 3}, 1) if quick else ({1, 3}, {1, 4}, {1, 3}, 2)
    r, states, init, edges = tlc.dump_graph("RTLIRTypes", cfg_text=_model_cfg(sw, nums, set(), tws, depth, invs=False),
                                            timeout=3000)
    res.add_tlc(r)
    if not states:
        raise MachineryError("no states dumped for RTLIRTypes")
    blocks = []
    for j, (sid, st) in enumerate(sorted(states.items())):
        if L.inverts_inferred(L.from_model(st["e"])):
            res.count("model_states_not_replayed_negative_int")       # ~ of an int is a negative Python int
            continue
        blocks.append(L.model_block("M%d" % j, st["e"], st["tw"]))
    recs = _observe(blocks, workdir, nsamples=4)
    good = _prepare(res, recs, "model_states")
    res.note("spec_to_code_states", len(states))
    res.note("spec_to_code_states_replayed", len(good))
    res.note("spec_to_code_bounds", {"SigWidths": sorted(sw), "Nums": sorted(nums), "TargetWidths": sorted(tws),
                                     "MaxDepth": depth})
    if len(good) < len(states) // 3:
        raise MachineryError("only %d of %d model states could be replayed" % (len(good), len(states)))
    if good:
        res.sample({"kind": "spec->code", "block": good[len(good) // 2]["src"], "verdict": good[len(good) // 2]["verdict"]})
    # counterexamples of the model's invariants: at most CEX_CAP per invariant, evenly spread over the sorted list
    cap = 48 if quick else 400
    by_inv = collections.defaultdict(list)
    for c in cexs:
        by_inv[c[0]].append(c)
    cblocks, cmeta = [], {}
    for inv in sorted(by_inv):
        lst = by_inv[inv]
        step = max(1, -(-len(lst) // cap))
        for (_, cfgname, e, tw) in lst[::step]:
            if L.inverts_inferred(L.from_model(e)):
                continue
            name = "X%d" % len(cblocks)
            cblocks.append(L.model_block(name, e, tw, tag="model-counterexample"))
            cmeta[name] = inv
    cgood = _prepare(res, _observe(cblocks, workdir, nsamples=6), "model_counterexamples") if cblocks else []
    for rec in cgood:
        rec["invariant"] = cmeta[rec["name"]]
    res.note("model_counterexamples", {inv: len(v) for inv, v in by_inv.items()})
    res.note("model_counterexamples_replayed", len(cgood))
    return good + cgood


def _counterexamples_finish(res, good, verdicts):
    """a violated model invariant must be confirmed on the code by at least one of its counterexamples (the
    trace validation of the replayed block fails -- that is what is reported); if the real checker accepts
    counterexample blocks and none misbehaves, the model misrepresents the code"""
    stat = collections.defaultdict(lambda: [0, 0, 0])        # invariant -> [replayed, accepted, confirmed]
    for rec, (err, pos) in zip(good, verdicts):
        if rec["family"] != "model_counterexamples":
            continue
        st = stat[rec["invariant"]]
        st[0] += 1
        st[1] += rec["verdict"] == "accepted"
        st[2] += err != "ok"
    res.note("model_counterexamples_confirmed_on_code",
             {inv: {"replayed": a, "accepted": b, "confirmed": c} for inv, (a, b, c) in stat.items()})
    for inv, (a, b, c) in sorted(stat.items()):
        if b > 0 and c == 0:
            raise MachineryError("invariant %s fails in RTLIRTypes.tla, the real checker accepts %d of the %d replayed "
                                 "counterexample blocks, but none of them misbehaves: the model misrepresents the code"
                                 % (inv, b, a))


# ------------------------------------------------------------------------------------------
# 4. literal clause
# ------------------------------------------------------------------------------------------

def _literals(res, tier):
    from pymtl3.passes.rtlir.behavioral.BehavioralRTLIRTypeCheckL1Pass import BehavioralRTLIRTypeCheckVisitorL1
    R = rng("c10-lit")
    vals = set(L.literal_values(70))
    for _ in range(400 if tier == "quick" else 6000):
        vals.add(R.getrandbits(R.randint(1, 71)))
    vals = sorted(vals)
    traces, meta = [], []
    for v in vals:
        for src, fn in (("RTLIRDataType", _checker_literal_width),
                        ("TypeCheckL1", lambda x: BehavioralRTLIRTypeCheckVisitorL1._get_nbits_from_value(None, x))):
            try:
                w = int(fn(v))
            except Exception as e:          # noqa: BLE001
                raise MachineryError("literal width of %d via %s raised %r" % (v, src, e))
            traces.append({"kind": "lit", "limbs": L.limbs(v), "sw": w})
            meta.append((v, src, w))
    res.note("literals_checked", len(vals))
    return traces, meta


def _literals_finish(res, meta, verdicts):
    bad = []
    for (v, src, w), (err, pos) in zip(meta, verdicts):
        res.distinct(("lit", v))
        if err != "ok":
            bad.append((v, src, w))
            if w == _float_log2_width(v):
                key = "literal-width-float-log2"
            else:
                key = "literal-width:v=%d,%s,got=%d" % (v, src, w)
            res.violation(key, "integer literal %d (= 2^%d%+d) needs %d bits but %s._get_nbits_from_value infers %d "
                          "(float log2 rounding); smallest such literal: 2**49 = 562949953421312 -> 49"
                          % (v, (v).bit_length() - 1 if v else 0, v - (1 << ((v).bit_length() - 1)) if v else 0,
                             L.bitlen(v), src, w),
                          {"value": v, "source": src, "got": w, "want": L.bitlen(v), "clause": err})
    res.note("literals_with_wrong_width", len(bad))
    if bad:
        res.note("smallest_wrong_literal", min(b[0] for b in bad))


# ------------------------------------------------------------------------------------------
# 3b. the repo's own RTLIR test cases
# ------------------------------------------------------------------------------------------

def _repo_cases_worker(names):
    import warnings
    warnings.simplefilter("ignore")
    sys.path[0:0] = [REPO] if REPO not in sys.path else []
    import random
    import c10_obs as O
    from pymtl3.passes.testcases import test_cases as tc
    out = []
    for nm in names:
        case = getattr(tc, nm)
        R = random.Random(seed() * 7919 + hash(nm) % 100003)
        rec = {"name": nm}
        try:
            comp = case.DUT()
            o = O.observe_component(comp, R, 3)
        except BaseException as e:      # noqa: BLE001
            rec["elab_error"] = "%s: %s" % (type(e).__name__, str(e).strip().split("\n")[0][:120])
            out.append(rec)
            continue
        rec.update({k: o[k] for k in ("verdict", "exc", "msg")})
        rec["blocks"] = o["blocks"]
        for k in ("sim_setup_error", "unconvertible"):
            if k in o:
                rec[k] = o[k]
        out.append(rec)
    return out


def _repo_cases(res, tier):
    from pymtl3.passes.testcases import test_cases as tc
    names = sorted(n for n in dir(tc) if n.startswith("Case") and hasattr(getattr(tc, n), "DUT"))
    ncpu = os.cpu_count() or 4
    chunks = [names[i::ncpu] for i in range(ncpu)]
    recs = []
    with ProcessPoolExecutor(max_workers=ncpu) as ex:
        for part in ex.map(_repo_cases_worker, [c for c in chunks if c]):
            recs += part
    flat = []
    nacc = 0
    for rec in recs:
        if "elab_error" in rec:
            res.count("repo_cases_not_elaborating")
            continue
        if rec["verdict"] != "accepted":
            res.count("repo_cases_%s" % rec["verdict"])
            continue
        nacc += 1
        for b in rec["blocks"]:
            if not b["nodes"]:
                continue
            flat.append({"name": rec["name"] + "." + b["name"], "src": [rec["name"] + "." + b["name"]],
                         "verdict": "accepted", "exc": "", "msg": "", "nodes": b["nodes"], "sim": b["sim"],
                         "simulated": b["simulated"], "tag": "repo"})
            if not b["simulated"]:
                res.count("repo_blocks_not_simulated")
    res.note("repo_case_components", len(names))
    res.note("repo_case_components_accepted", nacc)
    if nacc < 40:
        raise MachineryError("only %d repo test-case components type-check (expected > 100)" % nacc)
    good = _prepare(res, flat, "repo_cases")
    ops = collections.Counter(n["k"] for r in good for n in r["nodes"])
    res.note("repo_case_node_kinds", dict(ops))
    return good


# ------------------------------------------------------------------------------------------
# 3a. generated blocks
# ------------------------------------------------------------------------------------------

def _generated(res, tier, workdir):
    quick = tier == "quick"
    R = rng("c10-gen")
    blocks = []
    g = L.BlockGen(R, wild=0.10)
    for i in range(700 if quick else 12000):
        blocks.append(g.block("G%d" % i))
    g2 = L.BlockGen(R, wild=0.0)
    for i in range(300 if quick else 4000):
        b = g2.block("C%d" % i)
        b.tag = "clean"
        blocks.append(b)
    blocks += L.literal_blocks(L.literal_values(70))
    blocks += L.context_literal_blocks(R, 192 if quick else 1920)
    blocks += L.loop_blocks()
    blocks += L.shape_blocks()
    sblocks = L.struct_blocks(rng("c10-structs"), 1 if quick else 32, light=quick)
    res.note("struct_family_blocks", len(sblocks))
    blocks += sblocks
    recs = _observe(blocks, workdir)
    good = _prepare(res, recs, "generated")
    kinds = collections.Counter(n["k"] for r in good for n in r["nodes"])
    res.note("generated_node_kinds", dict(kinds))
    for k in ("sig", "field", "num", "bconst", "cast", "unop", "binop", "shift", "cmp", "ifexp", "concat", "zext",
              "sext", "trunc", "reduce", "bit", "elem", "slice", "loopvar", "tmp", "assign", "if", "for", "idx",
              "sinst"):
        if kinds.get(k, 0) == 0:
            raise MachineryError("generator never produced a %r node" % k)
    acc = [r for r in good if r["verdict"] == "accepted"]
    if len(acc) < len(good) // 4:
        raise MachineryError("only %d of %d generated blocks are accepted by the type checker (vacuous)"
                             % (len(acc), len(good)))
    # the bitstruct family must be exercised: struct / list typed nodes of every class, with run-time widths
    tcs = collections.Counter(n["tc"] for r in acc for n in r["nodes"] if "tc" in n and n["rk"] == "bits")
    res.note("struct_type_classes_observed", dict(tcs))
    for tc in ("struct", "struct[list1d]", "struct[list2d]", "struct[list3d]", "struct[list2d][nested]",
               "list1d", "list2d", "list3d"):
        if tcs.get(tc, 0) == 0:
            _DEFERRED.append("no accepted block with a run-time observed node of type class %s" % tc)
    sacc = [r for r in good if r["tag"].startswith("struct")]
    sv = collections.Counter((r["tag"], r["verdict"]) for r in sacc)
    res.note("struct_family_verdicts", {"%s/%s" % k: v for k, v in sv.items()})
    if sv.get(("struct", "accepted"), 0) < sum(v for (t, _), v in sv.items() if t == "struct") // 2:
        _DEFERRED.append("less than half of the width-correct bitstruct family is accepted: %s" % dict(sv))
    nrej_mis = sum(1 for r in good if r["verdict"] == "rejected" and r["sim"]["raised"] and r["sim"]["cat"] == "width")
    res.note("rejected_blocks_that_raise_width_error_in_simulation", nrej_mis)
    return good


# ------------------------------------------------------------------------------------------
# 5. canaries
# ------------------------------------------------------------------------------------------

def _drop_inner_dim(ty):
    """remove the innermost dimension of the first multi-dimensional list field below ty (in place)"""
    if ty["k"] == "list":
        if ty["t"]["k"] == "list":
            if ty["t"]["t"]["k"] != "list":
                if ty["t"]["n"] == 1:
                    return False
                ty["t"] = ty["t"]["t"]
                return True
            return _drop_inner_dim(ty["t"])
        return _drop_inner_dim(ty["t"])
    if ty["k"] == "struct":
        return any(_drop_inner_dim(f["t"]) for f in ty["fs"])
    return False


def _canaries(res, good, verdicts, lit_traces, lit_verdicts):
    can, kinds = [], []
    okacc = [r for r, v in zip(good, verdicts) if v[0] == "ok" and r["verdict"] == "accepted"]
    # (a) a recorded static width altered at an explicitly sized operator node
    for r in okacc:
        idx = [i for i, n in enumerate(r["nodes"]) if n["k"] in ("binop", "cmp", "concat", "slice", "shift", "zext")
               and n["sw"] > 0 and n["sx"]]
        if idx and kinds.count("static") < 12:
            t = copy.deepcopy(_trace_of(r))
            t["nodes"][idx[-1]]["sw"] += 1
            can.append(t)
            kinds.append("static")
    # (b) a recorded run-time width altered
    for r in okacc:
        idx = [i for i, n in enumerate(r["nodes"]) if n["rk"] == "bits" and n["sw"] > 0]
        if idx and kinds.count("runtime") < 12:
            t = copy.deepcopy(_trace_of(r))
            t["nodes"][idx[len(idx) // 2]]["rw"] += 1
            can.append(t)
            kinds.append("runtime")
    # (c) an inferred literal recorded narrower than it is
    for r in okacc:
        idx = [i for i, n in enumerate(r["nodes"]) if n["k"] == "num" and n["sw"] > 1 and not n["sx"]
               and n["role"] == "" and L.bitlen(_val(n)) == n["sw"]]
        if idx and kinds.count("literal") < 8:
            t = copy.deepcopy(_trace_of(r))
            t["nodes"][idx[0]]["sw"] -= 1
            can.append(t)
            kinds.append("literal")
    # (d) a rejected explicit mismatch that raises in simulation, flipped to accepted
    n_flip = 0
    for r, v in zip(good, verdicts):
        if v[0] == "ok" and r["verdict"] == "rejected" and r["sim"]["raised"] and r["sim"]["cat"] == "width" \
                and not any(n["k"] in ("cast", "shift") for n in r["nodes"]) and n_flip < 12:
            t = copy.deepcopy(_trace_of(r))
            t["accepted"] = True
            for n in t["nodes"]:
                n["sw"] = 0                    # no static types recorded for a rejected block
            can.append(t)
            kinds.append("flip")
            n_flip += 1
    # (e) an accepted, clean block whose simulation is claimed to raise a width error
    for r in okacc:
        if not any(n["k"] in ("cast", "shift", "opq") for n in r["nodes"]) and kinds.count("raise") < 8:
            t = copy.deepcopy(_trace_of(r))
            t["sim"] = {"raised": True, "cat": "width"}
            can.append(t)
            kinds.append("raise")
    # (f) a correct literal width altered
    for t0, v in zip(lit_traces, lit_verdicts):
        if v[0] == "ok" and kinds.count("lit") < 8 and len(t0["limbs"]) > 2:
            t = copy.deepcopy(t0)
            t["sw"] += 1
            can.append(t)
            kinds.append("lit")
    # (g) the static width of a bitstruct / list-field typed node altered
    for r in okacc:
        idx = [i for i, n in enumerate(r["nodes"]) if "tc" in n and n["k"] in ("sig", "field", "idx", "elem", "tmp")
               and n["sw"] > 1 and n["rk"] == "bits"]
        if idx and kinds.count("struct-static") < 12:
            t = copy.deepcopy(_trace_of(r))
            j = idx[len(can) % len(idx)]
            t["nodes"][j]["sw"] += 1 if kinds.count("struct-static") % 2 else -1
            can.append(t)
            kinds.append("struct-static")
    # (h) one list dimension dropped from the declared shape of a struct signal (static and run time unchanged)
    for r in okacc:
        idx = [i for i, n in enumerate(r["nodes"]) if n["k"] in ("sig", "elem") and "list2d" in n.get("tc", "")
               or n["k"] in ("sig", "elem") and "list3d" in n.get("tc", "")]
        if idx and kinds.count("struct-shape") < 8:
            t = copy.deepcopy(_trace_of(r))
            if _drop_inner_dim(t["nodes"][idx[0]]["ty"]):
                can.append(t)
                kinds.append("struct-shape")
    # (i) the run-time width of a struct / list-field typed node altered
    for r in okacc:
        idx = [i for i, n in enumerate(r["nodes"]) if "tc" in n and n["rk"] == "bits" and n["sw"] > 0]
        if idx and kinds.count("struct-runtime") < 8:
            t = copy.deepcopy(_trace_of(r))
            t["nodes"][idx[-1]]["rw"] -= 1
            can.append(t)
            kinds.append("struct-runtime")
    # (j) a rejected struct <-> BitsN assignment of different widths that raises in simulation, flipped to accepted
    n_flip = 0
    for r, v in zip(good, verdicts):
        if v[0] == "ok" and r["verdict"] == "rejected" and r["sim"]["raised"] and r["sim"]["cat"] == "width" \
                and r.get("tag") in ("struct-wrong-width", "struct-model") and n_flip < 8 \
                and not any(n["k"] in ("cast", "shift") for n in r["nodes"]):
            t = copy.deepcopy(_trace_of(r))
            t["accepted"] = True
            for n in t["nodes"]:
                n["sw"] = 0
            can.append(t)
            kinds.append("struct-flip")
            n_flip += 1
    need = {"static", "runtime", "literal", "flip", "raise", "lit", "struct-static", "struct-shape", "struct-runtime",
            "struct-flip"}
    if need - set(kinds):
        # the material of a canary comes from traces that validate: a tree that breaks the property may leave none
        if not res.violations:
            raise MachineryError("no material for canaries of kind %s" % sorted(need - set(kinds)))
        res.note("canaries_without_material", sorted(need - set(kinds)))
    _, cv = tlc.validate_traces("RTLIRTypesTrace", {"traces": can}, timeout=3000, chunk=len(can))
    acc = [(i, kinds[i]) for i, v in enumerate(cv) if v[0] == "ok"]
    if acc:
        raise MachineryError("canary traces accepted by RTLIRTypesTrace: %s" % acc[:6])
    res.note("canaries_rejected", dict(collections.Counter(kinds)))
    res.note("canary_clauses", dict(collections.Counter(v[0] for v in cv)))


# ------------------------------------------------------------------------------------------

def run(res, tier):
    import warnings
    warnings.simplefilter("ignore", SyntaxWarning)
    tm, t0 = {}, time.time()

    def lap(name):
        nonlocal t0
        tm[name] = round(time.time() - t0, 1)
        t0 = time.time()
    del _DEFERRED[:]
    with scratch() as d:
        from concurrent.futures import ThreadPoolExecutor
        with ThreadPoolExecutor(max_workers=1) as ex:       # the struct model next to the expression models
            fut = ex.submit(_struct_model_check, res, tier)
            cexs = _model_check(res, tier)
            sstates = fut.result()
        lap("model_check")
        lt, lmeta = _literals(res, tier)
        good = _spec_to_code(res, tier, d, cexs)
        lap("spec_to_code")
        good += _struct_spec_to_code(res, tier, d, sstates)
        lap("struct_spec_to_code")
        good += _generated(res, tier, d)
        lap("generated")
        good += _repo_cases(res, tier)
        lap("repo_cases")
        bv, lv = _validate_all(res, good, lt)
        lap("trace_validation")
        _finish(res, good, bv)
        _counterexamples_finish(res, good, bv)
        _literals_finish(res, lmeta, lv)
        ok = [r for r, v in zip(good, bv) if v[0] == "ok" and r["verdict"] == "accepted" and len(r["nodes"]) > 6
              and r["family"] == "generated"]
        for r in ok[:3]:
            res.sample({"kind": "generated block", "source": r["src"],
                        "nodes": [[n["k"], n["sw"], n["sx"], n["rk"], n["rw"]] for n in r["nodes"][:14]]})
        _canaries(res, good, bv, lt, lv)
        lap("canaries")
    res.note("phase_seconds", tm)
    if _DEFERRED and not res.violations:
        raise MachineryError("; ".join(_DEFERRED))
    res.note("rule", "a case is one update block (one component class in a scratch module): every state of the "
             "TLC model graph (spec->code), random blocks over signals of widths %s with literals up to 2^70 at "
             "2^k / 2^k+-1 boundaries, loops, temporaries, struct fields, if-expressions, constant slices, "
             "(un)equal shifts and casts (10%% deliberately ill-sized choices; a clean family without), "
             "`t = <literal>`, literal-against-explicit-context, loop (ascending and descending) and mixed inferred/explicit "
             "shape families, the bitstruct family (catalogue + seeded random struct types with nested structs and 1-D/2-D/3-D "
             "list fields: every access path read / written / copied, struct <-> BitsN with the real and with plausible wrong "
             "widths, temporaries, constants, instances, sub-component / interface / array ports), every copy / pack / unpack "
             "state of the RTLIRStructs graph, and every "
             "update block of the repo's "
             "Case* components that type-check; distinct = distinct source text" % L.WIDTHS)
    res.assume("run-time ints have no width: the static width must hold them (statement says 'equals the width of "
               "the value the simulator computes')")
    res.assume("not generated: unary -/~ on inferred operands (negative Python ints), / and **, int operands of "
               "concat/zext/sext/trunc/reduce, int << Bits; out-of-range constant indices/slices fail elaboration")
    res.assume("a rejected block is never a violation by itself: the statement does not say which well-sized blocks "
               "must be accepted (counted as blocks_rejected); at least 25% of the generated blocks must be accepted")
    res.assume("explicitness of a node is compared with the rule table as well as its width")
    res.assume("the run-time width of a bitstruct value is nbits of to_bits(), of a (partially indexed) list field the sum over "
               "its elements; the shape of a bitstruct type is read from the class's field declarations (__bitstruct_fields__)")
    res.assume("operators applied to whole structs / list fields, an int assigned to a struct and list @= list raise "
               "TypeError / AttributeError in simulation (not width errors): such blocks are outside the statement; out-of-range "
               "indices of list fields raise IndexError (not a width error)")
