"""C07  Flip-flop updates are atomic at the clock edge.

spec/SimKernel.tla: RunFF leaves the visible state untouched and accumulates into the pending copy
(last assignment executed wins, an unassigned register holds), Flip commits all registers together;
TLC checks FFInvisible / FFAtomic for every permutation on the model.  On the implementation every
permutation of schedule_ff (simple and dynamic passes; Mamba's own order) is forced; the full state
is logged after EACH update_ff block (must be unchanged) and after the flip (must equal the function
of the pre-edge state), for Bits, struct-typed and list-of-signal registers, enabled / twice-assigned
/ never-assigned paths, and register outputs forwarded through whole-signal and slice nets.

NOTE: pymtl3 only accepts whole top-level signals on the left of <<=, so struct registers are assigned
as whole values and lists through an index. Trusted base as for C01.
"""
import kernel
import kernel_check as kc
from common import scratch

READY = True


def run(res, tier):
    quick = tier == "quick"
    kc.model_check(res, maxcyc=1 if quick else 2)
    with scratch("c07_") as sdir:
        designs = kc.ff_designs() + kc.rand_designs("c07r", 25 if quick else 400,
                                                    opts={"regs": 1.6, "arrays": 0.6, "structs": 0.4, "nets": 0.6})

        def drive(c):
            c.run_modes(kernel.MODES, cycles=5 if quick else 10, seeds=(0,), recheck=False)
            c.run_ff_perms(limit=24 if quick else 120, cycles=4 if quick else 8)
        c, ndesigns = kc.run_chunked(res, "c07", "C07", sdir, designs, len(designs) if quick else 60, drive)
        res.sample({"design": c.djs[4]["name"], "source": c.designs[4].py_source()})
        ffev = [e for e in c.traces[-1]["ev"] if e["k"] in ("ff", "flip")][:6]
        res.sample({"mode": c.traces[-1]["mode"], "edge_events": ffev})
    res.note("designs", ndesigns)
    res.note("rule", "a case = (design, pass group | forced permutation of the update_ff blocks)")
    res.assume("generated designs; registers are whole top-level signals (pymtl3 rejects anything else)")
