"""C03  Translated SystemVerilog behaves exactly like the PyMTL simulation (translation validation).

Translation validation: every design of the corpus is translated by the real VerilogTranslationPass; the
emitted text is parsed by our own parser (harness/svparse.py - a parse / name-resolution failure is the
"syntactically valid" verdict), flattened (harness/svelab.py, bookkeeping only) and executed by TLC under
the IEEE 1800 two-state semantics written down in spec/SVSem.tla.  The PyMTL simulation of the same design
(DefaultPassGroup) supplies the trace; spec/SVSemTrace.tla steps the Verilog model with the recorded inputs
and requires equal values on every output port after sim_eval_combinational and after sim_tick of every
cycle (roles: spec = semantics of the emitted artefact, trace = PyMTL behaviour).  Mode "drv" of the same
spec evaluates the OneDriver clause (SVSem!Drivers) on every emitted design.

  corpus   repo test cases (pymtl3/passes/testcases/test_cases.py: every Case* with a DUT; the ones the pass
           rejects are counted as outside the quantifier) with the maintainers' hand-written vectors AND
           random vectors; stdlib RTL components (arbiters, muxes, crossbars, register files, queues,
           ChecksumRTL, thorough: ProcRTL / ChecksumXcelRTL); generated designs (harness/svgen.py):
           operators x operand shapes x widths {1,2,7,8,31,32,33,64}, control flow, structs, packed and
           unpacked arrays, hierarchies with interfaces and arrays of sub-components, sequential logic;
           family nd: every array-like construct (port / wire / register arrays, packed arrays of Bits and
           of structs in struct ports, wires and temporaries, arrays of interfaces, interfaces nested in
           interfaces, port arrays in interfaces, arrays of sub-components with scalar ports, port arrays
           and interface arrays, constant arrays) x {1, 2 (non-square), 3} dimensions x {constant, loop
           variable, signal} indices in update blocks and constant indices in connect statements, every
           element with its own function; family lv: 26 uses of a loop variable (index, operand, comparison,
           shift amount, shifted value, size casts, extensions, slice bounds) x 8 range forms (ascending,
           offset, stepped, descending, nested)
  trust    before anything else the interpreter must reproduce the maintainers' expectations: the TV / TV_IN /
           TV_OUT vector sets of the repo cases are turned into traces directly (no PyMTL simulation involved)
           and validated; a vector set that fails although the PyMTL trace of the same design is accepted
           is a machinery failure
  canaries a flipped bit of a recorded output and a swapped operator in the parsed text must be rejected

Helper modules: harness/svparse.py svelab.py svgen.py svharness.py svcorpus.py svcheck.py;
specs: spec/SVSem.tla spec/SVSemTrace.tla (+ spec/BitStruct.tla for port shapes).

NOTE: trusted base / assumptions: (1) harness/svparse.py decides "syntactically valid" for the subset of
IEEE 1800-2017 the back end emits (module / ports / typedef struct packed / localparam / always_comb /
always_ff @(posedge clk) / assign / if / for / blocking and non-blocking assignment / named-port
instantiation / hierarchical reference; sized and unsized literals, selects, concatenation, replication,
size cast, unary, binary, ?:); a construct outside the subset is a machinery failure (exit 2), never a
verdict and never skipped.  (2) spec/SVSem.tla is our reading of IEEE 1800-2017 6.24.1, 7.2.1, 7.4, 10.3,
10.4, 11.4-11.8, 12.4, 12.7.1, 23.3.3: two-state (a variable that is never driven reads 0; division by zero
and out-of-range reads give an X marker that never equals a PyMTL value), single clock `clk`, always_comb /
assign iterated to a fixed point, always_ff evaluated on pre-edge values with non-blocking commit.
(3) Cycles in which the PyMTL simulation itself raises (division by zero, index out of range) end the
recorded run and are outside the property; designs the translation pass rejects and designs with
VerilogPlaceholder components are outside the quantifier (counted in the evidence).  (4) Sampling: designs
and stimulus are generated, not exhaustive; distinct_nontrivial counts the validated (design, stimulus run)
pairs.
"""
import svcheck
import svcorpus
import svgen
from common import MachineryError, rng

LEVEL = "translation_validation"
READY = True
BACKEND = "sv"
PID = "C03"

# (family, number of designs) per tier
# "nd" = every array-like construct x {1, 2, 3} dimensions x {constant, loop-variable, signal} indices in update
# blocks and connect statements: index = construct + 16 * (dimensions - 1) (+ 48 per further round of the grid,
# which draws other sizes / widths); "lv" = every use of a loop variable x 8 range forms.
# An entry is (family, number of designs) or (family, list of design indices).
def nd_idx(dims, constructs=None, rounds=1):
    import svgen
    cs = svgen.ND_CONSTRUCTS
    return [r * 3 * len(cs) + (d - 1) * len(cs) + cs.index(c) for r in range(rounds) for d in dims
            for c in (constructs or cs)]


# the sub-component constructs are the heaviest (4 arrays of instances each): the quick tier has two of the four in 3-D
_ND_LIGHT = ["port", "sport", "wire", "pfield", "pfwire", "pftmp", "sfield", "ifc", "ifcnest", "ifcport", "ffwire", "constarr"]
GEN = {
    "quick": [("unit", 160), ("ops", 40), ("expr", 24), ("ctrl", 24), ("loopidx", 10), ("struct", 10), ("hier", 14),
              ("seq", 12), ("misc", 14),
              ("nd", nd_idx([1, 2]) + nd_idx([3], _ND_LIGHT + ["comphet", "compifc"])),
              ("lv", 8), ("stmt", 28)],
    # (the whole grid and a second round of its 2-D part; the expression families
    # were trimmed by about a fifth to make room: unit 480 -> 400, ops 560 -> 400, expr 400 -> 320, ctrl 300 -> 240)
    "thorough": [("unit", 400), ("ops", 400), ("expr", 320), ("ctrl", 240), ("loopidx", 100), ("struct", 100),
                 ("hier", 100), ("seq", 120), ("misc", 120),
                 ("nd", nd_idx([1, 2, 3]) + [48 + i for i in nd_idx([2])]), ("lv", 32), ("stmt", 84)],
}
QUICK_STDLIB = ["RoundRobinArbiter_4", "RoundRobinArbiterEn_3", "Mux_8_4", "Mux_33_2", "Demux_8_4", "Adder_33", "Subtractor_32",
                "Incrementer_8", "ZeroComparator_32", "LTComparator_33", "LEComparator_8", "EqComparator_1",
                "LeftLogicalShifter_32", "RightLogicalShifter_33", "Reg_8", "RegEn_33", "RegRst_32", "RegEnRst_8",
                "Crossbar_4_8", "Encoder_8_3", "RegisterFile_8_4", "RegisterFile_32_8_c0", "RegisterFileRst_16_4",
                "q_NormalQueueRTL_16_2", "q_PipeQueueRTL_8_3", "q_BypassQueueRTL_16_2", "q_NormalQueue1EntryRTL_16",
                "stream_NormalQueueRTL_8_3", "stream_PipeQueueRTL_16_2", "stream_BypassQueue1EntryRTL_16",
                "enrdy_PipeQueue1RTL_16", "enrdy_BypassQueue2RTL_8", "StepUnit", "ChecksumRTL", "AluRTL", "ImmGenRTL",
                "DropUnitRTL"]


# the yosys check shares the expression translator with C03 and validates every run twice (cross check
# against the SystemVerilog text, second opinion for signed loop variables): fewer expression designs,
# more structural ones
# (quick: the n-dimensional forms of every construct the yosys back end flattens; the constructs whose yosys
# translation is invalid / disconnected for every size (known findings: struct-typed temporaries, nested
# interfaces, struct wires) and the heaviest ones only in 2-D; the whole grid in the thorough tier)
GEN_C12 = {
    "quick": [("unit", 40), ("ops", 8), ("expr", 10), ("ctrl", 12), ("loopidx", 10), ("struct", 16), ("hier", 14),
              ("seq", 8), ("misc", 14),
              ("nd", nd_idx([2], ["port", "sport", "wire", "pfield", "pfwire", "pftmp", "ifc", "ifcnest", "ifcport", "comp",
                                  "ffwire", "constarr"])
               + nd_idx([3], ["port"]) + nd_idx([1], ["ifcnest", "ifcport"])),
              ("lv", [0, 2, 4, 5, 6, 7]), ("stmt", 14)],
    # (the grid (of the four sub-component constructs two in 3-D) and a second round of its 2-D part; unit 320 -> 240, ops 300 -> 220,
    # expr 240 -> 200, ctrl 200 -> 170, struct 180 -> 160, hier 120 -> 110 make room for it)
    "thorough": [("unit", 240), ("ops", 220), ("expr", 200), ("ctrl", 170), ("loopidx", 100), ("struct", 160),
                 ("hier", 110), ("seq", 100), ("misc", 120),
                 ("nd", nd_idx([1, 2]) + nd_idx([3], _ND_LIGHT + ["comphet", "compifc"]) + [48 + i for i in nd_idx([2], _ND_LIGHT)]),
                 ("lv", 16), ("stmt", 56)],
}


def gen_specs(tier, seed_tag):
    specs = []
    for fam, n in (GEN_C12 if seed_tag == "C12" else GEN)[tier]:
        for i in (range(n) if isinstance(n, int) else n):
            name, src, meta = svgen.design(fam, i, seed_tag)
            if seed_tag == "C12" and tier == "quick" and fam in ("unit", "ops", "expr"):
                # quick tier: no second validation of the SystemVerilog text of the expression designs
                # (the expression translator is shared, C03 validates that text on its own vectors)
                meta = dict(meta, nocross=True)
            specs.append(("gen", name, src, "Top", meta))
    return specs


def corpora(tier, pid=PID):
    """[(label, specs, random runs per design, cycles per run)]"""
    names = svcorpus.repo_case_names()
    std_all = svcorpus.stdlib_names(big=False)
    if tier == "quick":
        std = [n for n in QUICK_STDLIB if n in std_all]
        cfg = {"explicit_module_name": "RenamedTop"}
        return [("repo", [("repo", n) for n in names], 1, 8 if pid == PID else 6),
                ("stdlib", [("stdlib", n) for n in std] + [("stdlib", n, cfg) for n in std[:4]], 1, 12 if pid == PID else 10),
                ("gen", gen_specs(tier, pid), 1, 6)]
    cfg = {"explicit_module_name": "RenamedTop", "explicit_file_name": "renamed_file.v"}
    return [("repo", [("repo", n) for n in names], 4, 20),
            ("repo_cfg", [("repo", n, cfg) for n in names[::3]], 1, 10),       # translation config: explicit names
            ("stdlib", [("stdlib", n) for n in std_all], 2, 30),
            ("stdlib_big", [("stdlib", n) for n in svcorpus.stdlib_names(big=True) if n not in std_all], 1, 40),
            ("gen", gen_specs(tier, pid), 2, 12)]


def run(res, tier, backend=BACKEND, pid=PID, cross=False, portmap=False, uns=False):
    batches = []
    # a safety net only: one TLC process of the thorough tier interprets for 10-20 minutes on an idle machine,
    # several times longer on a loaded one
    svcheck.TLC_TIMEOUT = 3000 if tier == "quick" else 6 * 3600
    for label, specs, nrand, ncyc in corpora(tier, pid):
        if not specs:
            raise MachineryError("empty corpus %s" % label)
        B = svcheck.run_batch(res, backend, specs, nrand, ncyc, "%s/%s" % (pid, tier), label, cross=cross, uns=uns)
        batches.append(B)
        res.note("corpus_%s_designs" % label, len(specs))
    # -- the interpreter must have reproduced the maintainers' vectors
    n_sets = res.notes.get("repo_hand_vector_sets_run", 0)
    n_ok = res.notes.get("repo_hand_vector_sets_reproduced", 0)
    if n_sets < 50 or n_ok == 0:
        raise MachineryError("only %d hand-written vector sets could be run (%d reproduced)" % (n_sets, n_ok))
    svcheck.check_coverage(res, batches, need_flat=portmap)
    svcheck.canaries(res, batches, rng("%s/canaries/%s" % (pid, tier)), n=8 if tier == "quick" else 20, portmap=portmap)
    # -- evidence
    for B in batches:
        k = 0
        for t, (v, info) in zip(B.traces, B.vi):
            if t["mode"] == "run" and v[0] == "ok" and t["ev"] and k < 2 and B.label in ("repo", "gen"):
                p = B.preps[t["owner"]]
                e = t["ev"][min(len(t["ev"]) - 1, 4)]
                res.sample({"design": t["tag"], "back end": backend, "cycles": len(t["ev"]),
                            "a cycle": {"in": {x["n"]: _hex(x["v"]) for x in e["in"][:6]},
                                        "out after comb": {x["n"]: _hex(x["v"]) for x in e["outc"][:6]}},
                            "shape": (p.get("meta") or {}).get("sigs")})
                k += 1
    res.note("rule", "a case = one (design, stimulus run) pair: the design translated by the real pass, its emitted "
             "text interpreted by TLC cycle by cycle against the recorded PyMTL run (every output port compared after the "
             "combinational evaluation and after the clock edge), plus one OneDriver evaluation per design; designs "
             "come from the repo test cases (own vectors + random vectors), stdlib RTL components and the generator "
             "(operator x operand shape x width grid, control flow, structs, arrays, hierarchies, sequential logic; the grid "
             "array-like construct x {1, 2, 3} dimensions x {constant, loop-variable, signal index, connect} with a distinct "
             "function per element, and the grid loop-variable use x range form); "
             "distinct = distinct (back end, design, run) tags; a run is non-trivial when it has at least one output "
             "comparison (runs of designs without outputs only exercise syntax / OneDriver)")
    res.note("disagreements_checked_is", "the number of output-leaf comparisons TLC made between the value the emitted text "
             "computes and the value recorded from the PyMTL simulation (clauses mismatch-comb / mismatch-tick)")
    res.assume("harness/svparse.py decides syntactic validity for the emitted subset of IEEE 1800-2017; constructs outside "
               "the subset are a machinery failure")
    res.assume("spec/SVSem.tla is our reading of IEEE 1800-2017 two-state semantics (clauses 6.24.1, 7.2.1, 7.4, 10.3, 10.4, "
               "11.4-11.8, 12.4, 12.7.1, 23.3.3); never-driven variables read 0; single clock clk")
    res.assume("cycles in which the PyMTL simulation raises (division by zero, out-of-range index) are outside the property; "
               "designs rejected by the translation pass and VerilogPlaceholder designs are outside the quantifier")
    return batches


def replay(obj, backend=BACKEND, pid=PID):
    """Re-run the design of a replay file (written for a violation): translate it again with the pass of
    $VERIF_REPO, record the same stimulus, validate with TLC and print the verdict of every trace."""
    import common
    d = obj.get("detail") or {}
    spec = d.get("spec")
    tier = obj.get("tier", "quick")
    if not spec:
        print(obj)
        return 0
    found = None
    for label, specs, nrand, ncyc in corpora(tier, pid):
        for sp in specs:
            if list(sp[:2]) == list(spec[:2]):
                found = (sp, nrand, ncyc)
                break
        if found:
            break
    if not found:
        print("design %s is not in the %s corpus of %s any more" % (spec, tier, pid))
        return 2
    sp, nrand, ncyc = found
    res = common.Result(pid, tier, LEVEL)
    B = svcheck.run_batch(res, backend, [sp], nrand, ncyc, "%s/%s" % (pid, tier), "replay", cross=False)
    for t, (v, info) in zip(B.traces, B.vi):
        print("%-60s %s at %d" % (t["tag"], v[0], v[1]))
    for v in res.violations + [dict(k, what="(known finding) " + k["what"]) for k in res.known]:
        print("VIOLATION %s\n  %s" % (v["key"], v["what"]))
    if B.preps and B.preps[0].get("text") and B.preps[0]["status"] == "syntax":
        print(B.preps[0]["text"][-2000:])
    return 1 if (res.violations or res.known) else 0


def _hex(bits):
    return "%d'h%x" % (len(bits), sum(b << i for i, b in enumerate(bits)))
