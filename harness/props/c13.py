"""C13  Translation is deterministic and module names never alias different hardware.

exploration: spec/ModuleTable.tla (invariants DefinedOnce, InstancesDefined, IdentLegalUnique, NoAlias,
history property Deterministic; abstract first-writer-wins translator table model-checked over a toy
universe of (class object, typed parameter) kinds and four name functions, TLC's NoAlias verdict must
agree with `name function injective on bodies`), spec/ModuleTableTrace.tla (validation of recorded
tables).  code -> spec: every design of a corpus (repo test-case DUTs, stdlib RTL, examples, designs
built to collide) is translated in fresh subprocesses, one per PYTHONHASHSEED (16 thorough; quick: 4 for
the examples, stdlib, parameter/hash collision designs and a third of the repo DUTs, 2 for the rest; 4 / 2
for a design both back ends refuse), by the SystemVerilog and the yosys back end; events (design, seed,
back end, sha256 of the text), the module table parsed from the text by harness/modtable.py (own tokeniser, independent of pymtl3 and of
svparse.py), and for every component instance the definitions obtained by translating that instance
ALONE (fresh build, only that component enabled) are validated by TLC.  Canaries corrupt digests,
duplicate modules, undefine instantiated modules, inject reserved / duplicate / illegal identifiers and
alias two instances; each must be rejected.

Violation keys are `<clause>:<root cause>:<design>[:<detail>]` (one per root cause and design, the back
end is part of the key only where the cause is specific to one back end).  Corpus designs that exhibit
one root cause share an id prefix which no control design has (see c13_corpus.py), so a known-finding
entry `<clause>:<root cause>:<prefix>*` does not hide a control that starts to fail.

NOTE: Body(x) is the token sequence of `module .. endmodule` of x's own module in the translation of x
alone (comments and white space removed, because comments carry source paths and line numbers), plus
the struct typedefs that module refers to.  The detection power is the subprocess enumeration over the
corpus; TLC evaluates the relational invariants on the parsed tables.  Trusted base: modtable.py
(a construct it does not recognise is a machinery failure, never a verdict), the character-code
encoding of identifiers, sha256.
"""
import collections
import copy
import hashlib
import json
import os
import re
import subprocess
import sys
import time
from concurrent.futures import FIRST_COMPLETED, ThreadPoolExecutor, wait

import c13_corpus
import common
import modtable
import tlc
from common import MachineryError

READY = True
LEVEL = "exploration"

BACKENDS = ("sv", "yosys")
HERE = os.path.dirname(os.path.dirname(os.path.abspath(__file__)))
WORKER = os.path.join(HERE, "c13_worker.py")


# --------------------------------------------------------------------------------------
# 1. the abstract model
# --------------------------------------------------------------------------------------

def _model_check(res, quick):
    combos = [("pymtl", "distinct"), ("qualified", "distinct"), ("pymtl", "blind"),
              ("notype", "typeblind"), ("nosite", "siteblind"), ("notype", "distinct"),
              ("nosite", "distinct"), ("qualified", "blind")]
    if not quick:
        combos += [("pymtl", "siteblind"), ("pymtl", "typeblind"), ("nosite", "typeblind"),
                   ("notype", "siteblind")]
    n_inj = n_non = 0
    for namefn, bodyfn in combos:
        cfg = ("SPECIFICATION Spec\nCONSTANTS NameFn = \"%s\"\n BodyFn = \"%s\"\n MaxInst = %d\n"
               " Designs = {\"d1\"}\n Backends = {\"sv\", \"yosys\"}\n Seeds = {1, 2}\n Digests = {\"x\", \"y\"}\n"
               "INVARIANT TypeOK\nINVARIANT DefinedOnce\nINVARIANT InstancesDefined\n"
               "INVARIANT FaithfulIffNoAlias\nINVARIANT InjImpliesNoAlias\nINVARIANT NoAliasOps\n"
               "INVARIANT FaithfulOps\nINVARIANT NoAlias\nPROPERTY Deterministic\n"
               % (namefn, bodyfn, 3 if quick else 4))
        r = tlc.run("ModuleTable", cfg_text=cfg, coverage=True, timeout=1800, workers=4)
        res.add_tlc(r)
        inj = [p for p in r.prints if p[:2] == ("R", "inj")]
        if not inj:
            raise MachineryError("ModuleTable did not print Inj:\n" + r.out[-1500:])
        inj = inj[0][4]
        if r.errors:
            raise MachineryError("TLC failed on ModuleTable %s/%s: %s\n%s" % (namefn, bodyfn, r.errors, r.out[-2000:]))
        if inj:
            n_inj += 1
            if r.violated or not r.ok:
                raise MachineryError("ModuleTable: name function %s is injective on bodies (%s) but TLC "
                                     "reports %s" % (namefn, bodyfn, r.violated))
            for act in ("AddModule", "Reuse", "Observe"):
                if r.coverage.get(act, (0, 0))[1] == 0:
                    raise MachineryError("action %s never taken in ModuleTable %s/%s" % (act, namefn, bodyfn))
        else:
            n_non += 1
            if r.violated != ["NoAlias"]:
                raise MachineryError("ModuleTable: name function %s is NOT injective on bodies (%s); TLC must "
                                     "find exactly a NoAlias counterexample, got %s" % (namefn, bodyfn, r.violated))
        res.distinct(("model", namefn, bodyfn))
    if not n_inj or not n_non:
        raise MachineryError("model check did not cover both injective and non-injective name functions")
    res.note("model_name_functions", {"injective": n_inj, "non_injective_with_counterexample": n_non})


# --------------------------------------------------------------------------------------
# 2. subprocess enumeration
# --------------------------------------------------------------------------------------

def _seeds(n):
    R = common.rng("c13-seeds")
    out = [0, 1]
    while len(out) < n:
        v = R.randrange(2, 2 ** 32 - 1)
        if v not in out:
            out.append(v)
    return out[:n]


def _run_worker(job):
    d, si, seed, rundir, alone, repeat = job
    wd = os.path.join(rundir, "%s__%d" % (d["id"], si))
    os.makedirs(wd, exist_ok=True)
    outp = os.path.join(wd, "out.json")
    env = dict(os.environ)
    env["PYTHONHASHSEED"] = str(seed)
    env["PYTHONPATH"] = common.REPO + os.pathsep + HERE
    env["PYTHONDONTWRITEBYTECODE"] = "1"
    cmd = [sys.executable, WORKER, d["file"], outp, "sy" if si % 2 == 0 else "ys",
           "1" if alone else "0", "1" if repeat else "0"]
    try:
        p = subprocess.run(cmd, cwd=wd, env=env, stdout=subprocess.PIPE, stderr=subprocess.STDOUT,
                           timeout=900, text=True, errors="replace")
    except subprocess.TimeoutExpired:
        raise MachineryError("translation subprocess timed out: %s seed %s" % (d["id"], seed))
    if not os.path.exists(outp):
        raise MachineryError("translation subprocess produced no result for %s seed %s (rc %s):\n%s"
                             % (d["id"], seed, p.returncode, p.stdout[-2000:]))
    with open(outp) as f:
        out = json.load(f)
    if out.get("hashseed") != str(seed):
        raise MachineryError("worker ran with PYTHONHASHSEED %r, wanted %s" % (out.get("hashseed"), seed))
    return out


def _digest(r):
    """digest of the emitted text.  A refusal emits no text: every refusal is the same observation
    (the statement is about the text; which exception reports a refusal is outside it -- e.g.
    CaseExtSliceComp cannot even be constructed and fails with AssertionError at the first attempt of
    a process, with PyMTLSyntaxError at later ones).  Text in one run and a refusal in another is a
    difference."""
    if r["ok"]:
        return hashlib.sha256(r["text"].encode("utf-8", "surrogatepass")).hexdigest()
    return "ERR:refused"


def _ident(name):
    return {"s": name, "c": [ord(ch) for ch in name]}


def _parse(text, what):
    try:
        return modtable.parse(text)
    except modtable.ParseError as e:
        raise MachineryError("modtable cannot parse %s: %s" % (what, e))


def _def_events(tab):
    """one `def` event per emitted definition, in text order (duplicates included)."""
    by_scope = collections.OrderedDict()
    for sc, names in tab.scopes:
        by_scope[sc] = names
    seen = collections.Counter()
    evs = []
    for kind, name, dg in tab.def_order:
        seen[(kind, name)] += 1
        n = seen[(kind, name)]
        pre = ("M:" if kind == "module" else "T:") + name + ("" if n == 1 else "#%d" % n)
        scopes = [{"sc": sc, "ids": [_ident(x) for x in names]} for sc, names in by_scope.items()
                  if sc == pre or sc.startswith(pre + "/")]
        sites = []
        if kind == "module":
            # instantiation sites of THIS definition (tab.insts is in text order per module)
            sites = [m for (par, _, m) in tab.insts if par == name] if n == 1 else []
        evs.append({"k": "def", "kind": kind, "name": _ident(name), "dg": dg, "scopes": scopes,
                    "sites": sorted(set(sites))})
    return evs


def _alone_info(ent, b, cache):
    """(mod, uses, table) of one instance's alone translation for back end b, or None."""
    a = ent["alone"].get(b)
    if not a or not a["ok"]:
        return None
    key = hashlib.sha256(a["text"].encode("utf-8", "surrogatepass")).hexdigest()
    if key not in cache:
        cache[key] = _parse(a["text"], "alone translation of %s" % ent["path"])
    tab = cache[key]
    mod = a["top_module"]
    if mod not in tab.modules:
        return (mod, [{"kind": "module", "name": mod, "dg": "absent-from-own-translation"}], tab)
    m = tab.modules[mod]
    uses = [{"kind": "module", "name": mod, "dg": m["digest"]}]
    for t in modtable.typedef_closure(tab, m["uses"]):
        uses.append({"kind": "typedef", "name": t, "dg": tab.typedefs[t]["digest"]})
    return (mod, uses, tab)


def _build_trace(d, outs, seeds):
    """events of one design + side information for diagnosis."""
    ev, info = [], {"tables": {}, "alone": {}}
    for si, (seed, out) in enumerate(zip(seeds, outs)):
        for b in BACKENDS:
            ev.append({"k": "obs", "seed": str(seed), "b": b, "dg": _digest(out["results"][b])})
            if out["repeat"]:
                ev.append({"k": "obs", "seed": "%s:again" % seed, "b": b, "dg": _digest(out["repeat"][b])})
    ref = outs[0]
    for b in BACKENDS:
        r = ref["results"][b]
        if not r["ok"]:
            continue
        tab = _parse(r["text"], "%s (%s)" % (d["id"], b))
        info["tables"][b] = tab
        ev.append({"k": "tab", "b": b, "dg": _digest(r)})
        ev += _def_events(tab)
        cache = {}
        alone = {}
        for ent in ref["insts"]:
            alone[ent["path"]] = _alone_info(ent, b, cache)
        info["alone"][b] = alone
        for ent in ref["insts"]:
            ai = alone[ent["path"]]
            if ai is None:
                ev.append({"k": "alone-failed", "b": b, "path": ent["path"],
                           "error": (ent["alone"].get(b) or {}).get("error", "?")})
                continue
            mod, uses, _ = ai
            site = ""
            top = ent["parent"] == ""
            if not top:
                pi = alone.get(ent["parent"])
                if pi is not None and pi[0] in pi[2].modules:
                    # the module(s) instantiated under this instance name in the parent's text.  An
                    # instance name declared twice is a violation of its own (IdentUnique); the site
                    # clause then only asks that ONE of the sites instantiates this instance's module.
                    cand = [m for iname, m in pi[2].modules[pi[0]]["insts"] if iname == ent["iname"]]
                    if cand:
                        site = mod if mod in cand else cand[-1]
            ev.append({"k": "inst", "path": ent["path"], "mod": mod, "site": site, "top": top,
                       "uses": uses, "b": b})
        ev.append({"k": "close", "b": b})
    return {"design": d["id"], "ev": ev}, info


# --------------------------------------------------------------------------------------
# 3. naming the mechanism of a failure (stable violation keys)
# --------------------------------------------------------------------------------------

def _tok_diff(t1, t2):
    a = [t[1] for t in modtable.tokenize(t1)]
    b = [t[1] for t in modtable.tokenize(t2)]
    if len(a) != len(b):
        return None
    return [(x, y) for x, y in zip(a, b) if x != y]


def _module_text(text, mod):
    m = re.search(r"^module %s\b.*?^endmodule" % re.escape(mod), text, re.M | re.S)
    return m.group(0) if m else ""


def _classify_alias(d, b, ent_a, ent_b, name):
    """key + description for two instances that share module name `name` with different bodies.
    One key per (root cause, design): the back end is not part of the key (the name function is
    shared by both back ends)."""
    pa, pb = ent_a["params"], ent_b["params"]
    did = d["id"]
    if ent_a["cls_ix"] != ent_b["cls_ix"]:
        if ent_a["cls_name"] == ent_b["cls_name"]:
            return ("alias:same-class-name:%s" % did,
                    "two different classes both named %s (%s in %s / %s in %s); the module name is built from "
                    "__name__ only" % (ent_a["cls_name"], ent_a["cls_qual"], os.path.basename(ent_a["cls_file"] or "?"),
                                       ent_b["cls_qual"], os.path.basename(ent_b["cls_file"] or "?")))
        return ("alias:name-concatenation:%s" % did,
                "classes %s and %s (class name and parameter strings are concatenated without an "
                "unambiguous separator)" % (ent_a["cls_name"], ent_b["cls_name"]))
    if [(p[0], p[1], p[2]) for p in pa] == [(p[0], p[1], p[2]) for p in pb]:
        ta = _module_text(ent_a["alone"][b]["text"], name)
        tb = _module_text(ent_b["alone"][b]["text"], name)
        df = _tok_diff(ta, tb)
        if df and all(x.startswith("_lambda__") and y.startswith("_lambda__") for x, y in df):
            return ("alias:lambda-block-label:%s" % did,
                    "same class and parameters; the bodies differ only in the label of the block generated "
                    "for `//= lambda` (%s vs %s), which embeds the instance's hierarchical name" % df[0])
        return ("alias:same-class-same-params:%s" % did,
                "same class %s, same construct() arguments, different hardware" % ent_a["cls_name"])
    if [(p[0], p[3]) for p in pa] == [(p[0], p[3]) for p in pb]:
        dif = [(x[0], x[1] + ":" + x[2], y[1] + ":" + y[2]) for x, y in zip(pa, pb) if x[:3] != y[:3]]
        if dif and all(x[1].startswith("bitstruct-class:") and x[2].startswith("bitstruct-class:") for x in dif):
            return ("alias:typedef-name:%s:as-module-parameter" % did,
                    "same class %s; the parameters are two different bitstruct classes whose generated struct "
                    "names coincide: %s" % (ent_a["cls_name"], dif))
        return ("alias:param-str:%s" % did,
                "same class %s; parameters print identically (str) but differ: %s" % (ent_a["cls_name"], dif))
    return ("alias:same-class-different-params:%s" % did,
            "same class %s, parameters %s vs %s" % (ent_a["cls_name"], pa, pb))


def _illegal_chars(name):
    bad = {ch for i, ch in enumerate(name)
           if not (ch.isascii() and (ch.isalnum() or ch in "_$")) or (i == 0 and (ch.isdigit() or ch == "$"))}
    lab = sorted({"non-ascii" if not ch.isascii() else ("space" if ch.isspace() else
                  ("leading-" + ch if (ch.isalnum() or ch == "$") else ch)) for ch in bad})
    return "".join(lab) or "?"


def _report(res, d, outs, trace, info, clause, pos):
    e = trace["ev"][pos - 1]
    did = d["id"]
    ents = {x["path"]: x for x in outs[0]["insts"]}
    if clause == "Deterministic":
        b = e["b"]
        first = next(x for x in trace["ev"] if x["k"] == "obs" and x["b"] == b)
        kind = "again-in-same-process" if e["seed"].endswith(":again") else "hashseed"
        key = "nondet:%s:%s" % (kind, did)
        what = ("%s back end: text of design %s under PYTHONHASHSEED=%s differs from PYTHONHASHSEED=%s"
                % (b, did, e["seed"], first["seed"]))
        # diagnose hashed module names fed by unstable parameter strings
        pr = [p for x in outs[0]["insts"] for p in x["params"]]
        if e["dg"].startswith("ERR:") != first["dg"].startswith("ERR:"):
            key = "nondet:outcome:%s" % did
        elif any(re.search(r" at 0x[0-9a-f]+>", p[3]) for p in pr):
            key, what = "nondet:param-str:object-address:%s" % did, what + " (a construct() argument prints as <... at 0x...>; the hashed module name follows the address)"
        elif any(p[1] in ("set", "frozenset") for p in pr):
            key, what = "nondet:param-str:set-order:%s" % did, what + " (a construct() argument is a set; its printed order follows the hash seed)"
        res.violation(key, what, {"design": did, "event": e, "first": first, "source": open(d["file"]).read()})
        return
    b = e.get("b")
    if b is None:
        # def events: find the enclosing table
        for x in reversed(trace["ev"][:pos]):
            if x["k"] == "tab":
                b = x["b"]
                break
    src = open(d["file"], encoding="utf-8").read()
    if clause == "DefinedOnce":
        res.violation("defined-twice:%s:%s:%s" % (e["kind"], did, e["name"]["s"]),
                      "%s back end, design %s: %s %s is defined more than once" % (b, did, e["kind"], e["name"]["s"]),
                      {"design": did, "source": src})
    elif clause in ("IdentLegal", "IdentReserved", "IdentUnique"):
        tab = info["tables"][b]

        def ncls(sc, n):
            if sc == "$defs":
                return "%s-name" % e["kind"]
            if sc.startswith("T:"):
                return "field"
            ks = set(tab.kinds.get((sc, n), []))
            return "+".join(k for k in ("port", "inst", "block", "loopvar", "var") if k in ks) or "name"

        names = [(ncls("$defs", e["name"]["s"]), e["name"]["s"], "$defs")]
        for sc in e["scopes"]:
            for x in sc["ids"]:
                names.append((ncls(sc["sc"], x["s"]), x["s"], sc["sc"]))
        # one key per (root cause, design); the back end is not part of the key where the cause is shared
        groups = collections.OrderedDict()
        if clause == "IdentLegal":
            for cls, n, sc in names:
                if modtable.IDENT_RE.match(n):
                    continue
                if not n.isascii():
                    k = "ident:illegal:non-ascii:%s:%s" % (did, cls)
                elif cls == "module-name" and re.match(r"[A-Za-z_][A-Za-z0-9_$]*?__[A-Za-z_][A-Za-z0-9_$]*?_", n):
                    # <Class>__<param>_<str(value)>: the illegal characters come from the parameter string
                    k = "ident:illegal:module-name:param-str:%s" % did
                else:
                    k = "ident:illegal:other:%s:%s:%s" % (did, cls, _illegal_chars(n))
                groups.setdefault(k, []).append((n, sc))
            for k, v in groups.items():
                res.violation(k, "%s back end, design %s: not legal identifiers: %s"
                              % (b, did, ", ".join("`%s` (scope %s)" % x for x in v[:8])),
                              {"design": did, "names": v, "source": src})
        elif clause == "IdentReserved":
            for cls, n, sc in names:
                if n in modtable._KW:
                    gen = "sv2009+" if n in modtable.KEYWORDS_1800_2009_2012 else "upto-sv2005"
                    groups.setdefault("ident:reserved:%s:%s:%s" % (gen, did, cls), []).append((n, sc))
            for k, v in groups.items():
                res.violation(k, "%s back end, design %s: reserved words emitted as identifiers: %s"
                              % (b, did, ", ".join("`%s` (scope %s)" % x for x in v[:40])),
                              {"design": did, "names": v, "source": src})
        else:
            for sc in e["scopes"]:
                c = collections.Counter(x["s"] for x in sc["ids"])
                for n, k in sorted(c.items()):
                    if k > 1:
                        kinds = tab.kinds.get((sc["sc"], n), [])
                        if n.startswith("__tmpvar__"):
                            mech = "tmpvar-name-concatenation"
                        elif "block" in kinds and len(set(kinds)) > 1:
                            mech = "block-label-vs-signal"
                        elif "__" in n.strip("_"):
                            mech = "flattened-name-double-underscore"
                        else:
                            mech = "other:%s:%s" % (b, n)
                        groups.setdefault("ident:duplicate:%s:%s" % (mech, did), []).append(
                            "`%s` declared %d times (%s) in scope %s" % (n, k, "/".join(kinds), sc["sc"]))
            for k, v in groups.items():
                res.violation(k, "%s back end, design %s: %s" % (b, did, "; ".join(v[:8])),
                              {"design": did, "duplicates": v, "source": src})
    elif clause in ("NoAlias", "NoAliasType"):
        kind = "module" if clause == "NoAlias" else "typedef"
        mine = {u["name"]: u["dg"] for u in e["uses"] if u["kind"] == kind}
        for x in trace["ev"][:pos - 1]:
            if x["k"] != "inst" or x["b"] != b:
                continue
            for u in x["uses"]:
                if u["kind"] == kind and u["name"] in mine and mine[u["name"]] != u["dg"]:
                    ea, eb = ents[x["path"]], ents[e["path"]]
                    if kind == "module":
                        key, why = _classify_alias(d, b, ea, eb, u["name"])
                        what = ("%s back end, design %s: instances %s and %s are both translated to module %s "
                                "but their bodies (each translated alone) differ: %s; the emitted text holds one "
                                "definition for both" % (b, did, x["path"], e["path"], u["name"], why))
                    else:
                        ta = info["alone"][b][x["path"]][2].typedefs[u["name"]]
                        tb = info["alone"][b][e["path"]][2].typedefs[u["name"]]
                        sub = "fields-differ" if ta["fields"] != tb["fields"] else "field-types-differ"
                        key = "alias:typedef-name:%s:%s" % (did, sub)
                        what = ("%s back end, design %s: instances %s and %s use struct typedef %s with different "
                                "definitions (fields %s vs %s); one typedef is emitted"
                                % (b, did, x["path"], e["path"], u["name"], ta["fields"], tb["fields"]))
                    res.violation(key, what, {"design": did, "backend": b, "a": x["path"], "b": e["path"],
                                              "name": u["name"], "source": src})
                    res.count("alias_pairs")
                    res.notes.setdefault("alias_designs", {}).setdefault(key, [])
                    if did not in res.notes["alias_designs"][key] and len(res.notes["alias_designs"][key]) < 40:
                        res.notes["alias_designs"][key].append(did)
                    return
        raise MachineryError("TLC reported %s for %s at event %d but no conflicting pair was found" % (clause, did, pos))
    elif clause == "InstSiteName":
        ent = ents[e["path"]]
        par = ents.get(ent["parent"])
        pm = info["alone"][b].get(ent["parent"])
        path0 = re.sub(r"(\[\d+\])+$", lambda m: re.sub(r"\d+", "0", m.group(0)), e["path"])
        first = info["alone"][b].get(path0)
        if par and pm and pm[0] == e["mod"] and par["cls_name"] == ent["cls_name"] and par["cls_ix"] != ent["cls_ix"]:
            res.violation("alias:same-class-name:%s" % did,
                          "%s back end, design %s: %s (class %s) contains %s of a different class with the same "
                          "__name__; both map to module %s, the child's definition is emitted and the parent's is dropped"
                          % (b, did, ent["parent"], par["cls_qual"], e["path"], e["mod"]),
                          {"design": did, "source": src})
        elif b == "yosys" and path0 != e["path"] and first and first[0] == e["site"]:
            res.violation("inst-site:yosys-array-element-named-after-element-0:%s" % did,
                          "yosys back end, design %s: array element %s is translated to module %s but its parent's "
                          "text instantiates %r (the module of element %s) there"
                          % (did, e["path"], e["mod"], e["site"], path0),
                          {"design": did, "source": src})
        else:
            res.violation("inst-site:%s:%s:%s" % (did, b, e["path"]),
                          "%s back end, design %s: instance %s is translated to module %s but its parent's text "
                          "instantiates %r there" % (b, did, e["path"], e["mod"], e["site"]),
                          {"design": did, "source": src})
    elif clause in ("UsesDefined", "DefIsBody"):
        res.violation("%s:%s:%s:%s" % (clause, did, b, e["path"]),
                      "%s back end, design %s: the definitions used by instance %s (translated alone: %s) %s"
                      % (b, did, e["path"], [u["name"] for u in e["uses"]],
                         "are not all emitted" if clause == "UsesDefined" else
                         "differ from the definitions emitted for the whole design"),
                      {"design": did, "source": src})
    elif clause == "InstancesDefined":
        res.violation("inst-undefined:%s:%s" % (did, b),
                      "%s back end, design %s: an instantiated module name has no definition" % (b, did),
                      {"design": did, "source": src})
    else:
        raise MachineryError("trace clause %s at event %d of %s (%s)" % (clause, pos, did, e.get("k")))


# --------------------------------------------------------------------------------------
# 4. validation + canaries
# --------------------------------------------------------------------------------------

CHUNK = 24


def _validate(res, traces, count=True):
    runs, verdicts = tlc.validate_traces("ModuleTableTrace", {"traces": traces}, chunk=CHUNK, timeout=3000)
    fails = [[] for _ in traces]
    for ci, r in enumerate(runs):
        if count:
            res.add_tlc(r)
        for p in r.prints:
            if p and p[0] == "R":
                fails[ci * CHUNK + p[1] - 1].append((p[2], p[3]))
    for i, (err, pos) in enumerate(verdicts):
        if (err == "ok") != (not fails[i]):
            raise MachineryError("verdict/failure lines disagree for trace %d" % i)
    return fails


def _canaries(res, traces, fails, texts):
    """corrupted copies of real traces / texts must be rejected with the expected clause."""
    # base traces: accepted ones first; a rejected trace may serve as long as it does not already fail
    # the clause the canary is about.  If EVERY suitable trace already fails that clause (a defect that
    # hits most designs), the clause has shown on real traces that it rejects: the canary is skipped --
    # the verdict must not be replaced by a machinery failure.
    cand = sorted(zip(traces, fails), key=lambda tf: len(tf[1]))
    can = []
    skipped = []

    class Skip(Exception):
        pass

    def pick(pred, want):
        some = False
        for t, f in cand:
            if pred(t):
                some = True
                if want not in [c for c, _ in f]:
                    return copy.deepcopy(t)
        if some:
            skipped.append(want)
            raise Skip()
        raise MachineryError("no trace available for the canary expecting %s" % want)

    def canary(want, pred, corrupt):
        try:
            t = pick(pred, want)
        except Skip:
            return
        corrupt(t)
        can.append((t, want))

    has_tab = lambda t: sum(1 for e in t["ev"] if e["k"] == "inst" and e["b"] == "sv") >= 3

    # 1. one digest corrupted
    def c1(t):
        [e for e in t["ev"] if e["k"] == "obs"][-1]["dg"] = "0" * 64
    canary("Deterministic", has_tab, c1)

    # 2. a module duplicated in a copy of the table
    def c2(t):
        i = next(i for i, e in enumerate(t["ev"]) if e["k"] == "def" and e["kind"] == "module")
        t["ev"].insert(i + 1, copy.deepcopy(t["ev"][i]))
    canary("DefinedOnce", has_tab, c2)

    # 3. an instance's module renamed to an undefined one (at the site and in the instance)
    def c3a(t):
        dm = [e for e in t["ev"] if e["k"] == "def" and e["sites"]][0]
        dm["sites"][0] = dm["sites"][0] + "_undefined"
    canary("InstancesDefined", has_tab, c3a)

    def c3b(t):
        x = [e for e in t["ev"] if e["k"] == "inst" and not e["top"]][0]
        x["mod"] = x["uses"][0]["name"] = x["mod"] + "_undefined"
    canary("UsesDefined", has_tab, c3b)

    # 4. two instances of one module: one alone-body differs
    def two_same(t):
        c = collections.Counter((e["b"], e["mod"]) for e in t["ev"] if e["k"] == "inst")
        return any(v >= 2 for v in c.values())

    def c4(t):
        c = collections.Counter((e["b"], e["mod"]) for e in t["ev"] if e["k"] == "inst")
        bm = [k for k, v in c.items() if v >= 2][0]
        x = [e for e in t["ev"] if e["k"] == "inst" and (e["b"], e["mod"]) == bm][1]
        x["uses"][0]["dg"] = "f" * 64
    canary("NoAlias", two_same, c4)

    # 5. a typedef body differs between two users
    def two_td(t):
        c = collections.Counter((e["b"], u["name"]) for e in t["ev"] if e["k"] == "inst" for u in e["uses"] if u["kind"] == "typedef")
        return any(v >= 2 for v in c.values())

    def c5(t):
        x = [e for e in t["ev"] if e["k"] == "inst" and any(u["kind"] == "typedef" for u in e["uses"])][-1]
        [u for u in x["uses"] if u["kind"] == "typedef"][0]["dg"] = "e" * 64
    canary("NoAliasType", two_td, c5)

    # 6. identifiers: reserved word, duplicate, illegal character, illegal module name
    for name, clause in (("logic", "IdentReserved"), ("let", "IdentReserved"), (None, "IdentUnique"),
                         ("a-1", "IdentLegal"), ("9lives", "IdentLegal")):
        def c6(t, name=name):
            dm = [e for e in t["ev"] if e["k"] == "def" and e["scopes"] and e["scopes"][0]["ids"]][0]
            ids = dm["scopes"][0]["ids"]
            ids.append(copy.deepcopy(ids[0]) if name is None else _ident(name))
        canary(clause, has_tab, c6)

    def c6b(t):
        dm = [e for e in t["ev"] if e["k"] == "def"][0]
        dm["name"]["c"][0] = ord("-")
    canary("IdentLegal", has_tab, c6b)

    # 7. site name differs from the instance's module name
    def c7(t):
        x = [e for e in t["ev"] if e["k"] == "inst" and not e["top"]][0]
        x["site"] = x["site"] + "_x"
    canary("InstSiteName", has_tab, c7)

    # 8. emitted definition differs from the alone-body
    def c8(t):
        dm = [e for e in t["ev"] if e["k"] == "def" and e["kind"] == "module"][0]
        dm["dg"] = "d" * 64
    canary("DefIsBody", has_tab, c8)

    # 9. text-level: a module duplicated / an instantiation renamed in the emitted TEXT, re-parsed
    n_text = 0
    for did, b, text in texts:
        m = re.search(r"^module .*?^endmodule\n", text, re.M | re.S)
        im = re.search(r"^(\s+)(\w+)( \w+\n\s+\()", text, re.M)
        if not m or not im:
            continue
        for want, new_text in (("DefinedOnce", text + "\n" + m.group(0)),
                               ("InstancesDefined", text[:im.start(2)] + "NoSuchModule" + text[im.end(2):])):
            def c9(t, b=b, new_text=new_text):
                k0 = next(i for i, e in enumerate(t["ev"]) if e["k"] == "tab" and e["b"] == b)
                k1 = next(i for i, e in enumerate(t["ev"]) if e["k"] == "inst" and e["b"] == b)
                t["ev"][k0 + 1:k1] = _def_events(_parse(new_text, "canary"))
            canary(want, lambda tr, did=did: tr["design"] == did, c9)
        n_text += 1
        break
    if not n_text:
        raise MachineryError("no text available for the text-level canaries")
    if len(set(skipped)) > 2:
        raise MachineryError("canaries for more than two clauses could not be built: every suitable real trace "
                             "already fails %s" % sorted(set(skipped)))
    if skipped:
        res.note("canaries_skipped_clause_already_rejects_every_suitable_trace", sorted(set(skipped)))
    cf = _validate(res, [c[0] for c in can], count=False)
    for (t, want), f in zip(can, cf):
        if want not in [x[0] for x in f]:
            raise MachineryError("canary expecting %s was not rejected with it (got %s) [design %s]"
                                 % (want, f, t["design"]))
    res.note("canaries_rejected", len(can))


class _Recorder:
    """records Result calls made on another thread"""
    def __init__(self):
        self.calls = []

    def __getattr__(self, name):
        return lambda *a: self.calls.append((name, a))

    def replay(self, res):
        for name, a in self.calls:
            getattr(res, name)(*a)


QUICK_SEEDS_FULL = 4      # hash seeds per design of the seed-sensitive set in the quick tier
QUICK_SEEDS_REST = 2      # ... and for every other design (seed 0 and 1; the last one is repeated in-process)


def _seed_sensitive(d, k):
    """quick tier: designs that get all QUICK_SEEDS_FULL hash seeds -- the examples and stdlib
    components (large hierarchies: sets / dicts of connections, blocks, signals), the built-to-collide
    designs about parameter strings and hashed names, and every third repo test-case DUT.  All other
    designs are still translated under two hash seeds and twice in one process."""
    if d["group"] in ("example", "stdlib"):
        return True
    if d["group"] == "collide":
        return d["id"].split("_")[0] in ("hash", "parstr", "par", "pareq", "paraddr", "ctl", "arg", "beh", "bs")
    return k % 3 == 0


def run(res, tier):
    quick = tier == "quick"
    nseeds = QUICK_SEEDS_FULL if quick else 16
    t0 = time.time()
    rec = _Recorder()
    with ThreadPoolExecutor(max_workers=1) as mex:
        # the abstract model is checked while the translation subprocesses run (Result is not
        # thread-safe: the model check records into `rec`, replayed below on this thread)
        model = mex.submit(_model_check, rec, quick)
        try:
            _explore(res, tier, quick, nseeds)
        finally:
            model.result()
            rec.replay(res)
    res.note("wall_total_s", round(time.time() - t0, 1))


def _explore(res, tier, quick, nseeds):
    seeds = _seeds(nseeds)
    R = common.rng("c13-corpus")
    t0 = time.time()
    with common.scratch("verif_c13_") as sd:
        designs = c13_corpus.write(os.path.join(sd, "designs"), common.REPO, tier, R)
        rundir = os.path.join(sd, "run")
        # the job under the first seed also translates every instance alone; when it is back the other
        # seeds of the design are submitted -- fewer of them for a design both back ends refuse (it
        # contributes only `refused every time`)
        refused_seeds = QUICK_SEEDS_REST if quick else 4
        plan = {d["id"]: (nseeds if (not quick or _seed_sensitive(d, k)) else QUICK_SEEDS_REST)
                for k, d in enumerate(designs)}
        first = sorted(designs, key=lambda d: (d["group"] != "example", d["group"] != "stdlib"))   # longest first
        jobs, outs = [], []
        with ThreadPoolExecutor(max_workers=os.cpu_count() or 4) as ex:
            fut = {}
            for d in first:
                job = (d, 0, seeds[0], rundir, True, False)
                fut[ex.submit(_run_worker, job)] = job
            pending = set(fut)
            while pending:
                done, pending = wait(pending, return_when=FIRST_COMPLETED)
                for f in done:
                    job = fut[f]
                    o = f.result()
                    jobs.append(job)
                    outs.append(o)
                    if job[1] == 0:
                        d = job[0]
                        n = plan[d["id"]]
                        if not any(o["results"][b]["ok"] for b in BACKENDS):
                            n = plan[d["id"]] = min(n, refused_seeds)
                        for si in range(1, n):
                            j2 = (d, si, seeds[si], rundir, False, si == n - 1)
                            f2 = ex.submit(_run_worker, j2)
                            fut[f2] = j2
                            pending.add(f2)
        ix = {d["id"]: k for k, d in enumerate(designs)}
        order = sorted(range(len(jobs)), key=lambda i: (ix[jobs[i][0]["id"]], jobs[i][1]))
        jobs = [jobs[i] for i in order]
        outs = [outs[i] for i in order]
        res.note("wall_subprocesses_s", round(time.time() - t0, 1))
        cpu = sorted(((o.get("cpu_s", 0), j[0]["id"]) for j, o in zip(jobs, outs)), reverse=True)
        res.note("worker_cpu_s", {"total": round(sum(c for c, _ in cpu), 1), "largest": cpu[:3]})
        by_design = collections.OrderedDict()
        for (d, si, seed, _, _, _), o in zip(jobs, outs):
            by_design.setdefault(d["id"], []).append(o)
        traces, infos = [], []
        n_ok = n_rej = n_inst = 0
        groups = collections.Counter()
        texts = []
        for d in designs:
            o = by_design[d["id"]]
            if "build_error" in o[0] and any(o[0]["results"][b]["ok"] for b in BACKENDS):
                raise MachineryError("design %s translated but could not be rebuilt: %s" % (d["id"], o[0]["build_error"]))
            t, info = _build_trace(d, o, seeds)
            traces.append(t)
            infos.append(info)
            for b in BACKENDS:
                if o[0]["results"][b]["ok"]:
                    n_ok += 1
                    res.distinct((d["id"], b))
                    if d["group"] in ("stdlib", "example") and len(o[0]["insts"]) >= 3 and len(texts) < 3:
                        texts.append((d["id"], b, o[0]["results"][b]["text"]))
                else:
                    n_rej += 1
                    res.count("refused:" + o[0]["results"][b]["error"])
            n_inst += len(o[0]["insts"])
            groups[d["group"]] += 1
        res.add_evals(len(jobs) * 2 + sum(len(o["repeat"]) for o in outs) + 2 * n_inst)
        fails = _validate(res, traces)
        res.add_traces(len(traces))
        for d, t, info, f in zip(designs, traces, infos, fails):
            # names whose aliasing is already reported by NoAlias / NoAliasType at some instance of this
            # table: `the emitted definition differs from this instance's alone-body` (DefIsBody) is then
            # the same fact seen from the losing instance and is not reported a second time
            aliased = set()
            for clause, pos in f:
                e = t["ev"][pos - 1]
                if clause in ("NoAlias", "NoAliasType"):
                    kind = "module" if clause == "NoAlias" else "typedef"
                    for x in t["ev"][:pos - 1]:
                        if x["k"] == "inst" and x["b"] == e["b"]:
                            xs = {u["name"]: u["dg"] for u in x["uses"] if u["kind"] == kind}
                            for u in e["uses"]:
                                if u["kind"] == kind and xs.get(u["name"], u["dg"]) != u["dg"]:
                                    aliased.add((e["b"], kind, u["name"]))
            for clause, pos in f:
                e = t["ev"][pos - 1]
                if clause == "DefIsBody":
                    tab = info["tables"][e["b"]]
                    emitted = {("module", k): v["digest"] for k, v in tab.modules.items()}
                    emitted.update({("typedef", k): v["digest"] for k, v in tab.typedefs.items()})
                    off = [(e["b"], u["kind"], u["name"]) for u in e["uses"]
                           if (u["kind"], u["name"]) in emitted and emitted[(u["kind"], u["name"])] != u["dg"]]
                    if off and all(o in aliased for o in off):
                        res.count("DefIsBody_explained_by_reported_alias")
                        continue
                if t["ev"][pos - 1]["k"] == "alone-failed":
                    e = t["ev"][pos - 1]
                    res.violation("alone-translation-fails:%s:%s:%s" % (d["id"], e["b"], e["path"]),
                                  "design %s translates as a whole but component %s alone is refused (%s)"
                                  % (d["id"], e["path"], e["error"]), {"design": d["id"]})
                    continue
                _report(res, d, by_design[d["id"]], t, info, clause, pos)
        _canaries(res, traces, fails, texts)
        # samples
        for d, t in zip(designs, traces):
            if d["id"] in ("samename_factory_diff_body", "std_Mux8x4", "ex_ProcRTL"):
                res.sample({"design": d["id"], "events": len(t["ev"]),
                            "observations": [(e["seed"], e["b"], e["dg"][:12]) for e in t["ev"] if e["k"] == "obs"][:6],
                            "instances": [(e["path"], e["mod"]) for e in t["ev"] if e["k"] == "inst" and e["b"] == "sv"][:6]})
    res.note("designs", dict(groups))
    res.note("hash_seeds", seeds)
    res.note("translations_ok_design_x_backend", n_ok)
    res.note("translations_refused_design_x_backend", n_rej)
    res.note("component_instances_translated_alone", n_inst)
    res.note("subprocesses", len(jobs))
    res.note("rule", "one case = (design, back end) whose translation succeeds; each design is translated in %d fresh "
             "subprocesses%s (distinct PYTHONHASHSEED, alternating back-end order, once more in the same process for the "
             "last seed) by both back ends; every component instance of every design is translated alone; non-trivial "
             "= the text parses into a module table with at least one module"
             % (nseeds, (" (quick tier: %d for the designs outside the seed-sensitive set, see _seed_sensitive)"
                         % QUICK_SEEDS_REST if quick else "") + " (%d for a design both back ends refuse)" % refused_seeds))
    res.note("designs_by_number_of_seeds", dict(collections.Counter(str(v) for v in plan.values())))
    res.assume("a design pymtl3 refuses to translate contributes only its (deterministic) refusal")
    res.assume("bodies are compared as token sequences (comments carry source paths / line numbers)")
    res.assume("memory addresses of objects are not controlled: nondeterminism through id()/repr addresses is only "
               "seen if the platform randomises addresses between processes")
