"""C11  Combinational cycles settle on a fixed point or are reported.

spec/SimKernel.tla lets members of a cyclic group (SCC of the bit-level MustPrecede relation) run
again; a pass may end only in a Stable state.  On the implementation every block call of every pass
of the SCC loop is recorded (Dynamic and Mamba2020 schedulers) and validated: each call computes the
specified value, the state returned is a fixed point (spec-side Stable plus re-invocation of every
real block), false loops (bit-level acyclic) end in the solution Ref of the equivalent acyclic
equations and must not be reported, a raised UpblkCyclicError is legitimate only in an unstable state
after iterating, groups containing update_once must be refused, acyclic-only schedulers must refuse
every block-level cyclic design, and a watchdog turns a hang into a violation.

NOTE: loop families are hand-built (ripple false loops through slices / nets / struct fields /
children, convergent and divergent true loops, update_once in a cycle) plus random false loops from
the design generator. The numeric iteration bound (100) is not part of the property.
"""
import os

import kernel
import kernel_check as kc
from common import scratch

READY = True


def run(res, tier):
    quick = tier == "quick"
    kc.model_check(res, maxcyc=1)
    os.environ.setdefault("VERIF_WATCHDOG_S", "20")
    with scratch("c11_") as sdir:
        designs = kc.loop_designs() + kc.loop_channel_designs(quick) + \
            kc.rand_designs("c11r", 12 if quick else 250, want="falseloop", opts={"stmts_per_block": 3, "regs": 0.2})
        fam = {}
        for d in designs:
            fam[d.family] = fam.get(d.family, 0) + 1
        res.note("families", fam)
        counts = {"raised": 0, "refused": 0}

        def drive(c):
            c.run_modes(kernel.MODES, cycles=4 if quick else 8, seeds=(0,) if quick else (0, 1, 2),
                        sched_only=lambda d: d.family == "oncecycle")

        def on_chunk(c):
            counts["raised"] += sum(1 for t in c.traces if any(e["k"] == "raised" for e in t["ev"]))
            counts["refused"] += sum(1 for t in c.traces if t["ev"][0]["k"] == "schedraise")
        c, ndesigns = kc.run_chunked(res, "c11", "C11", sdir, designs, len(designs) if quick else 100, drive,
                                     canaries_n=8, on_chunk=on_chunk)
        raised, refused = counts["raised"], counts["refused"]
        res.note("runtime_cyclic_errors_validated", raised)
        res.note("schedule_time_refusals_validated", refused)
        if raised == 0 or refused == 0:
            raise kc.MachineryError("no raise / refusal was exercised (vacuous)")
        res.sample({"design": c.djs[0]["name"], "source": c.designs[0].py_source(),
                    "passes": [e["b"] for e in c.traces[1]["ev"] if e["k"] == "step"][:24]})
    res.note("designs", ndesigns)
    res.note("rule", "a case = (loop design, scheduler); every SCC pass is validated step by step")
    res.assume("cyclic-capable schedulers: DynamicSchedulePass (DefaultPassGroup) and Mamba2020")
