"""C04  Bits arithmetic is exact unsigned arithmetic modulo 2^n.

spec/BV.tla (bit-vectors on limbs, self-checked against definitions on the naturals), spec/BitsObj.tla
(the Bits object: outcomes every operator may have, state machine over _nbits/_uint/_next),
spec/BitsHeap.tla (object identity: a heap of objects; every operation returning a Bits value returns a NEW
object, a mutator changes its own object only), spec/BitsTable.tla (case tables), spec/BitsObjTrace.tla
(trace validation over several live objects).
  1. BV self check: TLC compares every limb operator with its one-line definition on naturals for all
     operands of widths 1..5 (thorough 6) with 2-, 3- and 15-bit limbs; wide algebraic identities.
  2. spec -> code, exhaustive: TLC computes, from BitsObj, the admitted outcomes of every
     (operator, width <= 4 (5), a, b), every int operand in -(2^w+1)..2^w+1 in forward and reflected
     position, every pair of different widths <= 4, unary ops / int() / uint() / bool / hash / clone /
     nbits, constructor, @= and <<= with every int in -(2^w+2)..2^w+2 and every Bits of width <= 4 (5).
     Every row is executed on the real class through Bits(n, v), the predefined BitsN and mk_bits(n).
     The BitsObj state machine (New/Assign/NbAssign/Flip) is model-checked for widths 1..2 (3) and every
     transition of its state graph is replayed.
     Object identity: BitsHeap (2 variables, width 1; thorough widths 1..2) is model-checked (Frame,
     ErrorsChangeNothing, ResultIsOutcome, NatSemantics = results equal the definition on the naturals) and
     its COMPLETE state graph is covered by one continuous walk on real objects -- every object being the very
     object the real operation returned -- that takes every transition (all 16 operators between objects and
     with ints, ~x, clone, deepcopy, Bits(n, x), x[i], x[lo:hi], concat, zext/sext/trunc, @=, <<=, _flip,
     x[i] = v, x[lo:hi] = v) at least once; all objects are compared after every call and the returned object
     is compared by identity with every live object.  `-simulate` behaviours of larger heaps (3-4 variables,
     widths up to 4) are replayed the same way.
  3. code -> spec: seeded random operation sequences on real objects at widths
     {1,2,7,8,15,16,17,31,32,33,63,64,65,127,128,255,256,511,512,1022,1023}, boundary-biased operands;
     every call (operands as limbs, result or exception) and the object state after it is validated by
     TLC against BitsObj/BV.  A second family of sequences keeps up to 5 LIVE objects that are results of
     earlier calls (arithmetic and comparison results, slices, clone / deepcopy / Bits(n, x), concat / zext /
     sext / trunc results, `x op= y`), modifies them in place (@=, <<= + _flip, bit and slice assignment),
     uses them as operands and re-runs earlier operations; BitsObjTrace validates every result AND the
     logged states of ALL live objects after every call (clauses result-aliases-live-object,
     changed-another-object, post-state-mismatch besides the value clauses); constructor events use
     mk_bits / BitsN of arbitrary widths 1..1023.
  4. canaries: corrupted tables / traces / expected states / heaps must be rejected (heap canaries with the
     exact clause).

NOTE: exhaustive for widths <= 4 (quick) / 5 (thorough); widths up to 1023 are sampled. The exception
class is not constrained (the statement says "an error"). // and % by zero, reflected shifts
(`int << Bits`) and _flip() without a pending value are outside the statement (any outcome admitted);
a shift amount of another width may raise or give the left-operand-width result. "Returns the
mathematically defined value" is read over whole histories: as Bits objects are mutable in place, every
operation returning a Bits value must return a new object and `x op= y` is the pure operator plus
rebinding (Bits defines no in-place arithmetic); aliasing created by plain Python assignment (`y = x`) is
of course not modelled. Trusted base: TLC, the JSON encodings of harness/bitsobj_lib.py, Python's own int
for transporting values, Python `is` for object identity.
"""
import common
import bitsobj_lib as L

READY = True

FWD_OPS = ["add", "sub", "mul", "and", "or", "xor", "lshift", "rshift", "eq", "ne", "lt", "le", "gt", "ge",
           "floordiv", "mod"]


def _x(R, rec, w):
    """left / Bits operand: the tracked object or a fresh value"""
    if R.random() < 0.5:
        return {"k": "self"}, rec.obj.nbits
    return L.gen_bits(R, w), w


def _event(R, rec, w):
    c = R.random()
    ow = rec.obj.nbits
    if c < 0.40:                                   # forward binary
        op = R.choice(FWD_OPS)
        x, xw = _x(R, rec, w)
        k = R.random()
        shift = op in ("lshift", "rshift")
        if k < 0.5:
            y = L.enc_bits(xw, L.gen_shift_amount(R, xw) & ((1 << xw) - 1)) if shift and R.random() < 0.7 else L.gen_bits(R, xw)
        elif k < 0.82:
            y = L.enc_int(L.gen_shift_amount(R, xw) if shift and R.random() < 0.7 else L.gen_int_operand(R, xw))
        else:
            o = L.other_width(R, xw)
            y = L.enc_bits(o, L.gen_shift_amount(R, xw) & ((1 << o) - 1)) if shift else L.gen_bits(R, o)
        if op in ("floordiv", "mod") and xw > 128 and R.random() < 0.9:
            op = "divmod"
        rec.call(op, [x, y])
    elif c < 0.52:                                 # reflected: int op Bits
        op = R.choice(FWD_OPS)
        x, xw = _x(R, rec, w)
        if op in ("floordiv", "mod") and xw > 128 and R.random() < 0.9:
            op = "divmod"
        rec.call(op, [x, L.enc_int(L.gen_int_operand(R, xw))], refl=True)
    elif c < 0.58:
        x, xw = _x(R, rec, w)
        y = L.gen_bits(R, xw) if R.random() < 0.6 else L.enc_int(L.gen_int_operand(R, xw))
        refl = y["k"] == "int" and R.random() < 0.4
        rec.call("divmod", [x, y], refl=refl)
    elif c < 0.70:
        op = R.choice(L.UNOPS + ("hash_eq",))
        x, xw = _x(R, rec, w)
        if op == "hash_eq":
            v = rec.obj if x["k"] == "self" else None
            y = L.enc_bits(xw, int(v) if v is not None else L.dec_value(x)) if R.random() < 0.6 else \
                L.gen_bits(R, R.choice([xw, L.other_width(R, xw)]))
            rec.call(op, [x, y])
        else:
            rec.call(op, [x])
    elif c < 0.78:                                 # constructor (possibly another width)
        nw = w if R.random() < 0.8 else R.choice(L.WIDTHS)
        k = R.random()
        if k < 0.7:
            v = L.enc_int(L.gen_assign_int(R, nw))
        elif k < 0.9:
            v = L.gen_bits(R, nw)
        else:
            v = L.gen_bits(R, L.other_width(R, nw))
        rec.call("new", [nw, v, R.random() < 0.25])
    elif c < 0.95:
        op = "assign" if c < 0.88 else "nbassign"
        k = R.random()
        if k < 0.55:
            v = L.enc_int(L.gen_assign_int(R, ow))
        elif k < 0.85:
            v = L.gen_bits(R, ow)
        elif k < 0.9:
            v = {"k": "self"}
        else:
            v = L.gen_bits(R, L.other_width(R, ow))
        rec.call(op, [v])
    else:
        if L.observe(rec.obj)["nxt"]["some"]:
            rec.call("flip", [])
        else:
            rec.call("nbassign", [L.gen_bits(R, ow)])


# --------------------------------------------------------------------------------------
# operation sequences over several live objects (object identity: fresh results, frame)
# --------------------------------------------------------------------------------------

CMP_OPS = ["eq", "ne", "lt", "le", "gt", "ge"]
NVARS = 5


def _heap_event(R, rec, w, pend, log):
    """One call on the live objects of `rec`.  Results are bound to variables and later operands /
    mutation targets are mostly RESULTS of earlier calls.  pend: variables with a pending <<= value;
    log: (op, args maker) of earlier pure calls for re-running them."""
    n = rec.nvars
    V = list(range(1, n + 1))

    def width(i):
        return rec.var(i).nbits

    def val(i):
        return int(rec.var(i))

    def pick(pred=None, prefer_results=True):
        c = [i for i in V if pred is None or pred(i)]
        if not c:
            return None
        r = [i for i in c if i > 1]
        return R.choice(r) if r and prefer_results and R.random() < 0.75 else R.choice(c)

    def dest(p=0.75):
        if R.random() >= p:
            return 0
        if n < NVARS and (n < 2 or R.random() < 0.6):
            return n + 1
        return R.randint(2, n) if n >= 2 else n + 1

    def partner(a, same=0.7):
        """second operand for the object of variable a: another live object of its width, or a literal"""
        wa = width(a)
        c = [i for i in V if width(i) == wa]
        k = R.random()
        if k < same and c:
            return rec.obj_arg(R.choice(c))
        if k < 0.85:
            return L.enc_bits(wa, R.choice([val(a), L.gen_value(R, wa)]))
        return L.enc_int(R.choice([val(a), L.gen_value(R, wa), 0, 1]))

    def fit_int(t):
        wt = width(t)
        return R.choice([0, 1, val(t) ^ 1, (1 << wt) - 1, L.gen_value(R, wt), -1, val(t)]) if wt > 1 else \
            R.choice([0, 1, 1 - val(t), 1 - val(t), -1])

    c = R.random()
    if c < 0.26:                                    # binary operator between live objects
        a = pick()
        op = R.choice(CMP_OPS) if R.random() < 0.45 else R.choice(FWD_OPS)
        if op in ("lshift", "rshift"):
            y = L.enc_int(L.gen_shift_amount(R, width(a)) % (width(a) + 2)) if R.random() < 0.6 else partner(a)
        else:
            y = partner(a)
        yv = L.obj_value(y) if y["k"] == "obj" else L.dec_value(y)
        rid = dest()
        if op in ("floordiv", "mod") and yv == 0:
            rid = 0                                 # outside the statement: any outcome, nothing is kept
        ip = R.random() < 0.15
        if ip and op not in L.IBINOPS and not (op in ("floordiv", "mod") and yv == 0):
            op = R.choice(sorted(L.IBINOPS))         # `x op= y` exists for the arithmetic / bitwise operators and >>
            if op in ("floordiv", "mod") and yv == 0:
                rid = 0
        rec.call(op, [rec.obj_arg(a), y], rid=rid, ip=ip)
        log.append((op, a, y if y["k"] != "obj" else y["id"]))
    elif c < 0.36:                                  # comparison with an int / a literal of the same value
        a = pick()
        op = R.choice(CMP_OPS)
        v = R.choice([val(a), val(a), 0, (1 << width(a)) - 1, L.gen_value(R, width(a))])
        refl = R.random() < 0.3
        y = L.enc_int(v) if refl or R.random() < 0.5 else L.enc_bits(width(a), v)
        rec.call(op, [rec.obj_arg(a), y], refl=refl, rid=dest(0.85))
    elif c < 0.56:                                  # modify one object in place (mostly a RESULT)
        t = pick()
        if pend and R.random() < 0.3:
            t = R.choice(sorted(pend))
        wt = width(t)
        k = R.random()
        if t in pend and k < 0.45:
            rec.call("flip", [], tgt=t)
        elif k < 0.40:
            rec.call("assign", [L.enc_int(fit_int(t))], tgt=t)
        elif k < 0.55:
            s_ = pick(lambda i: width(i) == wt and i != t, False)
            rec.call("assign", [rec.obj_arg(s_) if s_ else L.gen_bits(R, wt)], tgt=t)
        elif k < 0.72:
            s_ = pick(lambda i: width(i) == wt and i != t, False)
            v = rec.obj_arg(s_) if s_ and R.random() < 0.5 else L.enc_int(fit_int(t))
            e = rec.call("nbassign", [v], tgt=t)
            if e["out"]["k"] != "err":
                pend.add(t)
        elif k < 0.86:
            i = R.randrange(wt) if R.random() < 0.9 else L.gen_index(R, wt)
            b = (val(t) >> i) & 1 if 0 <= i < wt else 0
            s_ = pick(lambda j: width(j) == 1 and j != t, False)
            v = rec.obj_arg(s_) if s_ and R.random() < 0.4 else \
                L.enc_int(1 - b) if R.random() < 0.7 else L.enc_bits(1, 1 - b)
            rec.call("setbit", [i, v], tgt=t)
        else:
            lo = R.randrange(wt)
            hi = R.randint(lo + 1, wt)
            s_ = pick(lambda j: width(j) == hi - lo and j != t, False)
            v = rec.obj_arg(s_) if s_ and R.random() < 0.5 else L.gen_bits(R, hi - lo)
            rec.call("setslice", [L.idx(lo), L.idx(hi), [], v], tgt=t)
    elif c < 0.68:                                  # reading bits returns a new object too
        a = pick()
        wa = width(a)
        if R.random() < 0.35:
            rec.call("getbit", [rec.obj_arg(a), R.randrange(wa) if R.random() < 0.9 else L.gen_index(R, wa)],
                     rid=dest(0.85))
        else:
            k = R.random()
            if k < 0.3:
                lo, hi = R.choice([(0, wa), (None, None), (0, None), (None, wa)])       # the whole object
            elif k < 0.9:
                lo = R.randrange(wa)
                hi = R.randint(lo + 1, wa)
            else:
                lo, hi = L.gen_bounds(R, wa)
            rec.call("getslice", [rec.obj_arg(a), L.idx(lo), L.idx(hi), []], rid=dest(0.85))
    elif c < 0.80:                                  # copies
        a = pick()
        k = R.random()
        if k < 0.3:
            rec.call("clone", [rec.obj_arg(a)], rid=dest(0.9))
        elif k < 0.5:
            rec.call("deepcopy", [rec.obj_arg(a)], rid=dest(0.9))
        elif k < 0.7:
            rec.call("invert", [rec.obj_arg(a)], rid=dest(0.9))
        elif k < 0.92:
            r = dest(0.95) or 1
            e = rec.call("new", [width(a), rec.obj_arg(a), R.random() < 0.2], rid=r)
            if e["out"]["k"] != "err":
                pend.discard(r)
        else:
            r = dest(0.95) or 1
            nw = R.choice([w, 1, 2, R.choice(L.WIDTHS), R.randint(1, 1023)])            # mk_bits / BitsN of any width
            e = rec.call("new", [nw, L.enc_int(L.gen_assign_int(R, nw)), R.random() < 0.2], rid=r)
            if e["out"]["k"] != "err":
                pend.discard(r)
    elif c < 0.92:                                  # helpers
        a = pick()
        wa = width(a)
        k = R.random()
        if k < 0.3:
            b = pick(None, False)
            xs = [rec.obj_arg(a), rec.obj_arg(b)] if wa + width(b) <= 1023 else [rec.obj_arg(a)]
            if R.random() < 0.15:
                xs = [rec.obj_arg(a)]                # concat of one operand: must still be a new object
            rec.call("concat", xs, rid=dest(0.85))
        elif k < 0.75:
            op = R.choice(["zext", "sext", "trunc"])
            if R.random() < 0.4:
                nn = wa                             # same width: the helper must still copy
            elif op == "trunc":
                nn = R.randint(1, wa)
            else:
                nn = R.choice([min(1023, wa + 1), min(1023, 2 * wa), R.randint(wa, 1023)])
            rec.call(op, [rec.obj_arg(a), nn], rid=dest(0.85))
        else:
            rec.call(R.choice(["reduce_and", "reduce_or", "reduce_xor"]), [rec.obj_arg(a)], rid=dest(0.85))
    else:                                           # run an earlier operation again on the (modified) operands
        if not log:
            return
        op, a, y = R.choice(log)
        if a > n or (isinstance(y, int) and y > n):
            return
        yy = rec.obj_arg(y) if isinstance(y, int) else y
        yv = L.obj_value(yy) if yy["k"] == "obj" else L.dec_value(yy)
        rid = dest()
        if op in ("floordiv", "mod") and yv == 0:
            rid = 0
        rec.call(op, [rec.obj_arg(a), yy], rid=rid)
    for e in rec.ev[-1:]:
        if e.get("rid"):
            pend.discard(e["rid"])                  # a new object has no pending value


def _gen_heap_traces(ntraces_per_w, nev):
    R = common.rng("c04-heap-traces")
    traces = []
    for w in L.WIDTHS:
        for t in range(ntraces_per_w):
            rec = L.Recorder(w, L.STYLES[(t + w) % 3], heap=True)
            rec.call("assign", [L.enc_int(L.gen_value(R, w))])
            pend, log = set(), []
            for _ in range(nev):
                _heap_event(R, rec, w, pend, log)
            traces.append(rec.trace())
    return traces


def _gen_traces(ntraces_per_w, nev):
    R = common.rng("c04-traces")
    traces = []
    for w in L.WIDTHS:
        for t in range(ntraces_per_w):
            rec = L.Recorder(w, L.STYLES[(t + w) % 3])
            for _ in range(nev):
                _event(R, rec, w)
            traces.append(rec.trace())
    return traces


HEAP_GRAPH = {   # complete state graph of BitsHeap: (NVars, Ws, WMax, INeg, IPos, Ops, IOps)
    "quick": (2, (1,), 1, 1, 2, L.ALL_OPS, ("add", "eq", "lt", "rshift")),
    "thorough": (2, (1, 2), 2, 1, 4, L.ALL_OPS, ("add", "sub", "eq", "lt", "ge", "rshift")),
}
HEAP_SIM = [     # `-simulate` configurations: all operators / mutator-heavy
    (3, (1, 2, 3), 4, 1, 5, L.ALL_OPS, ("add", "sub", "eq", "ne", "lt", "ge", "rshift", "and")),
    (3, (1, 2, 3), 4, 1, 3, ("eq", "lt", "add"), ("eq",),
     ("new", "bin", "binint", "assign", "nbassign", "flip", "setbit", "setslice", "getslice")),
    (4, (1, 2), 3, 1, 3, ("eq", "ne", "le", "gt", "and", "sub"), ("ne", "ge"),
     ("new", "newfrom", "un", "bin", "binint", "getbit", "concat", "ext", "assign", "nbassign", "flip", "setbit")),
]


def run(res, tier):
    quick = tier == "quick"
    W = 4 if quick else 5
    with common.scratch() as sd, L.new_pool() as pool:
        hg = pool.submit(L.heap_graph_tlc, HEAP_GRAPH[tier], sd, tier)
        hs = [pool.submit(L.heap_sim_tlc, c, 150 if quick else 1500, 40 if quick else 60, common.seed() + k)
              for k, c in enumerate(HEAP_SIM)]
        bv = L.bv_selfcheck_submit(tier, pool)
        jobs = [("bin_bi", W, W, 0), ("bin_bb", 1, W, 0), ("bin_bi", 1, W - 1, 0), ("bin_bx", 1, 4, 4),
                ("un", 1, W + 1, 0), ("hash", 1, 4, 4), ("new", 1, W, W), ("assign", 1, W, W), ("nbassign", 1, W, W)]
        tf = L.tables(jobs, sd, pool)

        # 3a. several live objects: results of earlier calls are modified in place, operands re-evaluated
        htraces = _gen_heap_traces(3 if quick else 40, 40 if quick else 50)
        e0 = next((e for t in htraces[5:] for e in t["ev"] if e.get("rid") and e["op"] in CMP_OPS), htraces[0]["ev"][0])
        res.sample({"kind": "impl trace event (heap)", **{f: e0.get(f) for f in ("op", "args", "out", "rid")},
                    "objects_after": [L.show(x) for x in e0["heap"]]})
        hfound = L.validate(res, htraces, pool, sd, label="heap-trace", max_per_trace=2,
                            need_actions=("BinEv", "UnaryEv", "ReadEv", "HelperEv", "NewEv", "AssignEv", "SetEv"))
        hbad = {f[0] for f in hfound}
        try:
            L.heap_canaries(res, [t for i, t in enumerate(htraces) if i not in hbad], pool, sd)
        except common.MachineryError:
            if len(hbad) < len(htraces) // 2:
                raise
            res.note("heap_canaries", "skipped: most heap traces were rejected, nothing accepted to corrupt")
        hops = {}
        for t in htraces:
            for e in t["ev"]:
                kk = "%s:%s:%s" % (e["op"], e["out"]["k"], "kept" if e.get("rid") else "tgt" if "tgt" in e else "dropped")
                hops[kk] = hops.get(kk, 0) + 1
                res.distinct(("heap", e["op"], e["out"]["k"], bool(e.get("rid")), len(e["heap"]), e["heap"][0]["w"],
                              tuple(a.get("k") if isinstance(a, dict) else "i" for a in e["args"])))
        rejected_ops = {f[3]["op"] for f in hfound}      # a rejected operator is a finding, not a vacuity problem
        for op in L.BITS_RESULT - {"reduce_and", "reduce_or", "reduce_xor"} - rejected_ops:
            if not hops.get(op + ":ok:kept"):
                raise common.MachineryError("no result of %s was kept as a live object in the heap traces" % op)
        for op in {"assign", "nbassign", "flip", "setbit", "setslice"} - rejected_ops:
            if not hops.get(op + ":unit:tgt"):
                raise common.MachineryError("mutator %s never applied in the heap traces" % op)
        nmut = sum(1 for t in htraces for e in t["ev"] if e.get("tgt", 1) != 1 and e["out"]["k"] == "unit")
        if nmut < 50 and not hfound:
            raise common.MachineryError("only %d in-place modifications of RESULT objects in the heap traces" % nmut)
        res.note("heap_trace_calls", hops)
        res.note("heap_trace_inplace_modifications_of_results", nmut)

        # 3b. one tracked object, every operator with literal operands
        traces = _gen_traces(10 if quick else 150, 40 if quick else 50)
        res.sample({"kind": "impl trace event", **{k: traces[7]["ev"][3][k] for k in ("op", "refl", "args", "out")}})
        found = L.validate(res, traces, pool, sd, need_actions=("BinEv", "DivModEv", "UnaryEv", "NewEv", "AssignEv"))
        bad = {f[0] for f in found}
        L.canaries(res, [t for i, t in enumerate(traces) if i not in bad], pool, sd)
        ops = {}
        for t in traces:
            for e in t["ev"]:
                k = e["op"] + ("(refl)" if e["refl"] else "") + ":" + e["out"]["k"]
                ops[k] = ops.get(k, 0) + 1
                res.distinct((e["op"], e["refl"], e["post"]["w"], e["out"]["k"],
                              tuple(a.get("k") if isinstance(a, dict) else "i" for a in e["args"])))
        for op in list(L.BINOPS) + list(L.UNOPS) + ["new", "assign", "nbassign", "flip", "divmod", "hash_eq"]:
            if not any(k.startswith(op + ":") or k.startswith(op + "(refl):") for k in ops):
                raise common.MachineryError("operator %s never exercised by the random traces" % op)
        res.note("trace_calls_by_op_and_outcome", ops)

        # 2b. object identity, spec -> code
        L.heap_walk(res, hg.result())
        L.heap_simulate(res, hs)

        L.graph_walk(res, (1, 2) if quick else (1, 2, 3), (1, 2, 3) if quick else (1, 2, 3, 4), 6 if quick else 10,
                     ("new", "assign", "nbassign", "flip"), sd)

        for (job, fu) in tf:
            r, rows = fu.result()
            res.add_tlc(r)
            big = len(rows) > 30000
            L.check_rows(res, "%s[w=%d..%d]" % job[:3], rows, ("rotate",) if big else L.STYLES)
            if job[0] == "bin_bb":
                res.sample({"kind": "TLC table row", **rows[len(rows) // 3]})
        L.bv_selfcheck_collect(res, bv)
    res.cov["exhaustive"] = True
    res.note("widths_sampled", L.WIDTHS)
    res.note("rule", "spec->code: TLC enumerates every (operator, width<=%d, operands) row of BitsTable and every "
             "transition of the BitsObj state graph, each executed on the real API; the complete state graph of "
             "BitsHeap (%d variables, widths %s) is covered by one walk on real objects that are the very results of "
             "the real calls, plus -simulate behaviours of larger heaps. code->spec: seeded random operation "
             "sequences at 21 widths up to 1023 bits, operands biased to 0, 1, 2^(w-1)+-1, 2^w-1, limb and word "
             "edges, out-of-range ints, other-width operands; sequences over up to %d live objects in which results "
             "of earlier calls are modified in place and used as operands. A case is one logged call (op, operand "
             "encodings, outcome, which objects are live)" % (W, HEAP_GRAPH[tier][0], list(HEAP_GRAPH[tier][1]), NVARS))
    res.assume("the exception class of a required error is not constrained")
    res.assume("// and % by zero, reflected shifts (int << Bits, int >> Bits): any outcome admitted")
    res.assume("shift amount of another width (Bits of a different width or an int >= 2^w): error or left-width result")
    res.assume("widths above %d are sampled (21 widths up to 1023), not enumerated" % W)
    res.assume("every operation returning a Bits value must return a new object (Bits is mutable in place); "
               "`x op= y` is the pure operator followed by rebinding, as Bits defines no in-place arithmetic")
