"""C01  Simulation results do not depend on the schedule chosen.

spec/DL.tla (meaning of update blocks), spec/SimKernel.tla (kernel state machine; TLC explores every
interleaving of the spec's scheduler on model designs: Confluence, FFAtomic), spec/SimKernelTrace.tla
(trace validation).  Generated designs (systematic shape grid + random dataflow networks with slices,
struct fields, nets, hierarchy, registers) are run on the REAL simulator under all five pass groups,
several SimpleSchedulePass tie-break seeds, every (or sampled) linear extension of pymtl3's own
constraint set forced into the schedule and forced flip-flop orders; each block call is recorded with
the full post-state and TLC checks every call (enabling condition, computed value), every end of pass
(fixed point, equality with the schedule-independent solution Ref of the equations), every clock edge,
and that re-invoking any block afterwards changes nothing.

NOTE: designs are generated (not arbitrary user code): widths <= 8 bits, <= ~12 blocks, <= 3 levels;
inputs exhaustive when the total input width is <= 6 bits, sampled otherwise. Trusted: TLC, the DL
interpreter in spec/DL.tla (its operator meanings are those C04/C05 establish for Bits), the
projection in harness/kernel.py (sys.setprofile call order, to_bits snapshots).
"""
import kernel
import kernel_check as kc
from common import scratch

READY = True


def run(res, tier):
    quick = tier == "quick"
    kc.model_check(res, maxcyc=1)
    with scratch("c01_") as sdir:
        grid = kc.grid_designs()
        if quick:
            grid = grid[::3]
        designs = grid + kc.ff_designs()[4:7] + kc.rand_designs("c01r", 40 if quick else 600)

        def drive(c):
            c.run_modes(kernel.MODES, cycles=3 if quick else 8, seeds=(0, 1) if quick else (0, 1, 2, 3, 4, 5))
            c.run_forced(limit=6 if quick else 120, cycles=2 if quick else 4,
                         only=(lambda d: d.family == "grid") if quick else None)
            c.run_ff_perms(limit=6 if quick else 24, cycles=3 if quick else 6)
        c, ndesigns = kc.run_chunked(res, "c01", "C01", sdir, designs, len(designs) if quick else 60, drive)
        res.sample({"design": c.djs[0]["name"], "source": c.designs[0].py_source(),
                    "trace_head": c.traces[1]["ev"][:6]})
        res.sample({"design": c.djs[-1]["name"], "mode": c.traces[-1]["mode"], "events": len(c.traces[-1]["ev"])})
    res.note("designs", ndesigns)
    res.note("rule", "a case = (design, pass group, tie-break seed | forced linear extension | forced ff permutation); "
             "designs: systematic writer-shape x reader-shape grid + seeded random dataflow networks")
    res.assume("generated designs only: widths <= 8, block-level acyclic, no latches (every comb-driven bit is "
               "assigned on every path), no division")
    res.assume("a block is identified by its function name / a net block by writer and readers as pymtl3 reports them")
