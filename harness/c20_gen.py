"""Program generation for C20 (TinyRV0 processors vs the ISA specification).

Nothing in this module is an oracle.  The small concrete interpreter below (`steer`) is used ONLY to
steer generation towards programs that stay inside the defined part of the ISA (aligned accesses inside
the loaded image, termination); the verdict about the processors comes from spec/TinyRV0Trace.tla, which
also re-checks every program ("bad-program:*" verdicts are machinery failures).

Every program:
  prologue   base pointer of the data window, initialisation of every register the body reads
  body       random items / packed hazard patterns
  epilogue   csrw of the live registers, then the SENTINEL built with addi/sll/addi is written to
             proc2mngr, then `halt: bne s, x0, halt` followed by two trap instructions (csrw, sw) that
             must never take effect.
The mngr2proc queue is a plain stream: every executed csrr takes the next value.
"""
import struct

MASK = 0xFFFFFFFF
TEXT = 0x200
DATA = 0x2000
NDATA = 16            # read/write data words
NPTR = 8              # read-only (by discipline) words that hold pointers into the data words
NWIN = NDATA + NPTR
LOW = 0x700           # a second read/write window reachable from x0 with a 12-bit immediate
NLOW = 16
SENT = 0x61D002C5
MAXSTEPS = 6000


class Ins:
    __slots__ = ("op", "rd", "rs1", "rs2", "imm", "tgt", "label")

    def __init__(self, op, rd=0, rs1=0, rs2=0, imm=0, tgt=None, label=None):
        self.op, self.rd, self.rs1, self.rs2, self.imm, self.tgt, self.label = op, rd, rs1, rs2, imm, tgt, label

    def text(self):
        o = self.op
        if o in ("add", "and", "sll", "srl"):
            return "%s x%d, x%d, x%d" % (o, self.rd, self.rs1, self.rs2)
        if o == "addi":
            return "addi x%d, x%d, 0x%03x" % (self.rd, self.rs1, self.imm & 0xFFF)
        if o == "lw":
            return "lw x%d, 0x%03x(x%d)" % (self.rd, self.imm & 0xFFF, self.rs1)
        if o == "sw":
            return "sw x%d, 0x%03x(x%d)" % (self.rs2, self.imm & 0xFFF, self.rs1)
        if o == "bne":
            return "bne x%d, x%d, %s" % (self.rs1, self.rs2, self.tgt)
        if o == "csrr":
            return "csrr x%d, mngr2proc" % self.rd
        if o == "csrw":
            return "csrw proc2mngr, x%d" % self.rs1
        if o == "nop":
            return "nop"
        raise ValueError(o)


def sx12(i):
    i &= 0xFFF
    return i - 4096 if i >= 2048 else i


class Steer:
    """Concrete architectural state used to steer generation (not an oracle)."""

    def __init__(self, data, inq=()):
        self.r = [0] * 32
        self.mem = {DATA + 4 * i: w for i, w in enumerate(data[:NWIN])}
        self.mem.update({LOW + 4 * i: w for i, w in enumerate(data[NWIN:])})
        self.inq = list(inq)
        self.qpos = 0
        self.out = []

    def copy(self):
        c = Steer([])
        c.r, c.mem, c.inq, c.qpos, c.out = list(self.r), dict(self.mem), list(self.inq), self.qpos, list(self.out)
        return c

    def setr(self, rd, v):
        if rd:
            self.r[rd] = v & MASK

    def ea(self, i):
        return (self.r[i.rs1] + sx12(i.imm)) & MASK

    def ea_ok(self, a, store):
        if a % 4 or a not in self.mem:
            return False
        return not store or not (DATA + 4 * NDATA <= a < DATA + 4 * NWIN)

    def step(self, i):
        """Execute one non-branch instruction; returns None or the reason it is not acceptable."""
        o, r = i.op, self.r
        if o == "add":
            self.setr(i.rd, r[i.rs1] + r[i.rs2])
        elif o == "and":
            self.setr(i.rd, r[i.rs1] & r[i.rs2])
        elif o == "sll":
            self.setr(i.rd, r[i.rs1] << (r[i.rs2] & 31))
        elif o == "srl":
            self.setr(i.rd, r[i.rs1] >> (r[i.rs2] & 31))
        elif o == "addi":
            self.setr(i.rd, r[i.rs1] + sx12(i.imm))
        elif o == "lw":
            a = self.ea(i)
            if not self.ea_ok(a, False):
                return "lw address 0x%x" % a
            self.setr(i.rd, self.mem[a])
        elif o == "sw":
            a = self.ea(i)
            if not self.ea_ok(a, True):
                return "sw address 0x%x" % a
            self.mem[a] = r[i.rs2]
        elif o == "csrr":
            if self.qpos >= len(self.inq):
                return "mngr2proc empty"
            self.setr(i.rd, self.inq[self.qpos])
            self.qpos += 1
        elif o == "csrw":
            self.out.append(r[i.rs1])
        elif o == "nop":
            pass
        else:
            raise ValueError(o)
        return None


def run_steer(ins, st, maxsteps=MAXSTEPS):
    """Run a whole program (list of Ins with labels) on Steer `st`.  Returns (ok, why, steps)."""
    lab = {}
    for k, i in enumerate(ins):
        if i.label:
            for name in i.label:
                lab[name] = k
    pc, n = 0, 0
    while n < maxsteps:
        if pc >= len(ins):
            return False, "ran off the program", n
        i = ins[pc]
        n += 1
        if i.op == "bne":
            if st.r[i.rs1] != st.r[i.rs2]:
                if lab[i.tgt] == pc:
                    return True, "halt", n
                pc = lab[i.tgt]
            else:
                pc += 1
            continue
        why = st.step(i)
        if why:
            return False, "%s at #%d (%s)" % (why, pc, i.text()), n
        pc += 1
    return False, "step limit", n


class Program:
    def __init__(self, name, ins, data, inq, meta=None):
        self.name, self.ins, self.data, self.inq, self.meta = name, ins, data, inq, meta or {}

    def asm(self):
        lines = []
        for i in self.ins:
            for name in (i.label or ()):
                lines.append(name + ":")
            lines.append("  " + i.text())
        return "\n".join(lines) + "\n"


# ---------------------------------------------------------------------------------------------
# value pools
# ---------------------------------------------------------------------------------------------

def rand_word(R):
    k = R.random()
    if k < 0.35:
        return R.getrandbits(32)
    if k < 0.5:
        return R.choice([0, 1, 2, 3, 4, 31, 32, 33, 63, 0x7FFFFFFF, 0x80000000, 0xFFFFFFFF, 0xFFFFFFFE,
                         0xFFFF, 0x10000, 0xFFFF0000, 0x8000, 0x7FFF, 0xAAAAAAAA, 0x55555555])
    if k < 0.7:
        return R.randrange(0, 64)
    if k < 0.85:
        return (1 << R.randrange(32)) - R.choice([0, 1])
    return (R.getrandbits(32) | (R.getrandbits(32) << 7)) & MASK


def rand_imm(R):
    k = R.random()
    if k < 0.3:
        return R.choice([0, 1, -1, 2047, -2048, 4, -4, 31, 32, 33, 16, 15, 17, 1024, -1024])
    if k < 0.6:
        return R.randrange(-40, 41)
    return R.randrange(-2048, 2048)


def make_data(R):
    data = [rand_word(R) for _ in range(NDATA)]
    data += [DATA + 4 * R.randrange(NDATA) for _ in range(NPTR)]
    data += [R.choice([rand_word(R), DATA + 4 * R.randrange(NDATA), LOW + 4 * R.randrange(NLOW)]) for _ in range(NLOW)]
    return data


def targets(v, store):
    """Word addresses of the two windows reachable from register value v with a 12-bit immediate."""
    t = [DATA + 4 * w for w in range(NDATA if store else NWIN)] + [LOW + 4 * w for w in range(NLOW)]
    return [a for a in t if -2048 <= a - v <= 2047]


def epilogue(ins, live, s, s2, base):
    """Dump live registers, write the sentinel, halt; traps after the halting loop."""
    for r in live:
        ins.append(Ins("csrw", rs1=r))
    ins.append(Ins("addi", rd=s, rs1=0, imm=0x61D))
    ins.append(Ins("addi", rd=s2, rs1=0, imm=20))
    ins.append(Ins("sll", rd=s, rs1=s, rs2=s2))
    ins.append(Ins("addi", rd=s, rs1=s, imm=0x2C5))
    ins.append(Ins("csrw", rs1=s))
    ins.append(Ins("bne", rs1=s, rs2=0, tgt="halt", label=["halt"]))
    ins.append(Ins("csrw", rs1=s))
    ins.append(Ins("sw", rs1=base, rs2=s, imm=0))


def base_prologue(R, ins, inq, base, tmp):
    """Put DATA into register `base` in one of three ways."""
    k = R.randrange(3)
    if k == 0:
        ins.append(Ins("csrr", rd=base))
        inq.append(DATA)
    elif k == 1:
        ins.append(Ins("addi", rd=base, rs1=0, imm=1))
        ins.append(Ins("addi", rd=tmp, rs1=0, imm=13 + 32 * R.randrange(2)))
        ins.append(Ins("sll", rd=base, rs1=base, rs2=tmp))
    else:
        ins.append(Ins("addi", rd=base, rs1=0, imm=0x400))
        ins.append(Ins("add", rd=base, rs1=base, rs2=base))
        ins.append(Ins("add", rd=base, rs1=base, rs2=base))
        ins.append(Ins("add", rd=base, rs1=base, rs2=base))


# ---------------------------------------------------------------------------------------------
# random structured programs (static pointer discipline, forward branches, counted loops)
# ---------------------------------------------------------------------------------------------

class RandGen:
    def __init__(self, R, size):
        self.R = R
        regs = R.sample(range(1, 32), 14)
        self.B = regs[0]
        self.C = regs[1:3]
        self.P = regs[3:5]
        self.S, self.S2 = regs[5:7]
        ng = R.choice([2, 3, 3, 4, 5, 7])
        self.G = regs[7:7 + ng]
        self.size = size
        self.ins = []
        self.inq = []
        self.nlabel = 0
        self.pending = []          # labels to attach to the next instruction
        self.data = make_data(R)
        self.ncsrr = 0             # static bound on dynamic csrr count (weight = loop multiplicity)
        self.mult = 1

    # -- emission
    def emit(self, op, **kw):
        i = Ins(op, **kw)
        if self.pending:
            i.label = self.pending
            self.pending = []
        self.ins.append(i)
        if op == "csrr":
            self.ncsrr += self.mult
        return i

    def newlabel(self):
        self.nlabel += 1
        return "L%d" % self.nlabel

    def g(self, zero=0.1):
        return 0 if self.R.random() < zero else self.R.choice(self.G)

    def src(self):
        k = self.R.random()
        if k < 0.08:
            return self.B
        if k < 0.14:
            return self.R.choice(self.P)
        return self.g(0.08)

    # -- items; ptr: reg -> byte offset relative to DATA
    def item(self, ptr, depth, budget):
        R = self.R
        k = R.random()
        if k < 0.22:
            self.emit(R.choice(["add", "and", "sll", "srl"]), rd=self.dst(ptr), rs1=self.src(), rs2=self.src())
            return 1
        if k < 0.32:
            self.emit("addi", rd=self.dst(ptr), rs1=self.src(), imm=rand_imm(R))
            return 1
        if k < 0.38:
            t = self.g(0)
            self.kill(ptr, t)
            self.emit("addi", rd=t, rs1=0, imm=R.choice([0, 1, 4, 8, 15, 16, 17, 31, 32, 33, 47, 63, R.randrange(64)]))
            self.emit(R.choice(["sll", "srl"]), rd=self.dst(ptr), rs1=self.src(), rs2=t)
            return 2
        if k < 0.50:
            return self.load(ptr)
        if k < 0.60:
            return self.store(ptr)
        if k < 0.66:
            return self.ptrmove(ptr)
        if k < 0.72:
            self.emit("csrr", rd=self.dst(ptr))
            return 1
        if k < 0.80:
            self.emit("csrw", rs1=self.src())
            return 1
        if k < 0.86:
            return self.template(ptr)
        if k < 0.94 and budget >= 4:
            return self.branch(ptr, depth, budget)
        if depth < 2 and budget >= 6:
            return self.loop(ptr, depth, budget)
        self.emit("nop")
        return 1

    def kill(self, ptr, r):
        if r:
            ptr.pop(r, None)

    def dst(self, ptr, zero=0.06):
        r = self.g(zero)
        self.kill(ptr, r)
        return r

    def pick_ptr(self, ptr):
        return self.R.choice(sorted(ptr))

    def imm_to(self, ptr, p, store, near=None):
        """Immediate that makes `imm(p)` a valid word address (p holds the known value ptr[p])."""
        t = targets(ptr[p], store)
        if near is not None and near in t:
            return near - ptr[p]
        return self.R.choice(t) - ptr[p]

    def load(self, ptr, rd=None):
        R = self.R
        p = self.pick_ptr(ptr)
        if R.random() < 0.3:       # pointer cell -> pointer register (load-use on an address)
            k = NDATA + R.randrange(NPTR)
            if DATA + 4 * k in targets(ptr[p], False):
                q = R.choice(self.P)
                self.emit("lw", rd=q, rs1=p, imm=DATA + 4 * k - ptr[p])
                ptr[q] = self.data[k]
                if R.random() < 0.6:
                    self.emit("lw", rd=self.dst(ptr), rs1=q, imm=self.imm_to(ptr, q, False))
                    return 2
                return 1
        rd = self.dst(ptr) if rd is None else rd
        self.emit("lw", rd=rd, rs1=p, imm=self.imm_to(ptr, p, False))
        return 1

    def store(self, ptr):
        p = self.pick_ptr(ptr)
        self.emit("sw", rs2=self.src(), rs1=p, imm=self.imm_to(ptr, p, True))
        return 1

    def ptrmove(self, ptr):
        R = self.R
        q = self.pick_ptr(ptr)
        p = R.choice(self.P)
        d = R.choice([4, -4, 8, 0, 1, 2, 3, -1, 12, 60, -60, 2044, -2048])
        o = (ptr[q] + d) & MASK
        self.emit("addi", rd=p, rs1=q, imm=d)
        if targets(o, True):
            ptr[p] = o
        else:
            self.kill(ptr, p)
        return 1

    def template(self, ptr):
        R = self.R
        k = R.randrange(6)
        if k == 0:                 # dependent chain
            a = self.g(0)
            self.kill(ptr, a)
            n = R.randrange(2, 6)
            for _ in range(n):
                if R.random() < 0.5:
                    self.emit("addi", rd=a, rs1=a, imm=rand_imm(R))
                else:
                    self.emit(R.choice(["add", "and", "sll", "srl"]), rd=a, rs1=a, rs2=R.choice([a, self.src()]))
            return n
        if k == 1:                 # load-use
            a = self.g(0)
            self.kill(ptr, a)
            p = self.pick_ptr(ptr)
            self.emit("lw", rd=a, rs1=p, imm=self.imm_to(ptr, p, False))
            self.kill(ptr, a)
            self.emit(R.choice(["add", "and", "sll", "srl"]), rd=self.dst(ptr), rs1=R.choice([a, self.src()]), rs2=a)
            if R.random() < 0.5:
                self.emit("csrw", rs1=a)
            return 3
        if k == 2:                 # store-load on the same word (and a neighbour)
            p, q = self.pick_ptr(ptr), self.pick_ptr(ptr)
            both = sorted(set(targets(ptr[p], True)) & set(targets(ptr[q], True)))
            if not both:
                q = p
                both = targets(ptr[p], True)
            w = R.choice(both)
            self.emit("sw", rs2=self.src(), rs1=p, imm=w - ptr[p])
            if R.random() < 0.4:
                self.emit("sw", rs2=self.src(), rs1=q, imm=self.imm_to(ptr, q, True, near=R.choice([w, w + 4])))
            self.emit("lw", rd=self.dst(ptr), rs1=q, imm=w - ptr[q])
            return 3
        if k == 3:                 # back-to-back csrr / csrw
            n = R.randrange(2, 5)
            for _ in range(n):
                a = self.dst(ptr, 0.1)
                self.emit("csrr", rd=a)
                if R.random() < 0.7:
                    self.emit("csrw", rs1=R.choice([a, self.src()]))
            return 2 * n
        if k == 4:                 # load then store of the loaded value, store data bypass
            a = self.g(0)
            self.kill(ptr, a)
            p = self.pick_ptr(ptr)
            self.emit("lw", rd=a, rs1=p, imm=self.imm_to(ptr, p, False))
            if p == a:
                p = self.B
            self.emit("sw", rs2=a, rs1=p, imm=self.imm_to(ptr, p, True))
            return 2
        # csrw burst of the same / different registers
        n = R.randrange(2, 5)
        for _ in range(n):
            self.emit("csrw", rs1=self.src())
        return n

    def block(self, ptr, depth, budget):
        used = 0
        n = self.R.randrange(1, max(2, min(budget, 6)))
        while used < n:
            used += self.item(ptr, depth, budget - used)
        return used

    def branch(self, ptr, depth, budget):
        R = self.R
        lab = self.newlabel()
        a = self.g(0.15)
        b = a if R.random() < 0.25 else self.g(0.3)
        self.emit("bne", rs1=a, rs2=b, tgt=lab)
        inner = dict(ptr)
        used = self.block(inner, depth, min(budget - 1, 5))
        self.pending.append(lab)
        for r in list(ptr):      # join: keep what both paths agree on
            if inner.get(r) != ptr[r]:
                del ptr[r]
        return used + 1

    def loop(self, ptr, depth, budget):
        R = self.R
        c = self.C[depth]
        n = R.choice([1, 2, 2, 3, 4])
        lab = self.newlabel()
        self.emit("addi", rd=c, rs1=0, imm=n)
        self.pending.append(lab)
        for r in list(ptr):
            if r not in (self.B, 0):
                del ptr[r]
        old = self.mult
        self.mult *= n
        used = 0
        m = R.randrange(2, max(3, min(budget - 3, 9)))
        while used < m:
            used += self.item(ptr, depth + 1, m - used)
        self.mult = old
        self.emit("addi", rd=c, rs1=c, imm=-1)
        self.emit("bne", rs1=c, rs2=0, tgt=lab)
        return used + 3

    def build(self, name):
        R = self.R
        base_prologue(R, self.ins, self.inq, self.B, self.S2)
        ptr = {self.B: DATA, 0: 0}
        for p in self.P:
            o = 4 * R.randrange(NWIN)
            self.emit("addi", rd=p, rs1=self.B, imm=o)
            ptr[p] = DATA + o
        for g in self.G:
            if R.random() < 0.6:
                self.emit("csrr", rd=g)
                self.inq.append(rand_word(R))
                self.ncsrr -= 1
            else:
                self.emit("addi", rd=g, rs1=0, imm=rand_imm(R))
        used = 0
        while used < self.size:
            used += self.item(ptr, 0, self.size - used)
        if self.pending:
            self.emit("nop")
        epilogue(self.ins, self.G + self.P, self.S, self.S2, self.B)
        nq = len(self.inq)
        self.inq += [rand_word(R) for _ in range(max(0, self.ncsrr) + 3)]
        return Program(name, self.ins, self.data, self.inq, {"kind": "random", "prologue_q": nq})


def random_program(R, name, size):
    """Rejection-sample one valid random program."""
    for attempt in range(50):
        p = RandGen(R, size).build(name)
        st = Steer(p.data, p.inq)
        ok, why, steps = run_steer(p.ins, st)
        if ok and steps <= MAXSTEPS - 100:
            p.meta["steps"] = steps
            p.meta["rejected"] = attempt
            return p
    raise RuntimeError("random program generator keeps producing invalid programs: %s" % why)


# ---------------------------------------------------------------------------------------------
# exhaustive hazard patterns (ordered pairs with 0..3 nops between, ordered triples), every
# producer/consumer register overlap pattern
# ---------------------------------------------------------------------------------------------

KINDS = ["add", "addi", "and", "sll", "srl", "lw", "sw", "bne", "csrr", "csrw", "nop"]
NSRC = {"add": 2, "and": 2, "sll": 2, "srl": 2, "addi": 1, "lw": 1, "sw": 2, "bne": 2, "csrw": 1,
        "csrr": 0, "nop": 0}
HASRD = {"add", "addi", "and", "sll", "srl", "lw", "csrr"}


def _src_roles(kind, producers, k):
    """Role tuples for the sources of instruction number k: 'f' fresh, or the index of an earlier
    instruction that has a destination register."""
    opts = ["f"] + [j for j in range(k) if producers[j]]
    n = NSRC[kind]
    if n == 0:
        return [()]
    if n == 1:
        return [(a,) for a in opts]
    return [(a, b) for a in opts for b in opts]


def hazard_patterns(length):
    """All patterns of `length` instructions.  A pattern is a tuple of (kind, dest_role, src_roles):
    dest_role 'own' | 'x0' | j (same register as instruction j's destination)."""
    out = []

    def rec(k, acc, producers):
        if k == length:
            out.append(tuple(acc))
            return
        for kind in KINDS:
            if kind in HASRD:
                dests = ["own"]
                if k == 0:
                    dests.append("x0")
                elif k == 1 and producers[0] and acc[0][1] == "own":
                    dests.append(0)            # write-after-write on the first destination
            else:
                dests = [None]
            for sr in _src_roles(kind, producers, k):
                for d in dests:
                    rec(k + 1, acc + [(kind, d, sr)], producers + [kind in HASRD])

    rec(0, [], [])
    return out


def pair_patterns():
    """(pattern, gap) for every ordered pair, gap = number of nops between the two."""
    return [(p, g) for p in hazard_patterns(2) for g in range(4)]


def _needs_ptr(pat, k):
    """Does the value produced by instruction k (transitively) feed an address?"""
    for j in range(k + 1, len(pat)):
        kind, d, sr = pat[j]
        if kind in ("lw", "sw") and sr[0] == k:
            return True
        if kind in HASRD and kind != "lw" and k in sr and _needs_ptr(pat, j):
            return True
    return False


def _ptrish(R):
    base = DATA + 4 * R.randrange(NDATA) if R.random() < 0.8 else LOW + 4 * R.randrange(NLOW)
    return base + R.choice([0, 0, 0, 4, -4, 8, 1, 2, 3, -1, 64, 1000, -1000, 2040])


class HazGen:
    """Packs hazard patterns into programs, choosing registers, seeds and immediates with the
    steering interpreter so that every executed access is valid."""

    def __init__(self, R, name):
        self.R = R
        self.name = name
        regs = R.sample(range(1, 32), 3)
        self.B, self.S, self.S2 = regs
        self.ins = []
        self.inq = []
        self.data = make_data(R)
        self.st = Steer(self.data, [])
        self.nlabel = 0
        self.pending = []
        self.npat = 0
        self.infeasible = 0
        self.keys = []
        self.spans = []            # (pattern key, first, last] positions in the output sequence
        pro = []
        base_prologue(R, pro, self.inq, self.B, self.S2)
        self.st.inq = list(self.inq)
        for r in range(1, 32):              # no register is read before it is written
            if r != self.B:
                pro.append(Ins("addi", rd=r, rs1=0, imm=rand_imm(R)))
        for i in pro:
            self.st.step(i)
        self.ins += pro
        assert self.st.r[self.B] == DATA

    def seeds_for(self, kind, ptr):
        """Values for the (up to two) fresh sources of an instruction of `kind`; ptr: result should be
        usable as an address."""
        R = self.R
        if not ptr or R.random() < 0.15:
            return rand_word(R), rand_word(R)
        p = _ptrish(R)
        if kind == "add":
            d = R.choice([0, 4, -4, 8, 100, -100, 1, -1]) & MASK
            v = ((p - d) & MASK, d)
        elif kind == "and":
            v = (p | (R.getrandbits(32) & ~0xFFFF & MASK) if R.random() < 0.5 else p,
                 R.choice([MASK, 0xFFFFFFFC, 0xFFFF, 0x3FFC, 0x7FFFFFFF]))
        elif kind == "sll":
            s = R.randrange(0, 4)
            p &= ~((1 << s) - 1)
            v = ((p >> s) | (R.getrandbits(s) << (32 - s) if s else 0), s + 32 * R.randrange(2) + 64 * R.randrange(2))
            return v
        elif kind == "srl":
            s = R.randrange(0, 8)
            v = (((p << s) | R.getrandbits(s)) & MASK if s else p, s + 32 * R.randrange(2))
            return v
        else:
            v = (p, p)
        if R.random() < 0.5 and kind in ("add", "and"):
            v = (v[1], v[0])
        return v

    def try_pattern(self, pat, gap):
        R = self.R
        st = self.st.copy()
        ins, inq = [], []
        n = len(pat)
        pool = [r for r in range(1, 32) if r not in (self.B,)]
        regs = R.sample(pool, n + 2 * n)
        own = regs[:n]
        fresh = regs[n:]
        dest = [0] * n
        for k, (kind, d, sr) in enumerate(pat):
            if d == "own":
                dest[k] = own[k]
            elif d == "x0" or d is None:
                dest[k] = 0
            else:
                dest[k] = dest[d]
        # seeds for the fresh sources
        srcs = []
        seeded = []
        for k, (kind, d, sr) in enumerate(pat):
            needs = kind in HASRD and _needs_ptr(pat, k)
            vals = self.seeds_for(kind, needs)
            regs_k = []
            for j, role in enumerate(sr):
                if role == "f":
                    if kind in ("lw", "sw") and j == 0:
                        if R.random() < 0.5:
                            regs_k.append(self.B)
                            continue
                        val = _ptrish(R)
                    elif kind == "addi" and needs:
                        val = _ptrish(R)
                    elif kind == "bne" and sr == ("f", "f") and j == 1 and R.random() < 0.3:
                        regs_k.append(regs_k[0])          # same register: never taken
                        continue
                    else:
                        val = vals[j]
                    r = fresh[2 * k + j]
                    if R.random() < 0.1:
                        r = 0                              # x0 as a source (absolute address for lw/sw)
                    else:
                        seeded.append((r, val & MASK))
                    regs_k.append(r)
                else:
                    regs_k.append(dest[role])
            srcs.append(regs_k)
        R.shuffle(seeded)
        for r, val in seeded:
            i = Ins("csrr", rd=r)
            ins.append(i)
            inq.append(val)
        st.inq = st.inq[:st.qpos] + inq
        for i in ins:
            st.step(i)
        # optional separation between the seeds and the sequence
        for _ in range(R.choice([0, 0, 0, 1, 2, 4])):
            ins.append(Ins("nop"))
        self.nlabel += 1
        endlab = "E%d" % self.nlabel
        skipping = False
        body = []
        for k, (kind, d, sr) in enumerate(pat):
            if k > 0 and gap:
                for _ in range(gap):
                    body.append(Ins("nop"))
            s = srcs[k]
            if kind in ("add", "and", "sll", "srl"):
                i = Ins(kind, rd=dest[k], rs1=s[0], rs2=s[1])
            elif kind == "addi":
                if _needs_ptr(pat, k):
                    imm = R.choice([0, 4, -4, 8, -8, 1, -1, 3, 16])
                else:
                    imm = rand_imm(R)
                i = Ins("addi", rd=dest[k], rs1=s[0], imm=imm)
            elif kind in ("lw", "sw"):
                v = st.r[s[0]]
                cand = targets(v, kind == "sw")
                if kind == "lw" and _needs_ptr(pat, k):
                    good = [a for a in cand if targets(st.mem[a], False)]
                    cand = good or cand
                if skipping:
                    imm = 4 * R.randrange(NDATA)
                elif not cand:
                    return None
                else:
                    imm = R.choice(cand) - v
                if kind == "lw":
                    i = Ins("lw", rd=dest[k], rs1=s[0], imm=imm)
                else:
                    i = Ins("sw", rs1=s[0], rs2=s[1], imm=imm)
            elif kind == "bne":
                i = Ins("bne", rs1=s[0], rs2=s[1], tgt=endlab)
            elif kind == "csrr":
                i = Ins("csrr", rd=dest[k])
                if not skipping:
                    val = _ptrish(R) if _needs_ptr(pat, k) else rand_word(R)
                    inq.append(val)
                    st.inq.append(val)
            elif kind == "csrw":
                i = Ins("csrw", rs1=s[0])
            else:
                i = Ins("nop")
            body.append(i)
            if skipping:
                continue
            if kind == "bne":
                if st.r[i.rs1] != st.r[i.rs2]:
                    skipping = True
            else:
                if st.step(i):
                    return None
        ins += body
        # observe: the destination registers, in random order (also the branch target)
        obs = sorted({r for r in dest if r})
        R.shuffle(obs)
        tail = [Ins("csrw", rs1=r) for r in obs]
        if not tail:
            tail = [Ins("nop")]
        tail[0].label = [endlab]
        for i in tail:
            st.step(i)
        ins += tail
        return ins, inq, st

    def add(self, pat, gap, key):
        for _ in range(60):
            got = self.try_pattern(pat, gap)
            if got:
                ins, inq, st = got
                self.spans.append((key, len(self.st.out), len(st.out)))
                self.ins += ins
                self.inq += inq
                self.st = st
                self.npat += 1
                self.keys.append(key)
                return True
        self.infeasible += 1
        return False

    def build(self):
        ins = list(self.ins)
        epilogue(ins, [], self.S, self.S2, self.B)
        inq = self.inq + [rand_word(self.R) for _ in range(3)]
        p = Program(self.name, ins, self.data, inq, {"kind": "hazard", "patterns": self.keys, "out_spans": self.spans})
        st = Steer(p.data, p.inq)
        ok, why, steps = run_steer(p.ins, st)
        if not ok:
            raise RuntimeError("hazard program %s invalid: %s" % (self.name, why))
        p.meta["steps"] = steps
        return p


def pat_key(pat, gap=0):
    def one(x):
        kind, d, sr = x
        return "%s[%s<-%s]" % (kind, "-" if d is None else d, ",".join(map(str, sr)))
    return "/".join(one(x) for x in pat) + ("+g%d" % gap if gap else "")


def hazard_programs(R, items, per_prog, prefix):
    """items: list of (pattern, gap).  Returns (programs, infeasible_keys)."""
    progs, infeasible = [], []
    g = None
    for n, (pat, gap) in enumerate(items):
        if g is None:
            g = HazGen(R, "%s%d" % (prefix, len(progs)))
        key = pat_key(pat, gap)
        if not g.add(pat, gap, key):
            infeasible.append(key)
        if g.npat >= per_prog:
            progs.append(g.build())
            g = None
    if g is not None and g.npat:
        progs.append(g.build())
    return progs, infeasible


# ---------------------------------------------------------------------------------------------
# program -> memory image (through the repository's assembler) -> JSON for the trace spec
# ---------------------------------------------------------------------------------------------

def halves(v):
    return [(v >> 16) & 0xFFFF, v & 0xFFFF]


def assemble_program(p):
    """Returns (mem_image, sections) where sections = [(name, byte_addr, [words])] of everything that
    is loaded into the test memory, and the mngr2proc words."""
    from examples.ex03_proc.tinyrv0_encoding import assemble
    from examples.ex03_proc.SparseMemoryImage import mk_section
    img = assemble(p.asm())
    if 0x200 + len(img.get_section(".text").data) > LOW:
        raise RuntimeError("program text overlaps the low data window")
    img.add_section(mk_section(".data", DATA, p.data[:NWIN]))
    if len(p.data) > NWIN:
        img.add_section(mk_section(".low", LOW, p.data[NWIN:]))
    img.add_section(mk_section(".mngr2proc", 0x13000, p.inq))
    secs = []
    for s in img.get_sections():
        if s.name in (".mngr2proc", ".proc2mngr"):
            continue
        words = [w[0] for w in struct.iter_unpack("<I", bytes(s.data))]
        secs.append((s.name, s.addr, words))
    return img, secs


def trace_json(p, secs, tid):
    return {"id": tid, "max": MAXSTEPS,
            "secs": [{"base": addr // 4, "ro": name == ".text", "w": [halves(w) for w in words]}
                     for (name, addr, words) in secs],
            "inq": [halves(v) for v in p.inq], "sent": halves(SENT), "obs": []}
