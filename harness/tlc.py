"""Run TLC on the specifications under /verif/spec and read back what it produced.

  run(...)            one TLC invocation (model checking, -simulate, -dump dot)
  parse_value(text)   TLA+ value printer syntax -> Python (ints, strings, bools, tuples, sets,
                      records, functions)
  parse_dot(path)     labelled state graph written by `-dump dot,actionlabels`
  parse_sim_traces()  behaviours written by `-simulate file=...`
  validate_traces()   batch trace validation protocol (section 2.2 of DESIGN.md)
"""
import json
import os
import re
import shutil
import subprocess
import tempfile
import time

from common import SPEC, MachineryError, seed

JAR = "/opt/veriftools/tla/tla2tools.jar"
DEPS = "/opt/veriftools/tla/CommunityModules-deps.jar"


class TLCRun:
    def __init__(self):
        self.out = ""
        self.rc = None
        self.generated = 0
        self.distinct = 0
        self.ok = False              # "No error has been found" / simulation finished w/o error
        self.violated = []           # names of violated invariants / properties
        self.errors = []             # other TLC errors
        self.prints = []             # parsed PrintT values
        self.coverage = {}           # action name -> (distinct, total)
        self.wall = 0.0
        self.spec = ""
        self.cfg = ""
        self.depth = 0

    def summary(self):
        return {"spec": self.spec, "cfg": self.cfg, "states": self.distinct,
                "transitions": self.generated, "ok": self.ok, "wall_s": round(self.wall, 2),
                "depth": self.depth,
                "action_coverage": {k: v[1] for k, v in sorted(self.coverage.items())}}


def run(module, cfg=None, cfg_text=None, env=None, workers=None, simulate=None, dump=None,
        coverage=False, timeout=3600, depth=None, deadlock=None, extra=None, dfs=False, heap="8g",
        light=False):
    """Run TLC on spec/<module>.tla.

    cfg       name of a .cfg under spec/ (default <module>.cfg); cfg_text overrides it with
              generated text (literal constants are emitted by the harness).
    simulate  dict(num=, depth=, file=) -> `-simulate`
    dump      path prefix for `-dump dot,actionlabels`
    """
    r = TLCRun()
    r.spec = module
    tmp = tempfile.mkdtemp(prefix="tlc_")
    try:
        if cfg_text is not None:
            cfgp = os.path.join(tmp, module + "_gen.cfg")
            with open(cfgp, "w") as f:
                f.write(cfg_text)
            r.cfg = "(generated)"
        else:
            cfgp = os.path.join(SPEC, cfg or (module + ".cfg"))
            r.cfg = os.path.basename(cfgp)
        if workers is None:
            workers = os.cpu_count() or 4
        if light:   # many small single-worker JVMs side by side (trace validation chunks)
            jopts = ["-XX:+UseSerialGC", "-Xmx2g", "-Xss64m", "-XX:TieredStopAtLevel=1"]
        else:
            jopts = ["-XX:+UseParallelGC", "-XX:ParallelGCThreads=%d" % max(2, min(8, int(workers) // 2)),
                     "-Xmx" + heap, "-Xss64m"]
        if dfs:
            jopts.append("-Dtlc2.tool.queue.IStateQueue=StateDeque")
        cmd = ["java"] + jopts + ["-cp", JAR + ":" + DEPS, "tlc2.TLC",
               "-metadir", os.path.join(tmp, "meta"), "-noGenerateSpecTE", "-config", cfgp,
               "-workers", str(workers)]
        if simulate:
            s = "num=%d" % simulate.get("num", 100)
            if simulate.get("file"):
                s = "file=%s,%s" % (simulate["file"], s)
            cmd += ["-simulate", s, "-depth", str(simulate.get("depth", 20)),
                    "-seed", str(simulate.get("seed", seed()))]
        elif depth:
            pass
        if dump:
            cmd += ["-dump", "dot,actionlabels", dump]
        if coverage:
            cmd += ["-coverage", "1"]
        if deadlock is False:
            cmd += ["-deadlock"]
        if extra:
            cmd += list(extra)
        cmd.append(os.path.join(SPEC, module + ".tla"))
        e = dict(os.environ)
        e.pop("JAVA_TOOL_OPTIONS", None)
        if env:
            e.update({k: str(v) for k, v in env.items()})
        t0 = time.time()
        try:
            p = subprocess.run(cmd, cwd=SPEC, env=e, stdout=subprocess.PIPE, stderr=subprocess.STDOUT,
                               timeout=timeout, text=True, errors="replace")
        except subprocess.TimeoutExpired as ex:
            raise MachineryError("TLC timed out after %ss on %s" % (timeout, module)) from ex
        r.wall = time.time() - t0
        r.out = p.stdout
        r.rc = p.returncode
        _parse_output(r)
        return r
    finally:
        shutil.rmtree(tmp, ignore_errors=True)


_RE_STATES = re.compile(r"(\d+) states generated, (\d+) distinct states found")
_RE_INV = re.compile(r"Error: Invariant (\S+) is violated")
_RE_PROP = re.compile(r"Error: (?:Action|Temporal) propert(?:y|ies) (?:\S+ )?.*violated|"
                      r"Error: Action property (\S+) is violated")
_RE_COV = re.compile(r"^<(\w+) line \d+, col \d+ to line \d+, col \d+ of module (\w+)>: (\d+):(\d+)", re.M)
_RE_DEPTH = re.compile(r"The depth of the complete state graph search is (\d+)")


def _parse_output(r):
    out = r.out
    for m in _RE_STATES.finditer(out):
        r.generated, r.distinct = int(m.group(1)), int(m.group(2))
    m = _RE_DEPTH.search(out)
    if m:
        r.depth = int(m.group(1))
    r.violated = _RE_INV.findall(out)
    for m in re.finditer(r"Error: Action property (\S+) is violated", out):
        r.violated.append(m.group(1))
    if "Temporal properties were violated" in out:
        r.violated.append("<temporal>")
    for m in re.finditer(r"^Error: (.*)$", out, re.M):
        t = m.group(1)
        if t.startswith("Invariant ") or t.startswith("Action property") or \
           t.startswith("The behavior up to this point") or t.startswith("The following behavior"):
            continue
        r.errors.append(t)
    if "Deadlock reached" in out:
        r.errors.append("deadlock")
    for m in _RE_COV.finditer(out):
        name = m.group(1)
        d, t = int(m.group(3)), int(m.group(4))
        if name in r.coverage:
            d += r.coverage[name][0]
            t += r.coverage[name][1]
        r.coverage[name] = (d, t)
    r.ok = (("No error has been found" in out) or
            ("Finished in" in out and not r.violated and not r.errors and "Error:" not in out))
    # PrintT output: TLC prints each value on its own line(s); we mark ours with a leading tag
    for line in out.splitlines():
        s = line.strip()
        if s.startswith("<<\"V\"") or s.startswith("<<\"T\"") or s.startswith("<<\"R\""):
            try:
                r.prints.append(parse_value(s))
            except Exception:
                pass
    if r.rc not in (0, 12, 13, 10, 11) and not r.violated and not r.errors:
        r.errors.append("TLC exit code %s" % r.rc)


# --------------------------------------------------------------------------------------
# TLA+ value parser
# --------------------------------------------------------------------------------------

class _P:
    def __init__(self, s):
        self.s = s
        self.i = 0

    def ws(self):
        while self.i < len(self.s) and self.s[self.i] in " \t\r\n":
            self.i += 1

    def peek(self, n=1):
        return self.s[self.i:self.i + n]

    def eat(self, t):
        self.ws()
        if self.s.startswith(t, self.i):
            self.i += len(t)
            return True
        return False

    def expect(self, t):
        if not self.eat(t):
            raise ValueError("expected %r at %d in %r" % (t, self.i, self.s[max(0, self.i - 20):self.i + 20]))

    def value(self):
        self.ws()
        v = self.atom()
        # function merge:  (a :> b @@ c :> d) handled in atom; here handle infix @@ at top level
        return v

    def atom(self):
        self.ws()
        c = self.peek()
        if self.peek(2) == "<<":
            self.i += 2
            items = []
            self.ws()
            if self.eat(">>"):
                return tuple(items)
            while True:
                items.append(self.value())
                self.ws()
                if self.eat(">>"):
                    return tuple(items)
                self.expect(",")
        if c == "{":
            self.i += 1
            items = []
            self.ws()
            if self.eat("}"):
                return frozenset()
            while True:
                items.append(_freeze(self.value()))
                self.ws()
                if self.eat("}"):
                    return frozenset(items)
                self.expect(",")
        if c == "[":
            self.i += 1
            d = {}
            self.ws()
            if self.eat("]"):
                return d
            while True:
                self.ws()
                m = re.compile(r"[A-Za-z_][A-Za-z0-9_]*").match(self.s, self.i)
                if not m:
                    raise ValueError("record field at %d" % self.i)
                k = m.group(0)
                self.i = m.end()
                self.expect("|->")
                d[k] = self.value()
                self.ws()
                if self.eat("]"):
                    return d
                self.expect(",")
        if c == "(":
            self.i += 1
            d = {}
            self.ws()
            if self.eat(")"):
                return d
            while True:
                k = self.value()
                self.expect(":>")
                v = self.value()
                d[_freeze(k)] = v
                self.ws()
                if self.eat(")"):
                    return d
                self.expect("@@")
        if c == '"':
            j = self.i + 1
            buf = []
            while self.s[j] != '"':
                if self.s[j] == "\\":
                    j += 1
                    buf.append({"n": "\n", "t": "\t"}.get(self.s[j], self.s[j]))
                else:
                    buf.append(self.s[j])
                j += 1
            self.i = j + 1
            return "".join(buf)
        m = re.compile(r"-?\d+").match(self.s, self.i)
        if m:
            self.i = m.end()
            return int(m.group(0))
        m = re.compile(r"[A-Za-z_][A-Za-z0-9_]*").match(self.s, self.i)
        if m:
            self.i = m.end()
            w = m.group(0)
            if w == "TRUE":
                return True
            if w == "FALSE":
                return False
            return ModelValue(w)
        raise ValueError("cannot parse at %d: %r" % (self.i, self.s[self.i:self.i + 30]))


class ModelValue(str):
    pass


def _freeze(v):
    if isinstance(v, dict):
        return tuple(sorted((k, _freeze(x)) for k, x in v.items()))
    if isinstance(v, (list, tuple)):
        return tuple(_freeze(x) for x in v)
    return v


def parse_value(text):
    p = _P(text)
    v = p.value()
    p.ws()
    if p.i != len(p.s):
        raise ValueError("trailing text: %r" % p.s[p.i:p.i + 30])
    return v


def parse_state(text):
    """'/\\ x = 1\n/\\ y = <<>>'  ->  {'x': 1, 'y': ()}"""
    st = {}
    # split on conjunct markers at line start
    parts = re.split(r"(?:^|\n)\s*/\\ ", "\n" + text.strip())
    for part in parts:
        part = part.strip()
        if not part:
            continue
        m = re.match(r"([A-Za-z_][A-Za-z0-9_]*)\s*=\s*(.*)$", part, re.S)
        if not m:
            raise ValueError("bad conjunct %r" % part[:60])
        st[m.group(1)] = parse_value(m.group(2).strip())
    if not st:  # single-variable specs print  x = v
        m = re.match(r"([A-Za-z_][A-Za-z0-9_]*)\s*=\s*(.*)$", text.strip(), re.S)
        if m:
            st[m.group(1)] = parse_value(m.group(2).strip())
    return st


def _unescape_dot(s):
    return s.replace("\\n", "\n").replace('\\"', '"').replace("\\\\", "\\")


def parse_dot(path):
    """Return (states: id -> dict, init_ids: set, edges: list of (src, dst, action_name, args_tuple))."""
    txt = open(path).read()
    states, init, edges = {}, set(), []
    node_re = re.compile(r'^(-?\d+) \[label="((?:[^"\\]|\\.)*)"(,style = filled)?', re.M)
    for m in node_re.finditer(txt):
        sid = m.group(1)
        states[sid] = parse_state(_unescape_dot(m.group(2)))
        if m.group(3):
            init.add(sid)
    edge_re = re.compile(r'^(-?\d+) -> (-?\d+) \[label="((?:[^"\\]|\\.)*)"', re.M)
    for m in edge_re.finditer(txt):
        lab = _unescape_dot(m.group(3))
        am = re.match(r"(\w+)(?:\((.*)\))?$", lab.strip(), re.S)
        name, args = am.group(1), ()
        if am.group(2) is not None and am.group(2).strip():
            args = parse_value("<<" + am.group(2) + ">>")
        edges.append((m.group(1), m.group(2), name, args))
    return states, init, edges


def dump_graph(module, cfg=None, cfg_text=None, env=None, timeout=3600):
    """Model-check and return (run, states, init, edges) from the dumped state graph."""
    tmp = tempfile.mkdtemp(prefix="tlcdump_")
    try:
        pref = os.path.join(tmp, "graph")
        r = run(module, cfg=cfg, cfg_text=cfg_text, env=env, dump=pref, workers=1, timeout=timeout)
        path = pref + ".dot" if os.path.exists(pref + ".dot") else pref
        if not os.path.exists(path):
            raise MachineryError("TLC wrote no state graph for %s:\n%s" % (module, r.out[-2000:]))
        states, init, edges = parse_dot(path)
        return r, states, init, edges
    finally:
        shutil.rmtree(tmp, ignore_errors=True)


def simulate_traces(module, cfg=None, cfg_text=None, env=None, num=100, depth=20, sd=None, timeout=3600):
    """`-simulate file=` : list of behaviours, each a list of (action_name, args, state_dict)."""
    tmp = tempfile.mkdtemp(prefix="tlcsim_")
    try:
        pref = os.path.join(tmp, "tr")
        r = run(module, cfg=cfg, cfg_text=cfg_text, env=env, workers=1, timeout=timeout,
                simulate={"num": num, "depth": depth, "file": pref, "seed": seed() if sd is None else sd})
        behs = []
        for fn in sorted(os.listdir(tmp)):
            if not fn.startswith("tr"):
                continue
            txt = open(os.path.join(tmp, fn)).read()
            beh = []
            # blocks:  \* <Action line..>  \n STATE_n == \n /\ ...
            for m in re.finditer(r"\\\* (.*?)\nSTATE_(\d+) ==\s*\n(.*?)(?=\n\n|\Z)", txt, re.S):
                head, body = m.group(1), m.group(3)
                am = re.match(r"<?(\w+)(?:\((.*?)\))?\s+line", head)
                name, args = (am.group(1), am.group(2)) if am else (head.strip(), None)
                a = ()
                if args:
                    try:
                        a = parse_value("<<" + args + ">>")
                    except Exception:
                        a = (args,)
                beh.append((name, a, parse_state(body)))
            if beh:
                behs.append(beh)
        return r, behs
    finally:
        shutil.rmtree(tmp, ignore_errors=True)


# --------------------------------------------------------------------------------------
# Batch trace validation
# --------------------------------------------------------------------------------------

def validate_traces(module, payload, cfg=None, n_traces=None, chunk=None, timeout=3600, env=None,
                    parallel=None, payload_fn=None):
    """Write `payload` (a JSON-able dict with key 'traces': list) to a scratch file, run the trace
    spec `module` on it and return (runs, verdicts) where verdicts[i] = (err, position) for trace i
    (0-based).  The trace spec must print  <<"V", tid, err, l>>  exactly once per trace id (tid is
    1-based) from its Finish action; a trace with no verdict line is a machinery failure.

    Large payloads are split into chunks validated by parallel TLC processes (one worker each;
    every trace is an independent linear search).
    """
    from concurrent.futures import ThreadPoolExecutor
    traces = payload["traces"]
    n = len(traces)
    if n == 0:
        return [], []
    ncpu = parallel or min(os.cpu_count() or 4, 16)
    if chunk is None:
        chunk = max(1, min(400, (n + ncpu - 1) // ncpu))
    chunks = [(i, traces[i:i + chunk]) for i in range(0, n, chunk)]
    tmp = tempfile.mkdtemp(prefix="tlctr_")
    verdicts = [None] * n
    runs = []

    def one(ci):
        base, trs = chunks[ci]
        p = dict(payload)
        p["traces"] = trs
        if payload_fn is not None:      # e.g. keep only the descriptors this chunk refers to
            p = payload_fn(p)
        fn = os.path.join(tmp, "in_%d.json" % ci)
        with open(fn, "w") as f:
            json.dump(p, f)
        e = {"VERIF_INPUT": fn}
        if env:
            e.update(env)
        r = run(module, cfg=cfg, env=e, workers=1, timeout=timeout, deadlock=False, light=True)
        return base, len(trs), r

    try:
        with ThreadPoolExecutor(max_workers=ncpu) as ex:
            for base, cnt, r in ex.map(one, range(len(chunks))):
                runs.append(r)
                if r.errors or r.violated:
                    raise MachineryError("trace spec %s failed: %s %s\n%s" %
                                         (module, r.errors, r.violated, r.out[-3000:]))
                for v in r.prints:
                    if v and v[0] == "V":
                        tid = v[1] - 1
                        if verdicts[base + tid] is not None:
                            raise MachineryError("two verdicts for trace %d of %s" % (base + tid, module))
                        verdicts[base + tid] = (v[2], v[3])
                for k in range(cnt):
                    if verdicts[base + k] is None:
                        raise MachineryError("no verdict for trace %d of %s\n%s" %
                                             (base + k, module, r.out[-3000:]))
        return runs, verdicts
    finally:
        shutil.rmtree(tmp, ignore_errors=True)
