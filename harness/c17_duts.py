"""Devices under test for C17: every library queue class behind one uniform cycle interface.

    dut = make(entry, cap)          entry = one row of catalogue()
    dut.reset()                     one clock cycle with reset high and no offers
    obs = dut.cycle(eo, m, do)      one clock cycle: producer offers message m iff eo,
                                    consumer offers to take a message iff do
    dut.sig()                       control state of the implementation (pointers, counters,
                                    full bits ...) with idle inputs -- used to enumerate the
                                    implementation's reachable state space

obs = {enq_rdy, deq_rdy, enq_xfer, deq_xfer, deq_msg, count, count2 [, st2]}; st2 = occupancy of the
stages after the clock edge, only for classes built as a chain of queues; an entry is None when the
interface does not expose that output in that cycle (e.g. the valid bit of an en/rdy *send* port
while the consumer is not ready, or a count on a queue without a count port and without a
readable full bit).

Every adapter drives its protocol legally and lets the queue, not the harness, decide the
intra-cycle order:

  * en/rdy callee ports (queues.py enq/deq, enrdy_queues.py enq): `en` may only be raised while
    `rdy` is high.  Starting from en = 0 the adapter repeats  en := offer & rdy ; evaluate
    until nothing changes.  rdy is monotone in the en inputs, so this is exactly "decide the
    dequeue side first for a pipe queue, the enqueue side first for a bypass queue".  If a rdy
    is withdrawn after its en was raised the queue has made the legal driver illegal: reported
    as `rdy-retracted`.
  * val/rdy ports (valrdy_queues.py, stream/queues.py, the send side of enrdy_queues.py): the
    producer's val and the consumer's rdy are set from the offers alone, independent of the
    queue's outputs; a transfer is val & rdy.
  * CL queues sit in a component with three update_once blocks (producer, consumer, observer);
    the harness only sets the offers and calls sim_tick(): the M(...) constraints of the queue
    order the blocks.

The top component for CL queues lives in this real .py file because pymtl3 inspects the source of
update blocks.
"""
import importlib

from common import MachineryError

DATA_NBITS = 32
IDLE_MSG = 0x7EADBEEF        # what an idle producer leaves on the message port ("invented" detector)


# --------------------------------------------------------------------------------------------
# catalogue
# --------------------------------------------------------------------------------------------

class Entry:
    def __init__(self, name, module, cls, kind, iface, caps, ctor, has_reset=True, count=None, note="",
                 chain=None, stages=None):
        self.name = name            # stable identifier used in violation keys
        self.module = module
        self.cls = cls
        self.kind = kind            # kind advertised by the class name
        self.iface = iface          # "callee" | "enrdy" | "valrdy" | "cl"
        self.caps = caps            # capacities the class can be built with (subset of 1..5 used)
        self.parametric = len(caps) > 2   # capacity is a constructor parameter
        self.ctor = ctor            # (cls, Type, cap) -> component
        self.has_reset = has_reset  # does `reset` clear the queue?  (read from the code)
        self.count = count          # how the occupancy is observed (see adapters)
        self.note = note
        self.chain = chain          # model of FifoTrace / graph that describes the class's structure, if
                                    # the class is a composition of queues (used when it does not meet `kind`)
        self.stages = stages        # full bits of the stages of such a composition, enqueue side first


def catalogue():
    """All queue classes of the standard library (discovered by reading the five files)."""
    E = []
    t_n = lambda cls, T, n: cls(T, num_entries=n)
    t_1 = lambda cls, T, n: cls(T)
    # stdlib/queues/queues.py: EnqIfcRTL/DeqIfcRTL (both callee en/rdy), count port, caps >= 1
    for k, c in (("normal", "NormalQueueRTL"), ("pipe", "PipeQueueRTL"), ("bypass", "BypassQueueRTL")):
        E.append(Entry("queues." + c, "pymtl3.stdlib.queues.queues", c, k, "callee", (1, 2, 3, 4, 5), t_n,
                       count="port:count"))
    # stdlib/queues/enrdy_queues.py: enq RecvIfcRTL (callee), deq SendIfcRTL (queue drives en)
    E.append(Entry("enrdy.NormalQueue1RTL", "pymtl3.stdlib.queues.enrdy_queues", "NormalQueue1RTL", "normal",
                   "enrdy", (1,), t_1, has_reset=False, count="full:full.out",
                   note="full is a Reg without reset"))
    E.append(Entry("enrdy.PipeQueue1RTL", "pymtl3.stdlib.queues.enrdy_queues", "PipeQueue1RTL", "pipe",
                   "enrdy", (1,), t_1, has_reset=False, count="full:full.out",
                   note="full is a Reg without reset"))
    E.append(Entry("enrdy.BypassQueue1RTL", "pymtl3.stdlib.queues.enrdy_queues", "BypassQueue1RTL", "bypass",
                   "enrdy", (1,), t_1, count="full:full.out"))
    E.append(Entry("enrdy.BypassQueue2RTL", "pymtl3.stdlib.queues.enrdy_queues", "BypassQueue2RTL", "bypass",
                   "enrdy", (2,), lambda cls, T, n: cls(T, queue_size=n), count="full:q1.full.out+q2.full.out",
                   note="two BypassQueue1RTL in series", chain="bypass2chain",
                   stages=("q1.full.out", "q2.full.out")))
    # stdlib/queues/valrdy_queues.py: InValRdyIfc/OutValRdyIfc
    for k, c in (("normal", "NormalQueue1RTL"), ("pipe", "PipeQueue1RTL"), ("bypass", "BypassQueue1RTL")):
        E.append(Entry("valrdy." + c, "pymtl3.stdlib.queues.valrdy_queues", c, k, "valrdy", (1,), t_1,
                       has_reset=False, count="full:full", note="full register has no reset term"))
    E.append(Entry("valrdy.NormalQueueRTL", "pymtl3.stdlib.queues.valrdy_queues", "NormalQueueRTL", "normal",
                   "valrdy", (2, 3, 4, 5), lambda cls, T, n: cls(n, T), count="free:num_free_entries",
                   note="num_entries=1 cannot be built (zero-width pointer)"))
    # stdlib/stream/queues.py: stream RecvIfcRTL/SendIfcRTL (val/rdy), count port
    for k, c in (("normal", "NormalQueueRTL"), ("pipe", "PipeQueueRTL"), ("bypass", "BypassQueueRTL")):
        E.append(Entry("stream." + c, "pymtl3.stdlib.stream.queues", c, k, "valrdy", (1, 2, 3, 4, 5), t_n,
                       count="port:count"))
    # stdlib/queues/cl_queues.py: method ports enq/deq/peek; reset is ignored by construction
    for k, c in (("normal", "NormalQueueCL"), ("pipe", "PipeQueueCL"), ("bypass", "BypassQueueCL")):
        E.append(Entry("cl." + c, "pymtl3.stdlib.queues.cl_queues", c, k, "cl", (1, 2, 3, 4, 5),
                       lambda cls, T, n: cls(num_entries=n), has_reset=False, count="len:queue",
                       note="cycle-level model; no reset behaviour"))
    return E


_shim_used = []


def _import(modname):
    """Import a queue module from $VERIF_REPO.  valrdy_queues.py asks pymtl3.stdlib.ifcs for
    InValRdyIfc / OutValRdyIfc, which that package does not export on the unchanged tree; the
    stream val/rdy interfaces have exactly those ports (msg, val, rdy) and are lent under the
    missing names (in memory only).  Recorded as an assumption by the check."""
    try:
        return importlib.import_module(modname)
    except ImportError as e:
        if "ValRdyIfc" not in str(e):
            raise
    import pymtl3.stdlib.ifcs as ifcs
    from pymtl3.stdlib.stream.ifcs import RecvIfcRTL, SendIfcRTL
    if not hasattr(ifcs, "InValRdyIfc"):
        ifcs.InValRdyIfc = RecvIfcRTL
    if not hasattr(ifcs, "OutValRdyIfc"):
        ifcs.OutValRdyIfc = SendIfcRTL
    if modname not in _shim_used:
        _shim_used.append(modname)
    return importlib.import_module(modname)


def shim_used():
    return list(_shim_used)


# --------------------------------------------------------------------------------------------
# CL top (must live in a real source file)
# --------------------------------------------------------------------------------------------

def _cl_top_class():
    from pymtl3 import Component, update_once

    class C17CLTop(Component):
        """producer / consumer / observer blocks around a CL queue; the offers are plain Python
        attributes set by the harness before sim_tick()."""

        def construct(s, QType, num_entries):
            s.dut = QType(num_entries)
            s.eo = False
            s.m = None
            s.do = False
            s.r_enq_rdy = None
            s.r_enq_xfer = False
            s.r_deq_rdy = None
            s.r_deq_xfer = False
            s.r_deq_msg = None
            s.r_peek_rdy = None
            s.r_peek_msg = None
            s.order = []

            @update_once
            def up_c17_producer():
                s.order.append("enq")
                s.r_enq_rdy = bool(s.dut.enq.rdy())
                s.r_enq_xfer = False
                if s.eo and s.r_enq_rdy:
                    s.dut.enq(s.m)
                    s.r_enq_xfer = True

            @update_once
            def up_c17_consumer():
                s.order.append("deq")
                s.r_deq_rdy = bool(s.dut.deq.rdy())
                s.r_deq_xfer = False
                s.r_deq_msg = None
                if s.do and s.r_deq_rdy:
                    s.r_deq_msg = s.dut.deq()
                    s.r_deq_xfer = True

            @update_once
            def up_c17_observer():
                s.order.append("peek")
                s.r_peek_rdy = bool(s.dut.peek.rdy())
                s.r_peek_msg = s.dut.peek() if s.r_peek_rdy else None

        def line_trace(s):
            return ""

    return C17CLTop


# --------------------------------------------------------------------------------------------
# adapters
# --------------------------------------------------------------------------------------------

def _names_of_control_signals(top):
    """Names (eval-able with s = top) of all signals narrower than the data width, except the
    top-level inputs the adapter drives."""
    from pymtl3.dsl import InPort, Signal
    names = []
    for x in top.get_all_object_filter(lambda x: isinstance(x, Signal)):
        if x.is_sliced_signal() if hasattr(x, "is_sliced_signal") else False:
            continue
        T = x._dsl.Type
        nb = getattr(T, "nbits", None)
        if nb is None or nb >= DATA_NBITS:
            continue
        if isinstance(x, InPort) and x.get_host_component() is top:
            continue
        n = repr(x)
        if n in ("s.clk",):
            continue
        names.append(n)
    names.sort()
    return names


class _RTL:
    """Common part of the RTL adapters."""

    def __init__(self, entry, cap):
        from pymtl3 import DefaultPassGroup, mk_bits
        self.entry, self.cap = entry, cap
        mod = _import(entry.module)
        cls = getattr(mod, entry.cls)
        self.T = mk_bits(DATA_NBITS)
        top = entry.ctor(cls, self.T, cap)
        top.elaborate()
        names = _names_of_control_signals(top)
        top.apply(DefaultPassGroup())
        self.top = top
        self._signames = names
        self._sigf = eval("lambda s: (" + "".join("int(%s)," % n for n in names) + ")")
        self._countf = self._mk_count(entry.count)
        self._stagef = None
        if entry.stages:
            self._stagef = eval("lambda s: (" + "".join("int(s.%s)," % e for e in entry.stages) + ")")
        self._idle()
        top.sim_reset()
        self._idle()
        top.sim_eval_combinational()

    def _mk_count(self, how):
        if how is None:
            return None
        tag, expr = how.split(":")
        if tag == "port":
            return eval("lambda s: int(s.%s)" % expr)
        if tag == "full":
            return eval("lambda s: " + "+".join("int(s.%s)" % e for e in expr.split("+")))
        if tag == "free":
            cap = self.cap
            return eval("lambda s: %d - int(s.%s)" % (cap, expr))
        raise MachineryError("bad count accessor %r" % how)

    def count(self):
        return None if self._countf is None else self._countf(self.top)

    def stages(self):
        return None if self._stagef is None else self._stagef(self.top)

    def sig(self):
        return self._sigf(self.top)

    def signames(self):
        return self._signames

    def reset(self):
        t = self.top
        self._idle()
        t.reset @= 1
        t.sim_tick()
        t.reset @= 0
        t.sim_eval_combinational()


class CalleeDut(_RTL):
    """queues.py: enq (en in, rdy out, msg in), deq (en in, rdy out, ret out), count."""

    def _idle(self):
        t = self.top
        t.enq.en @= 0
        t.deq.en @= 0
        t.enq.msg @= IDLE_MSG

    def cycle(self, eo, m, do):
        t = self.top
        t.enq.en @= 0
        t.deq.en @= 0
        t.enq.msg @= m if eo else IDLE_MSG
        t.sim_eval_combinational()
        cnt = self.count()
        ee = de = 0
        retracted = None
        for _ in range(4):
            ne = 1 if (eo and int(t.enq.rdy)) else 0
            nd = 1 if (do and int(t.deq.rdy)) else 0
            if (ne, nd) == (ee, de):
                break
            if ne < ee:
                retracted = "enq"
            if nd < de:
                retracted = "deq"
            ee, de = max(ee, ne), max(de, nd)
            t.enq.en @= ee
            t.deq.en @= de
            t.sim_eval_combinational()
        obs = {"enq_rdy": bool(t.enq.rdy), "deq_rdy": bool(t.deq.rdy), "enq_xfer": bool(ee), "deq_xfer": bool(de),
               "deq_msg": int(t.deq.ret) if int(t.deq.rdy) else None, "count": cnt}
        if retracted or (ee and not int(t.enq.rdy)) or (de and not int(t.deq.rdy)):
            obs["illegal"] = "rdy-retracted"
        t.sim_tick()
        self._idle()
        t.sim_eval_combinational()
        obs["count2"] = self.count()
        return obs


class EnRdyDut(_RTL):
    """enrdy_queues.py: enq (en in, rdy out, msg in) callee; deq (en OUT, rdy in, msg out): the
    queue raises deq.en, the consumer only provides rdy (= the dequeue offer)."""

    def _idle(self):
        t = self.top
        t.enq.en @= 0
        t.deq.rdy @= 0
        t.enq.msg @= IDLE_MSG

    def cycle(self, eo, m, do):
        t = self.top
        t.enq.en @= 0
        t.deq.rdy @= 1 if do else 0
        t.enq.msg @= m if eo else IDLE_MSG
        t.sim_eval_combinational()
        cnt = self.count()
        ee = 0
        if eo and int(t.enq.rdy):
            ee = 1
            t.enq.en @= 1
            t.sim_eval_combinational()
        de = int(t.deq.en)
        obs = {"enq_rdy": bool(t.enq.rdy), "deq_rdy": bool(de) if do else None, "enq_xfer": bool(ee),
               "deq_xfer": bool(de), "deq_msg": int(t.deq.msg) if de else None, "count": cnt}
        if ee and not int(t.enq.rdy):
            obs["illegal"] = "rdy-retracted"
        t.sim_tick()
        self._idle()
        t.sim_eval_combinational()
        obs["count2"] = self.count()
        if self._stagef is not None:
            obs["st2"] = self.stages()
        return obs


class ValRdyDut(_RTL):
    """valrdy_queues.py (enq/deq) and stream/queues.py (recv/send): val/rdy on both sides."""

    def __init__(self, entry, cap):
        self._in, self._out = ("recv", "send") if entry.module.endswith("stream.queues") else ("enq", "deq")
        super().__init__(entry, cap)

    def _ports(self):
        return getattr(self.top, self._in), getattr(self.top, self._out)

    def _idle(self):
        i, o = self._ports()
        i.val @= 0
        o.rdy @= 0
        i.msg @= IDLE_MSG

    def cycle(self, eo, m, do):
        t = self.top
        i, o = self._ports()
        i.val @= 1 if eo else 0
        o.rdy @= 1 if do else 0
        i.msg @= m if eo else IDLE_MSG
        t.sim_eval_combinational()
        er, dv = int(i.rdy), int(o.val)
        obs = {"enq_rdy": bool(er), "deq_rdy": bool(dv), "enq_xfer": bool(eo and er), "deq_xfer": bool(do and dv),
               "deq_msg": int(o.msg) if dv else None, "count": self.count()}
        t.sim_tick()
        self._idle()
        t.sim_eval_combinational()
        obs["count2"] = self.count()
        return obs


class CLDut:
    """cl_queues.py behind C17CLTop."""

    _Top = None

    def __init__(self, entry, cap):
        from pymtl3 import DefaultPassGroup
        if CLDut._Top is None:
            CLDut._Top = _cl_top_class()
        self.entry, self.cap = entry, cap
        cls = getattr(_import(entry.module), entry.cls)
        top = CLDut._Top(cls, cap)
        top.elaborate()
        top.apply(DefaultPassGroup())
        top.sim_reset()
        self.top = top
        self.block_order = None

    def count(self):
        return len(self.top.dut.queue)

    def sig(self):
        return ()

    def signames(self):
        return []

    def reset(self):
        raise MachineryError("CL queues have no reset behaviour")

    def cycle(self, eo, m, do):
        t = self.top
        t.eo, t.m, t.do = bool(eo), (m if eo else None), bool(do)
        cnt = self.count()
        del t.order[:]
        t.sim_tick()
        self.block_order = tuple(t.order)
        t.eo, t.do, t.m = False, False, None
        # deq.rdy() as seen by the consumer block; peek as seen by the observer block
        obs = {"enq_rdy": t.r_enq_rdy, "deq_rdy": t.r_deq_rdy, "enq_xfer": t.r_enq_xfer,
               "deq_xfer": t.r_deq_xfer, "deq_msg": None, "count": cnt, "count2": self.count(),
               "peek_rdy": t.r_peek_rdy, "peek_msg": _i(t.r_peek_msg), "order": "".join(x[0] for x in t.order)}
        if t.r_deq_xfer:
            obs["deq_msg"] = _i(t.r_deq_msg)
        return obs


def _i(v):
    return None if v is None else int(v)


def make(entry, cap, any_cap=False):
    """any_cap: classes parameterised by num_entries may also be built beyond the catalogue's 1..5."""
    if cap not in entry.caps and not (any_cap and entry.parametric and cap >= 2):
        raise MachineryError("%s cannot be built with capacity %d" % (entry.name, cap))
    return {"callee": CalleeDut, "enrdy": EnRdyDut, "valrdy": ValRdyDut, "cl": CLDut}[entry.iface](entry, cap)


# --------------------------------------------------------------------------------------------
# CL queues with callers that sample rdy() in one block and call the method in a LATER block
# --------------------------------------------------------------------------------------------
# M(q.enq) / M(q.deq) only order blocks that call the method itself; a block that only calls q.enq.rdy() is
# ordered by M(q.enq.rdy) alone.  The tops below split the producer ("p"), the consumer ("c") or both ("pc")
# into a sampling block (p1 / c1) and a calling block (p2 / c2) with U(p1) < U(p2), U(c1) < U(c2); the legal-driver
# rule stays: the method is only called in a cycle in which the rdy sampled THAT cycle was true.  Every linear
# extension of pymtl3's own constraint set over these blocks (and the queue's own update blocks) is forced as the
# schedule, so no legal tie-break of the scheduler is left untried.

SPLIT_SHAPES = ("p", "c", "pc")
_SPLIT_TOP = None


def _cl_split_top_class():
    from pymtl3 import Component, U, update_once

    class C17CLSplitTop(Component):
        def construct(s, QType, num_entries, shape):
            s.dut = QType(num_entries)
            s.eo = False
            s.m = None
            s.do = False
            s.s_enq_rdy = None          # enq.rdy() as sampled this cycle
            s.s_deq_rdy = None
            s.r_enq_xfer = False
            s.r_deq_xfer = False
            s.r_deq_msg = None
            s.order = []

            if "p" in shape:
                @update_once
                def up_c17_p1():
                    s.order.append("p1")
                    s.s_enq_rdy = bool(s.dut.enq.rdy())

                @update_once
                def up_c17_p2():
                    s.order.append("p2")
                    s.r_enq_xfer = False
                    if s.eo and s.s_enq_rdy:
                        s.dut.enq(s.m)
                        s.r_enq_xfer = True

                s.add_constraints(U(up_c17_p1) < U(up_c17_p2))
            else:
                @update_once
                def up_c17_p():
                    s.order.append("p1")
                    s.s_enq_rdy = bool(s.dut.enq.rdy())
                    s.order.append("p2")
                    s.r_enq_xfer = False
                    if s.eo and s.s_enq_rdy:
                        s.dut.enq(s.m)
                        s.r_enq_xfer = True

            if "c" in shape:
                @update_once
                def up_c17_c1():
                    s.order.append("c1")
                    s.s_deq_rdy = bool(s.dut.deq.rdy())

                @update_once
                def up_c17_c2():
                    s.order.append("c2")
                    s.r_deq_xfer = False
                    s.r_deq_msg = None
                    if s.do and s.s_deq_rdy:
                        s.r_deq_msg = s.dut.deq()
                        s.r_deq_xfer = True

                s.add_constraints(U(up_c17_c1) < U(up_c17_c2))
            else:
                @update_once
                def up_c17_c():
                    s.order.append("c1")
                    s.s_deq_rdy = bool(s.dut.deq.rdy())
                    s.order.append("c2")
                    s.r_deq_xfer = False
                    s.r_deq_msg = None
                    if s.do and s.s_deq_rdy:
                        s.r_deq_msg = s.dut.deq()
                        s.r_deq_xfer = True

        def line_trace(s):
            return ""

    return C17CLSplitTop


def _split_interesting(f):
    n = getattr(f, "__name__", "")
    return n.startswith("up_c17_") or not n.startswith("s_")     # harness blocks and the queue's own blocks (not nets)


def _split_build(entry, cap, shape):
    """Elaborated top with DAG and a default schedule (not yet prepared for simulation)."""
    global _SPLIT_TOP
    from pymtl3.passes.sim.GenDAGPass import GenDAGPass
    from pymtl3.passes.sim.SimpleSchedulePass import SimpleSchedulePass
    from pymtl3.passes.sim.WrapGreenletPass import WrapGreenletPass
    if _SPLIT_TOP is None:
        _SPLIT_TOP = _cl_split_top_class()
    cls = getattr(_import(entry.module), entry.cls)
    top = _SPLIT_TOP(cls, cap, shape)
    top.elaborate()
    GenDAGPass()(top)
    WrapGreenletPass()(top)
    SimpleSchedulePass()(top)
    return top


def split_orders(entry, shape, limit=64):
    """All linear extensions (as tuples of block names) of pymtl3's own constraints over the harness blocks and
    the queue's own update blocks of the split top."""
    top = _split_build(entry, entry.caps[0], shape)
    V = list(top._sched.update_schedule)
    E = {(u, v) for (u, v) in top._dag.all_constraints if u in V and v in V}
    succ = {v: {w for (u, w) in E if u == v} for v in V}
    reach = {}

    def closure(v):
        if v not in reach:
            reach[v] = set()
            for w in succ[v]:
                reach[v] |= {w} | closure(w)
        return reach[v]

    I = sorted((v for v in V if _split_interesting(v)), key=lambda f: f.__name__)
    names = [f.__name__ for f in I]
    if len(set(names)) != len(names):
        raise MachineryError("split top of %s: block names are not unique: %s" % (entry.name, names))
    pred = {v.__name__: {u.__name__ for u in I if v in closure(u)} for v in I}
    out = []

    def rec(done, order):
        if len(out) >= limit:
            return
        if len(order) == len(names):
            out.append(tuple(order))
            return
        for n in names:
            if n not in done and pred[n] <= done:
                rec(done | {n}, order + [n])

    rec(frozenset(), [])
    if not out or len(out) >= limit:
        raise MachineryError("split top of %s/%s: %d linear extensions" % (entry.name, shape, len(out)))
    return out


class SplitCLDut:
    """A CL queue behind C17CLSplitTop with the schedule forced to one linear extension of pymtl3's constraints."""

    def __init__(self, entry, cap, shape, order):
        from pymtl3.passes.sim.PrepareSimPass import PrepareSimPass
        self.entry, self.cap, self.shape, self.forced = entry, cap, shape, tuple(order)
        top = _split_build(entry, cap, shape)
        sched = list(top._sched.update_schedule)
        by = {f.__name__: f for f in sched if _split_interesting(f)}
        if set(by) != set(order):
            raise MachineryError("split top of %s: blocks %s, forced order %s" % (entry.name, sorted(by), order))
        new = [f for f in sched if not _split_interesting(f)] + [by[n] for n in order]
        pos = {f: i for i, f in enumerate(new)}
        for (u, v) in top._dag.all_constraints:
            if u in pos and v in pos and pos[u] > pos[v]:
                raise MachineryError("split top of %s: forced order %s breaks the constraint %s < %s"
                                     % (entry.name, order, u.__name__, v.__name__))
        top._sched.update_schedule = new
        PrepareSimPass(print_line_trace=False)(top)
        top.sim_reset()
        self.top = top
        del top.order[:]
        top.sim_tick()                              # one idle cycle: the order in which rdy is sampled / methods are called
        self.sample_order = tuple(top.order)
        o = self.sample_order
        if sorted(o) != ["c1", "c2", "p1", "p2"] or o.index("p1") > o.index("p2") or o.index("c1") > o.index("c2"):
            raise MachineryError("split top of %s: blocks ran as %s" % (entry.name, o))

    def effective_kind(self):
        """The kind the sampled ready values follow.  The library orders the enq / deq METHODS of a pipe (bypass)
        queue; a block that only samples enq.rdy() (deq.rdy()) is not ordered against the other side.  Where the
        schedule runs it before the other side's method call it sees the start-of-cycle occupancy: the queue then
        is, for this caller, a normal queue -- the only other outcome the constraints admit."""
        o, k = self.sample_order, self.entry.kind
        if k == "pipe" and o.index("p1") < o.index("c2"):
            return "normal"
        if k == "bypass" and o.index("c1") < o.index("p2"):
            return "normal"
        return k

    def count(self):
        return len(self.top.dut.queue)

    def sig(self):
        return ()

    def signames(self):
        return []

    def reset(self):
        raise MachineryError("CL queues have no reset behaviour")

    def cycle(self, eo, m, do):
        t = self.top
        t.eo, t.m, t.do = bool(eo), (m if eo else None), bool(do)
        t.s_enq_rdy = t.s_deq_rdy = None
        cnt = self.count()
        del t.order[:]
        t.sim_tick()
        t.eo, t.do, t.m = False, False, None
        obs = {"enq_rdy": t.s_enq_rdy, "deq_rdy": t.s_deq_rdy, "enq_xfer": t.r_enq_xfer, "deq_xfer": t.r_deq_xfer,
               "deq_msg": _i(t.r_deq_msg) if t.r_deq_xfer else None, "count": cnt, "count2": self.count()}
        if tuple(t.order) != self.sample_order:
            obs["illegal"] = "block-order-changed"
        return obs
