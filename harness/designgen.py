"""Design descriptors for the simulation-kernel properties (C01 C02 C07 C11).

A design is generated *by construction* as a dataflow network (so the generator knows which bit is
driven by what and that the bit-level dependency graph is acyclic), and is then rendered twice:

  * `py_source()`  a real PyMTL component hierarchy (importable .py text; pymtl3 parses update-block
                    source with inspect/ast, so the text must exist as a file), and
  * `spec_json()`  the descriptor interpreted by spec/DL.tla / SimKernel*.tla.

Nothing here imports pymtl3: the descriptor is independent of the implementation.
"""
import itertools

STRUCTS = {
    # name -> list of (field, type) ; first field most significant (C06)
    "P8": [("a", 4), ("b", 4)],
    "Q3": [("x", 1), ("y", 2)],
    "N10": [("p", "P8"), ("c", 2)],
    # structs with list fields.  A list field is described by one pseudo-field per element, named as the
    # element is written in PyMTL ("m[1][0]"), in packed order: first field most significant and, inside a list
    # field, element 0 LEAST significant (C06), i.e. the elements appear last-index-first.  LA and LB have the
    # same field names and the same outer length; they differ in the inner dimension and LA is declared first
    # (seeded change C07-C: generated <<= / flip functions cached by field names and outer lengths).
    "LA": [("hd", 2), ("m[1][0]", 2), ("m[0][0]", 2)],
    "LB": [("hd", 2), ("m[1][1]", 1), ("m[1][0]", 1), ("m[0][1]", 1), ("m[0][0]", 1)],
    "L6": [("t", 2), ("v[1]", 2), ("v[0]", 2)],
}
# declaration text of the structs whose pseudo-fields stand for list elements
STRUCT_DECL = {
    "LA": [("hd", "Bits2"), ("m", "[ [ Bits2 ] * 1 ] * 2")],
    "LB": [("hd", "Bits2"), ("m", "[ [ Bits1 ] * 2 ] * 2")],
    "L6": [("t", "Bits2"), ("v", "[ Bits2 ] * 2")],
}


def type_width(ty):
    if isinstance(ty, int):
        return ty
    return sum(type_width(t) for _, t in STRUCTS[ty])


def field_range(ty, path):
    """bit range (lo, hi) and type of the field reached by `path` inside struct type `ty`."""
    lo, hi = 0, type_width(ty)
    for f in path:
        fields = STRUCTS[ty]
        top = hi
        for name, t in fields:
            w = type_width(t)
            if name == f:
                lo, hi, ty = top - w, top, t
                break
            top -= w
        else:
            raise KeyError(f)
    return lo, hi, ty


def all_field_paths(ty, prefix=()):
    if isinstance(ty, int):
        return
    for name, t in STRUCTS[ty]:
        yield prefix + (name,)
        yield from all_field_paths(t, prefix + (name,))


class Sig:
    def __init__(s, idx, comp, name, kind, ty, arr=None):
        s.idx, s.comp, s.name, s.kind, s.ty = idx, comp, name, kind, ty
        s.w = type_width(ty)
        s.arr = arr            # (array name, index, length) for list elements
        s.reg = False
        s.const = None         # whole signal tied to a constant
        s.rank = [None] * s.w  # per-bit rank of its driver (None = undriven)

    @property
    def attr(s):
        if s.arr and len(s.arr) > 3:        # element of an n-dimensional list: arr = (name, flat index, n, dims)
            j, ix = s.arr[1], []
            for dd in reversed(s.arr[3]):
                ix.append(j % dd)
                j //= dd
            return s.arr[0] + "".join("[%d]" % i for i in reversed(ix))
        return "%s[%d]" % (s.arr[0], s.arr[1]) if s.arr else s.name

    def full(s):
        return ".".join(("s",) + s.comp + (s.attr,))


class View:
    """(signal, field path, optional slice of the leaf)  ->  bit range of the packed signal."""

    def __init__(v, sig, path=(), sl=None):
        v.sig, v.path, v.sl = sig, tuple(path), sl
        lo, hi, ty = field_range(sig.ty, path) if path else (0, sig.w, sig.ty)
        v.leafty = ty
        if sl is not None:
            assert isinstance(ty, int)
            lo, hi = lo + sl[0], lo + sl[1]
            v.leafty = sl[1] - sl[0]
        v.lo, v.hi = lo, hi
        v.w = hi - lo

    def key(v):
        return (v.sig.idx, v.path, v.sl)

    def whole(v):
        return not v.path and v.sl is None

    def suffix(v):
        t = "".join("." + f for f in v.path)
        if v.sl is not None:
            t += "[%d:%d]" % v.sl
        return t

    def full(v):
        return v.sig.full() + v.suffix()

    def rel(v, host):
        """expression naming the view from inside component `host` (a comp path)."""
        assert v.sig.comp[:len(host)] == host, (v.sig.comp, host)
        return ".".join(("s",) + v.sig.comp[len(host):] + (v.sig.attr,)) + v.suffix()

    def bits(v):
        return range(v.lo, v.hi)

    def rank(v):
        r = [v.sig.rank[b] for b in v.bits()]
        return None if any(x is None for x in r) else max(r)


class Net:
    def __init__(n, writer):
        n.writer = writer        # View, or ("const", value, width)
        n.members = []           # sink Views
        n.conns = []             # (view_a or const, view_b, host comp path)


class Design:
    def __init__(d, name):
        d.name = name
        d.comps = [()]            # comp paths
        d.sigs = []
        d.blocks = []             # dict(name, kind, comp, stmts)
        d.nets = []
        d.explicit = []           # (block name, block name)
        d.used_structs = set()
        d.funcs = []           # read-only helper functions: {"name", "comp", "e": expr}; called as {"k": "fcall", "f": i}
        d.checkfix = True
        d.bitacyclic = True
        d.novarcycle = False
        d.family = "acyclic"

    # ------------------------------------------------------------------ construction helpers
    def add_sig(d, comp, name, kind, ty, arr=None):
        s = Sig(len(d.sigs), comp, name, kind, ty, arr)
        d.sigs.append(s)
        if not isinstance(ty, int):
            d.used_structs.add(ty)
            for _, t in STRUCTS[ty]:
                if not isinstance(t, int):
                    d.used_structs.add(t)
        return s

    def cls_name(d, comp):
        return d.name + "_" + ("Top" if not comp else "_".join(comp))

    # ------------------------------------------------------------------ alias classes
    def alias_classes(d):
        """whole-signal members of one net share one storage cell."""
        cls = {s.idx: {s.idx} for s in d.sigs}
        for n in d.nets:
            ws = [v.sig.idx for v in n.members if v.whole()]
            if isinstance(n.writer, View) and n.writer.whole():
                ws.append(n.writer.sig.idx)
            if len(ws) > 1:
                u = set()
                for i in ws:
                    u |= cls[i]
                for i in u:
                    cls[i] = u
        return cls

    # ------------------------------------------------------------------ spec rendering
    def spec_json(d):
        cls = d.alias_classes()
        regcells = set()
        for s in d.sigs:
            if s.reg:
                regcells |= cls[s.idx]

        def al(i):
            return [x + 1 for x in sorted(cls[i])]

        sigs = []
        for s in d.sigs:
            init = 0
            for j in cls[s.idx]:
                if d.sigs[j].const is not None:
                    init = d.sigs[j].const
            sigs.append({"w": s.w, "init": init, "inp": s.kind == "in" and not s.comp,
                         "reg": s.idx in regcells, "rep": min(cls[s.idx]) + 1, "al": al(s.idx),
                         "name": s.full()})

        def ex(e):
            k = e["k"]
            if k == "sig":
                v = e["v"]
                return {"k": "sig", "s": v.sig.idx + 1, "lo": v.lo, "hi": v.hi}
            if k == "lit":
                return {"k": "lit", "v": e["v"], "w": e["w"]}
            if k == "fcall":      # a helper function is its body, inlined (footprints included)
                return ex(d.funcs[e["f"]]["e"])
            if k == "idx":
                lo, hi = e.get("sl") or (0, e["arr"][0].w)
                return {"k": "idx", "arr": [x.idx + 1 for x in e["arr"]], "i": ex(e["i"]), "lo": lo, "hi": hi}
            if k == "vsl":
                return {"k": "vsl", "s": e["sig"].idx + 1, "b": ex(e["b"]), "w": e["w"]}
            if k == "not":
                return {"k": "not", "a": ex(e["a"]), "w": e["w"]}
            if k == "bin":
                return {"k": "bin", "op": e["op"], "a": ex(e["a"]), "b": ex(e["b"]), "w": e["w"]}
            if k == "cmp":
                return {"k": "cmp", "op": e["op"], "a": ex(e["a"]), "b": ex(e["b"])}
            if k == "ite":
                return {"k": "ite", "c": ex(e["c"]), "a": ex(e["a"]), "b": ex(e["b"])}
            if k == "zext":
                return {"k": "zext", "a": ex(e["a"])}
            if k == "trunc":
                return {"k": "trunc", "a": ex(e["a"]), "w": e["w"]}
            if k == "sext":
                return {"k": "sext", "a": ex(e["a"]), "aw": e["aw"], "w": e["w"]}
            if k == "cat":
                return {"k": "cat", "hi": ex(e["hi"]), "lo": ex(e["lo"]), "low": e["low"]}
            if k == "red":
                return {"k": "red", "op": e["op"], "a": ex(e["a"]), "aw": e["aw"]}
            raise KeyError(k)

        def st(x):
            if x["k"] == "as":
                v = x["t"]
                return {"k": "as", "t": {"s": v.sig.idx + 1, "lo": v.lo, "hi": v.hi}, "al": al(v.sig.idx),
                        "e": ex(x["e"])}
            if x["k"] == "asi":
                return {"k": "asi", "arr": [a.idx + 1 for a in x["arr"]], "i": ex(x["i"]), "e": ex(x["e"])}
            if x["k"] == "asv":
                return {"k": "asv", "s": x["sig"].idx + 1, "al": al(x["sig"].idx), "b": ex(x["b"]), "w": x["w"], "e": ex(x["e"])}
            if x["k"] == "if":
                return {"k": "if", "c": ex(x["c"]), "th": [st(y) for y in x["th"]], "el": [st(y) for y in x["el"]]}
            raise KeyError(x["k"])

        steps, nstmts = [], 0
        for b in d.blocks:
            steps.append({"name": b["name"], "kind": b["kind"], "once": bool(b.get("once")),
                          "stmts": [st(x) for x in b["stmts"]], "nr": [], "nw": []})
        for n in d.nets:
            stmts, seen = [], set()
            if isinstance(n.writer, View):
                wcell = min(cls[n.writer.sig.idx]) if n.writer.whole() else None
                src = {"k": "sig", "v": n.writer}
            else:
                wcell = None
                src = {"k": "lit", "v": n.writer[1], "w": n.writer[2]}
            for m in n.members:
                if m.whole():
                    c = min(cls[m.sig.idx])
                    if c == wcell or c in seen:
                        continue          # shares the writer's cell / already written via an alias
                    if not isinstance(n.writer, View):
                        continue          # whole signal tied to a constant: the cell *is* the constant
                    seen.add(c)
                stmts.append(st({"k": "as", "t": m, "e": src}))
            nr = [[n.writer.sig.idx + 1, n.writer.lo, n.writer.hi]] if isinstance(n.writer, View) else []
            nw = [[m.sig.idx + 1, m.lo, m.hi] for m in n.members]
            steps.append({"name": d.net_name(n), "kind": "net", "once": False, "stmts": stmts, "nr": nr, "nw": nw})
        name2idx = {s["name"]: i + 1 for i, s in enumerate(steps)}

        def count(ss):
            return sum(1 + (count(x["th"]) + count(x["el"]) if x["k"] == "if" else 0) for x in ss)
        depth = sum(count(s["stmts"]) for s in steps)
        return {"name": d.name, "sigs": sigs, "steps": steps,
                "explicit": [[name2idx[a], name2idx[b]] for a, b in d.explicit],
                "checkfix": d.checkfix, "bitacyclic": d.bitacyclic,
                "depth": depth, "family": d.family}

    @staticmethod
    def net_name(n):
        w = n.writer.full() if isinstance(n.writer, View) else "const"
        return "net:" + w + "->" + ",".join(sorted(m.full() for m in n.members))

    # ------------------------------------------------------------------ PyMTL rendering
    def py_expr(d, e, host):
        k = e["k"]
        P = lambda x: d.py_expr(x, host)  # noqa: E731
        if k == "sig":
            return e["v"].rel(host)
        if k == "lit":
            return "Bits%d(%d)" % (e["w"], e["v"])
        if k == "fcall":
            return "%s()" % d.funcs[e["f"]]["name"]
        if k == "idx":
            a0 = e["arr"][0]
            base = ".".join(("s",) + a0.comp[len(host):] + (a0.arr[0],))
            sl = "[%d:%d]" % e["sl"] if e.get("sl") else ""     # s.arr[s.sel][lo:hi]: index in an inner position
            return "%s[%s]%s" % (base, P(e["i"]), sl)
        if k == "vsl":      # a slice with computed bounds: s.x[ b : b + w ]
            sg = e["sig"]
            nm = ".".join(("s",) + sg.comp[len(host):] + (sg.attr,))
            return "%s[ %s : %s + %d ]" % (nm, P(e["b"]), P(e["b"]), e["w"])
        if k == "not":
            return "(~%s)" % P(e["a"])
        if k == "bin":
            op = {"add": "+", "sub": "-", "mul": "*", "and": "&", "or": "|", "xor": "^", "shl": "<<", "shr": ">>"}[e["op"]]
            return "(%s %s %s)" % (P(e["a"]), op, P(e["b"]))
        if k == "cmp":
            op = {"eq": "==", "ne": "!=", "lt": "<", "le": "<=", "gt": ">", "ge": ">="}[e["op"]]
            return "(%s %s %s)" % (P(e["a"]), op, P(e["b"]))
        if k == "ite":
            return "(%s if %s else %s)" % (P(e["a"]), P(e["c"]), P(e["b"]))
        if k == "zext":
            return "zext(%s, %d)" % (P(e["a"]), e["w"])
        if k == "trunc":
            return "trunc(%s, %d)" % (P(e["a"]), e["w"])
        if k == "sext":
            return "sext(%s, %d)" % (P(e["a"]), e["w"])
        if k == "cat":
            return "concat(%s, %s)" % (P(e["hi"]), P(e["lo"]))
        if k == "red":
            return "reduce_%s(%s)" % (e["op"], P(e["a"]))
        raise KeyError(k)

    def py_rhs(d, e, host, leaf_bits, sliced):
        """RHS of an assignment.  A literal assigned to a Bits leaf is written in one of the three forms the
        assignment operators accept for the same value (chosen by the value, so the text is a function of
        the descriptor): BitsN(v), the Python int v, or - for a value with its top bit set, on an unsliced
        target - the negative int v - 2^w (`s.cnt <<= -1` stores all ones; PythonBits __imatmul__ /
        __ilshift__ accept -2^(w-1) <= v < 2^w and store v mod 2^w).  The specification sees the value v."""
        if e["k"] == "lit" and leaf_bits and e["w"] >= 1:
            v, w = e["v"], e["w"]
            form = (v + w) % 3
            if form == 1:
                return "%d" % v
            if form == 2:
                return "%d" % (v - (1 << w)) if (not sliced and v >= (1 << (w - 1))) else "%d" % v
        return d.py_expr(e, host)

    def py_stmts(d, stmts, host, op, ind):
        out = []
        for x in stmts:
            if x["k"] == "as" and x.get("render") == "bareloop":
                # target := sum of ALL elements of an n-dimensional list, written with loops over the BARE list name
                # (the descriptor holds the sum of explicit element reads: same value, same footprint)
                a0 = x["arr"][0]
                base = ".".join(("s",) + a0.comp[len(host):] + (a0.arr[0],))
                nd = len(a0.arr[3]) if len(a0.arr) > 3 else 1
                out.append("%s_acc = Bits%d( 0 )" % (ind, x["t"].w))
                cur, pad = base, ind
                for lv in range(nd):
                    out.append("%sfor _e%d in %s:" % (pad, lv, cur))
                    cur, pad = "_e%d" % lv, pad + "  "
                out.append("%s_acc = _acc + %s" % (pad, cur))
                out.append("%s%s %s _acc" % (ind, x["t"].rel(host), op))
                continue
            if x["k"] == "as":
                t = x["t"]
                out.append("%s%s %s %s" % (ind, t.rel(host), op,
                                           d.py_rhs(x["e"], host, isinstance(t.leafty, int) and t.leafty == x["e"].get("w"),
                                                    t.sl is not None)))
            elif x["k"] == "asv":
                sg = x["sig"]
                nm = ".".join(("s",) + sg.comp[len(host):] + (sg.attr,))
                out.append("%s%s[ %s : %s + %d ] %s %s" % (ind, nm, d.py_expr(x["b"], host), d.py_expr(x["b"], host), x["w"], op,
                                                           d.py_expr(x["e"], host)))
            elif x["k"] == "asi":
                a0 = x["arr"][0]
                base = ".".join(("s",) + a0.comp[len(host):] + (a0.arr[0],))
                out.append("%s%s[%s] %s %s" % (ind, base, d.py_expr(x["i"], host), op,
                                               d.py_rhs(x["e"], host, isinstance(a0.ty, int) and a0.ty == x["e"].get("w"), False)))
            else:
                out.append("%sif %s:" % (ind, d.py_expr(x["c"], host)))
                out += d.py_stmts(x["th"], host, op, ind + "  ") or [ind + "  pass"]
                if x["el"]:
                    out.append("%selse:" % ind)
                    out += d.py_stmts(x["el"], host, op, ind + "  ")
        return out

    def py_source(d, order_rng=None):
        """Python text of all component classes of this design (no imports / struct defs)."""
        L = []
        # children first (deepest first) so that classes exist when referenced
        for comp in sorted(d.comps, key=lambda c: -len(c)):
            L.append("class %s( Component ):" % d.cls_name(comp))
            L.append("  def construct( s ):")
            body = []
            # signals
            arrays = {}
            for sg in d.sigs:
                if sg.comp != comp:
                    continue
                ctor = {"in": "InPort", "out": "OutPort", "wire": "Wire"}[sg.kind]
                ty = ("Bits%d" % sg.ty) if isinstance(sg.ty, int) else sg.ty
                if sg.arr:
                    if sg.arr[0] not in arrays:
                        arrays[sg.arr[0]] = True
                        if len(sg.arr) > 3:
                            txt = "%s( %s )" % (ctor, ty)
                            for dd in reversed(sg.arr[3]):
                                txt = "[ %s for _ in range(%d) ]" % (txt, dd)
                            body.append("s.%s = %s" % (sg.arr[0], txt))
                        else:
                            body.append("s.%s = [ %s( %s ) for _ in range(%d) ]" % (sg.arr[0], ctor, ty, sg.arr[2]))
                else:
                    body.append("s.%s = %s( %s )" % (sg.name, ctor, ty))
            for ch in d.comps:
                if len(ch) == len(comp) + 1 and ch[:len(comp)] == comp:
                    body.append("s.%s = %s()" % (ch[-1], d.cls_name(ch)))
            items = []
            for n in d.nets:
                for (a, b, host) in n.conns:
                    if host != comp:
                        continue
                    bs = b.rel(comp)
                    as_ = a.rel(comp) if isinstance(a, View) else ("Bits%d(%d)" % (a[2], a[1]) if a[3] else str(a[1]))
                    # `x.f //= y` is not supported by pymtl3 on struct-field views (setattr on a view)
                    nofd = bool(b.path) or (isinstance(a, View) and bool(a.path))
                    items.append(("conn", as_, bs, nofd))
            for blk in d.blocks:
                if blk["comp"] == comp:
                    items.append(("blk", blk))
            for fn in d.funcs:
                if fn["comp"] == comp:
                    items.append(("func", fn))
            if order_rng is not None:
                order_rng.shuffle(items)
            for it in items:
                if it[0] == "func":
                    body.append("@s.func")
                    body.append("def %s():" % it[1]["name"])
                    body.append("  return %s" % d.py_expr(it[1]["e"], comp))
                elif it[0] == "conn":
                    style = 0 if order_rng is None else order_rng.randrange(3)
                    a, b = it[1], it[2]
                    const = not a.startswith("s.")
                    if not const and order_rng is not None and order_rng.random() < 0.5:
                        a, b = b, a
                    if it[3]:
                        style = 0
                    if style == 0 or const and style == 1:
                        body.append("connect( %s, %s )" % ((b, a) if const else (a, b)))
                    else:
                        body.append("%s //= %s" % ((b, a) if const else (a, b)))
                else:
                    blk = it[1]
                    dec, op = ("@update_ff", "<<=") if blk["kind"] == "ff" else ("@update", "@=")
                    if blk.get("once"):
                        dec = "@update_once"
                    body.append(dec)
                    body.append("def %s():" % blk["name"])
                    body += d.py_stmts(blk["stmts"], comp, op, "  ")
            names = {b["name"]: b for b in d.blocks}
            for (a, b) in d.explicit:
                if names[a]["comp"] == comp:
                    body.append("s.add_constraints( U(%s) < U(%s) )" % (a, b))
            if not body:
                body = ["pass"]
            L += ["    " + x for x in body]
            L.append("")
        return "\n".join(L)


def struct_defs():
    L = []
    for name, fields in STRUCTS.items():
        L.append("@bitstruct")
        L.append("class %s:" % name)
        if name in STRUCT_DECL:
            for f, t in STRUCT_DECL[name]:
                L.append("  %s: %s" % (f, t))
        else:
            for f, t in fields:
                L.append("  %s: %s" % (f, ("Bits%d" % t) if isinstance(t, int) else t))
        L.append("")
    return "\n".join(L)


HEADER = "from pymtl3 import *\n\n"


def module_source(designs, order_rng=None):
    return HEADER + struct_defs() + "\n" + "\n".join(d.py_source(order_rng) for d in designs)


# ==========================================================================================
# Random generation
# ==========================================================================================

BINOPS = ["add", "sub", "and", "or", "xor", "mul", "shl", "shr"]
CMPOPS = ["eq", "ne", "lt", "le", "gt", "ge"]


class Gen:
    def __init__(g, rng, name, opts=None):
        g.r = rng
        g.o = dict(children=2, grandchild=0.3, max_w=8, structs=0.3, arrays=0.3, nets=0.5, regs=0.5,
                   stmts_per_block=2, explicit=0.3, ifs=0.3, false_loops=False)
        g.o.update(opts or {})
        g.d = Design(name)
        g.nblk = 0
        g.viewnet = {}     # view key -> Net

    # ---------------------------------------------------------------- structure
    def widths(g):
        return g.r.choice([1, 1, 2, 2, 3, 4, 4, 5, 8][: 3 + g.o["max_w"]]) if g.o["max_w"] < 8 else g.r.choice([1, 2, 3, 4, 4, 6, 8])

    def rand_type(g):
        if g.r.random() < g.o["structs"]:
            return g.r.choice(list(STRUCTS))
        w = g.widths()
        return min(w, g.o["max_w"])

    def build_structure(g):
        d, r = g.d, g.r
        nch = r.randint(0, g.o["children"])
        for i in range(nch):
            d.comps.append(("c%d" % i,))
        if nch and r.random() < g.o["grandchild"]:
            d.comps.append(("c0", "g"))
        for comp in d.comps:
            nin = r.randint(1, 2)
            nout = r.randint(1, 2)
            nw = r.randint(0, 2)
            for i in range(nin):
                d.add_sig(comp, "i%d" % i, "in", g.rand_type())
            for i in range(nout):
                d.add_sig(comp, "o%d" % i, "out", g.rand_type())
            for i in range(nw):
                d.add_sig(comp, "w%d" % i, "wire", g.rand_type())
            if r.random() < g.o["arrays"]:
                n = r.choice([2, 4])
                w = min(g.widths(), g.o["max_w"])
                kind = r.choice(["wire", "out"])
                for i in range(n):
                    d.add_sig(comp, "arr%d" % i, kind, w, arr=("arr", i, n))

    # ---------------------------------------------------------------- views
    def sub_views(g, sig, want_w=None):
        """candidate views of a signal (whole, fields, slices)."""
        out = [View(sig)]
        if isinstance(sig.ty, int):
            if sig.w > 1 and not sig.arr:
                for lo in range(sig.w):
                    for hi in range(lo + 1, sig.w + 1):
                        if (lo, hi) != (0, sig.w):
                            out.append(View(sig, (), (lo, hi)))
        else:
            for p in all_field_paths(sig.ty):
                v = View(sig, p)
                out.append(v)
                if isinstance(v.leafty, int) and v.leafty > 1:
                    for lo in range(v.leafty):
                        for hi in range(lo + 1, v.leafty + 1):
                            if (lo, hi) != (0, v.leafty):
                                out.append(View(sig, p, (lo, hi)))
        if want_w is not None:
            out = [v for v in out if v.w == want_w]
        return out

    def readable_sigs(g, host):
        """signals an update block hosted by `host` may read: its own, and its children's ports."""
        out = []
        for s in g.d.sigs:
            if s.comp == host:
                out.append(s)
            elif len(s.comp) == len(host) + 1 and s.comp[:len(host)] == host and s.kind in ("in", "out"):
                out.append(s)
        return out

    def writer_host(g, sig):
        """component whose update blocks may write `sig`."""
        if sig.kind == "in":
            return sig.comp[:-1] if sig.comp else None
        return sig.comp

    # ---------------------------------------------------------------- expressions
    def gen_expr(g, w, host, maxrank, depth=0, ff=False):
        """expression of width w reading only views whose bits all have rank <= maxrank
        (ff blocks: any driven or undriven view).  Returns (ast, rank)."""
        r = g.r
        cands = []
        for s in g.readable_sigs(host):
            if isinstance(s.ty, int) or True:
                for v in g.sub_views(s, w):
                    if not isinstance(v.leafty, int):
                        continue
                    rk = v.rank()
                    if ff:
                        cands.append((v, 0))
                    elif rk is not None and rk <= maxrank:
                        cands.append((v, rk))
        choice = r.random()
        if depth >= 3 or choice < 0.35:
            if cands and r.random() < 0.9:
                v, rk = r.choice(cands)
                return {"k": "sig", "v": v}, rk
            return {"k": "lit", "v": r.randrange(1 << w), "w": w}, 0
        sub = lambda ww: g.gen_expr(ww, host, maxrank, depth + 1, ff)  # noqa: E731
        if choice < 0.6:
            op = r.choice(BINOPS)
            a, ra = sub(w)
            if op in ("shl", "shr") and r.random() < 0.7:
                b, rb = {"k": "lit", "v": r.randrange(min(1 << w, w + 2)), "w": w}, 0
            else:
                b, rb = sub(w)
            return {"k": "bin", "op": op, "a": a, "b": b, "w": w}, max(ra, rb)
        if choice < 0.66:
            a, ra = sub(w)
            return {"k": "not", "a": a, "w": w}, ra
        if choice < 0.74:
            c, rc = sub(1)
            a, ra = sub(w)
            b, rb = sub(w)
            return {"k": "ite", "c": c, "a": a, "b": b}, max(rc, ra, rb)
        if w == 1 and choice < 0.9:
            if r.random() < 0.6:
                ww = r.choice([1, 2, 3, 4])
                a, ra = sub(ww)
                b, rb = sub(ww)
                return {"k": "cmp", "op": r.choice(CMPOPS), "a": a, "b": b}, max(ra, rb)
            ww = r.choice([2, 3, 4])
            a, ra = sub(ww)
            return {"k": "red", "op": r.choice(["and", "or", "xor"]), "a": a, "aw": ww}, ra
        if w > 1 and choice < 0.82:
            low = r.randint(1, w - 1)
            hi, rh = sub(w - low)
            lo, rl = sub(low)
            return {"k": "cat", "hi": hi, "lo": lo, "low": low}, max(rh, rl)
        if w > 1 and choice < 0.9:
            aw = r.randint(1, w - 1)
            a, ra = sub(aw)
            if r.random() < 0.5:
                return {"k": "zext", "a": a, "w": w}, ra
            return {"k": "sext", "a": a, "aw": aw, "w": w}, ra
        if w < 8 and choice < 0.95:
            a, ra = sub(w + r.randint(1, 2))
            return {"k": "trunc", "a": a, "w": w}, ra
        # array read with variable index
        arrs = {}
        for s in g.readable_sigs(host):
            if s.arr and s.w >= w:
                arrs.setdefault((s.comp, s.arr[0]), []).append(s)
        if arrs:
            elems = sorted(r.choice(sorted(arrs.values(), key=lambda x: x[0].idx)), key=lambda s: s.arr[1])
            rk = [e.rank[0] for e in elems]
            if ff or all(x is not None and x <= maxrank for x in rk):
                iw = {2: 1, 4: 2}[len(elems)]
                i, ri = sub(iw)
                node = {"k": "idx", "arr": elems, "i": i}
                if elems[0].w > w:      # a slice of the selected element
                    lo = r.randrange(elems[0].w - w + 1)
                    node["sl"] = (lo, lo + w)
                return node, max([ri] + [x or 0 for x in rk])
        a, ra = sub(w)
        return {"k": "not", "a": a, "w": w}, ra

    # ---------------------------------------------------------------- drivers
    def undriven_targets(g):
        out = []
        for s in g.d.sigs:
            if s.kind == "in" and not s.comp:
                continue
            if s.reg or s.const is not None:
                continue
            if all(x is None for x in s.rank):
                out.append(s)
        return out

    def partition(g, sig):
        """split a signal into target views (whole, fields, or slices)."""
        r = g.r
        if sig.arr:
            return [View(sig)]
        if isinstance(sig.ty, int):
            if sig.w == 1 or r.random() < 0.5:
                return [View(sig)]
            cut = sorted(r.sample(range(1, sig.w), min(r.randint(1, 2), sig.w - 1)))
            bounds = [0] + cut + [sig.w]
            return [View(sig, (), (bounds[i], bounds[i + 1])) for i in range(len(bounds) - 1)]
        if r.random() < 0.3:
            return [View(sig)]
        out = []

        def rec(ty, prefix):
            for name, t in STRUCTS[ty]:
                if not isinstance(t, int) and r.random() < 0.6:
                    rec(t, prefix + (name,))
                else:
                    out.append(View(sig, prefix + (name,)))
        rec(sig.ty, ())
        return out

    def set_rank(g, view, rk):
        for b in view.bits():
            view.sig.rank[b] = rk

    def net_sources(g, target):
        """views that may legally drive `target` (a sink view) through a connection, with the
        component whose construct() holds the connect statement."""
        d = g.d
        t = target.sig
        out = []
        for s in d.sigs:
            if s is t or s.arr:
                continue
            if t.kind == "in":
                if not t.comp:
                    continue
                par = t.comp[:-1]
                ok = (s.comp == par) or (len(s.comp) == len(t.comp) and s.comp[:-1] == par and s.comp != t.comp
                                         and s.kind == "out")
                host = par
            else:
                ok = (s.comp == t.comp) or (len(s.comp) == len(t.comp) + 1 and s.comp[:-1] == t.comp and s.kind == "out")
                host = t.comp
            if not ok:
                continue
            for v in g.sub_views(s, target.w):
                if v.leafty != target.leafty:
                    continue
                if v.rank() is None:
                    continue
                out.append((v, host))
        return out

    def new_block(g, kind, comp):
        b = {"name": ("ff%d" if kind == "ff" else "b%d") % g.nblk, "kind": kind, "comp": comp, "stmts": [],
             "ranks": []}
        g.nblk += 1
        g.d.blocks.append(b)
        return b

    def drive_all(g):
        d, r = g.d, g.r
        # registers first: they break cycles, so they count as driven with rank 0
        for s in d.sigs:
            if s.kind == "in" or (s.arr and s.arr[1] != 0):
                continue
            if r.random() < g.o["regs"] * 0.5:
                if s.arr:
                    for e in d.sigs:
                        if e.comp == s.comp and e.arr and e.arr[0] == s.arr[0]:
                            e.reg = True
                            g.set_rank(View(e), 0)
                else:
                    s.reg = True
                    g.set_rank(View(s), 0)
        for s in d.sigs:
            if s.kind == "in" and not s.comp:
                g.set_rank(View(s), 0)
        pending = []       # (view, host) comb statements waiting to be grouped into blocks
        todo = g.undriven_targets()
        r.shuffle(todo)
        stmts = []         # (rank, host, stmt)
        for sig in todo:
            if sig.arr and sig.arr[1] != 0:
                continue
            if sig.arr:
                elems = sorted([e for e in d.sigs if e.comp == sig.comp and e.arr and e.arr[0] == sig.arr[0]],
                               key=lambda e: e.arr[1])
                host = g.writer_host(sig)
                if host is None:
                    continue
                if r.random() < 0.5:
                    # default all elements, then one indexed write:   for-less RegisterFile-like mux
                    rk = 0
                    ss = []
                    for e in elems:
                        ex, rr = g.gen_expr(e.w, host, 10 ** 6)
                        ss.append({"k": "as", "t": View(e), "e": ex})
                        rk = max(rk, rr)
                    iw = {2: 1, 4: 2}[len(elems)]
                    i, ri = g.gen_expr(iw, host, 10 ** 6)
                    ex, rr = g.gen_expr(sig.w, host, 10 ** 6)
                    ss.append({"k": "asi", "arr": elems, "i": i, "e": ex})
                    rk = max(rk, ri, rr) + 1
                    for e in elems:
                        g.set_rank(View(e), rk)
                    stmts.append((rk, host, ss, True))
                else:
                    for e in elems:
                        ex, rr = g.gen_expr(e.w, host, 10 ** 6)
                        g.set_rank(View(e), rr + 1)
                        stmts.append((rr + 1, host, [{"k": "as", "t": View(e), "e": ex}], False))
                continue
            for tv in g.partition(sig):
                host = g.writer_host(sig)
                srcs = g.net_sources(tv) if r.random() < g.o["nets"] or host is None else []
                if srcs:
                    src, chost = r.choice(srcs)
                    g.connect(src, tv, chost)
                    continue
                if not isinstance(tv.leafty, int):
                    # struct-typed target: only a same-typed source can drive it
                    srcs = g.net_sources(tv)
                    if srcs:
                        src, chost = r.choice(srcs)
                        g.connect(src, tv, chost)
                    continue
                if host is None:
                    continue
                if tv.whole() and r.random() < 0.12:
                    # tie to a constant
                    val = r.randrange(1 << tv.w)
                    n = Net(("const", val, tv.w, r.random() < 0.5 or True))
                    n.members.append(tv)
                    n.conns.append((n.writer, tv, tv.sig.comp if tv.sig.kind != "in" else tv.sig.comp[:-1]))
                    d.nets.append(n)
                    g.viewnet[tv.key()] = n
                    tv.sig.const = val
                    g.set_rank(tv, 0)
                    continue
                ex, rk = g.gen_expr(tv.w, host, 10 ** 6)
                ss = [{"k": "as", "t": tv, "e": ex}]
                if r.random() < g.o["ifs"]:
                    c, rc = g.gen_expr(1, host, 10 ** 6)
                    ex2, r2 = g.gen_expr(tv.w, host, 10 ** 6)
                    if r.random() < 0.5:
                        ss.append({"k": "if", "c": c, "th": [{"k": "as", "t": tv, "e": ex2}], "el": []})
                    else:
                        ss = [{"k": "if", "c": c, "th": [{"k": "as", "t": tv, "e": ex2}], "el": ss}]
                    rk = max(rk, rc, r2)
                g.set_rank(tv, rk + 1)
                stmts.append((rk + 1, host, ss, True))
        g.group_blocks(stmts)
        g.make_ff_blocks()

    def connect(g, src, sink, host):
        d = g.d
        n = g.viewnet.get(src.key())
        if n is None:
            n = Net(src)
            d.nets.append(n)
            g.viewnet[src.key()] = n
        attach = g.r.choice([n.writer] + n.members) if isinstance(n.writer, View) else n.writer
        # attaching to an arbitrary member needs that member to be connectable from `host`;
        # keep it simple and sound: always attach to the chosen source view
        attach = src
        n.members.append(sink)
        n.conns.append((attach, sink, host))
        g.viewnet[sink.key()] = n
        g.set_rank(sink, src.rank() + 1)

    def group_blocks(g, stmts):
        """pack statements into update blocks.  Acyclic mode: statements of one block are sorted by
        rank and blocks are only merged when that keeps the block-level graph acyclic (checked by
        the caller through classify()); false-loop mode merges freely."""
        r = g.r
        by_host = {}
        for it in stmts:
            by_host.setdefault(it[1], []).append(it)
        for host, items in by_host.items():
            r.shuffle(items)
            while items:
                k = r.randint(1, g.o["stmts_per_block"])
                grp, items = items[:k], items[k:]
                grp.sort(key=lambda x: x[0])
                b = g.new_block("comb", host)
                for (rk, _, ss, _) in grp:
                    b["stmts"] += ss
                    b["ranks"].append(rk)

    def make_ff_blocks(g):
        d, r = g.d, g.r
        regs = [s for s in d.sigs if s.reg]
        r.shuffle(regs)
        done = set()
        cur = {}
        for s in regs:
            if s.idx in done:
                continue
            host = g.writer_host(s)
            if host is None:
                host = s.comp
            blk = cur.get(host)
            if blk is None or len(blk["stmts"]) >= 2 or r.random() < 0.5:
                blk = g.new_block("ff", host)
                cur[host] = blk
            if s.arr:
                elems = sorted([e for e in d.sigs if e.comp == s.comp and e.arr and e.arr[0] == s.arr[0]],
                               key=lambda e: e.arr[1])
                for e in elems:
                    done.add(e.idx)
                iw = {2: 1, 4: 2}[len(elems)]
                i, _ = g.gen_expr(iw, host, 0, ff=True)
                ex, _ = g.gen_expr(s.w, host, 0, ff=True)
                st = {"k": "asi", "arr": elems, "i": i, "e": ex}
                if r.random() < 0.5:
                    c, _ = g.gen_expr(1, host, 0, ff=True)
                    st = {"k": "if", "c": c, "th": [st], "el": []}
                blk["stmts"].append(st)
                continue
            done.add(s.idx)
            tv = View(s)
            if not isinstance(s.ty, int):
                cands = [x for x in g.readable_sigs(host) if x.ty == s.ty and x is not s]
                # no same-typed source: the register re-loads its own (pre-edge) value
                src = View(r.choice(cands)) if cands else View(s)
                st = {"k": "as", "t": tv, "e": {"k": "sig", "v": src}}
            else:
                ex, _ = g.gen_expr(s.w, host, 0, ff=True)
                st = {"k": "as", "t": tv, "e": ex}
            mode = r.random()
            if mode < 0.3:
                c, _ = g.gen_expr(1, host, 0, ff=True)
                st = {"k": "if", "c": c, "th": [st], "el": []}           # enabled register: may hold
                blk["stmts"].append(st)
            elif mode < 0.5 and isinstance(s.ty, int):
                ex2, _ = g.gen_expr(s.w, host, 0, ff=True)
                c, _ = g.gen_expr(1, host, 0, ff=True)
                blk["stmts"].append(st)                                    # assigned twice: last wins
                blk["stmts"].append({"k": "if", "c": c, "th": [{"k": "as", "t": tv, "e": ex2}], "el": []})
            else:
                blk["stmts"].append(st)
        d.blocks = [b for b in d.blocks if b["stmts"] or b["kind"] != "ff"]

    def add_explicit(g, reach):
        """extra U(a) < U(b) between comb blocks of one component unrelated by dataflow."""
        d, r = g.d, g.r
        combs = [b for b in d.blocks if b["kind"] == "comb"]
        for _ in range(3):
            if len(combs) < 2 or r.random() > g.o["explicit"]:
                continue
            a, b = r.sample(combs, 2)
            if a["comp"] != b["comp"]:
                continue
            if reach(b["name"], a["name"]) or (a["name"], b["name"]) in d.explicit:
                continue
            d.explicit.append((a["name"], b["name"]))


# ------------------------------------------------------------------------------------------
# Python mirror of the spec's block-level relation, used ONLY to route designs to families
# (the verdicts come from TLC, which recomputes everything from the descriptor).
# ------------------------------------------------------------------------------------------

def footprints(dj):
    def erefs(e):
        k = e["k"]
        if k == "sig":
            return {(e["s"], b) for b in range(e["lo"], e["hi"])}
        if k == "lit":
            return set()
        if k == "idx":
            out = erefs(e["i"])
            for s in e["arr"]:
                out |= {(s, b) for b in range(e["lo"], e["hi"])}
            return out
        if k == "vsl":
            return erefs(e["b"]) | {(e["s"], b) for b in range(dj["sigs"][e["s"] - 1]["w"])}
        out = set()
        for f in ("a", "b", "c", "hi", "lo"):
            if f in e and isinstance(e[f], dict):
                out |= erefs(e[f])
        return out

    def sr(ss):
        out = set()
        for x in ss:
            if x["k"] == "as":
                out |= erefs(x["e"])
            elif x["k"] == "asi":
                out |= erefs(x["e"]) | erefs(x["i"])
            elif x["k"] == "asv":
                out |= erefs(x["e"]) | erefs(x["b"])
            else:
                out |= erefs(x["c"]) | sr(x["th"]) | sr(x["el"])
        return out

    def sw(ss):
        out = set()
        for x in ss:
            if x["k"] == "as":
                out |= {(x["t"]["s"], b) for b in range(x["t"]["lo"], x["t"]["hi"])}
            elif x["k"] == "asi":
                for s in x["arr"]:
                    out |= {(s, b) for b in range(dj["sigs"][s - 1]["w"])}
            elif x["k"] == "asv":
                out |= {(x["s"], b) for b in range(dj["sigs"][x["s"] - 1]["w"])}
            else:
                out |= sw(x["th"]) | sw(x["el"])
        return out
    def vb(vs):
        return {(s, b) for (s, lo, hi) in vs for b in range(lo, hi)}
    return [(sr(s["stmts"]) | vb(s.get("nr", [])), sw(s["stmts"]) | vb(s.get("nw", []))) for s in dj["steps"]]


def block_graph(dj):
    fp = footprints(dj)
    n = len(dj["steps"])
    comb = [i for i in range(n) if dj["steps"][i]["kind"] != "ff"]
    expl = {(a - 1, b - 1) for a, b in dj["explicit"]}
    E = set()
    for a in comb:
        for b in comb:
            if a != b and ((a, b) in expl or (fp[a][1] & fp[b][0] and (b, a) not in expl)):
                E.add((a, b))
    return comb, E


def is_block_cyclic(dj):
    comb, E = block_graph(dj)
    succ = {a: [b for (x, b) in E if x == a] for a in comb}
    state = {}

    def dfs(u):
        state[u] = 1
        for v in succ[u]:
            if state.get(v) == 1 or (v not in state and dfs(v)):
                return True
        state[u] = 2
        return False
    return any(u not in state and dfs(u) for u in comb)


def reach_fn(dj):
    comb, E = block_graph(dj)
    names = {dj["steps"][i]["name"]: i for i in comb}
    succ = {a: [b for (x, b) in E if x == a] for a in comb}

    def reach(a, b):
        a, b = names[a], names[b]
        seen, st = set(), [a]
        while st:
            u = st.pop()
            if u == b:
                return True
            for v in succ[u]:
                if v not in seen:
                    seen.add(v)
                    st.append(v)
        return False
    return reach


def self_loop_free(dj):
    """no statement reads a bit that a LATER statement of the same block writes (DESIGN App. A)."""
    fp_all = footprints(dj)
    for si, s in enumerate(dj["steps"]):
        if s["kind"] == "ff":
            continue
        tops = s["stmts"]
        for i in range(len(tops)):
            ri = footprints({"sigs": dj["sigs"], "steps": [{"stmts": [tops[i]]}]})[0][0]
            for j in range(i + 1, len(tops)):
                wj = footprints({"sigs": dj["sigs"], "steps": [{"stmts": [tops[j]]}]})[0][1]
                if ri & wj:
                    return False
    return True


def alias_self_loop(dj):
    """A block writes signal X and reads a DIFFERENT signal Y that shares X's storage cell (X and Y are
    whole top-level members of one net).  pymtl3 has a net block X -> Y between the two, so the block
    depends on itself through the net (a block-level cycle: outside C01/C02's acyclic premise), while
    at cell level the specification sees an ordinary read-after-write inside one block.  Such designs are
    not generated (neither as acyclic nor as false loops)."""
    sigs = dj["sigs"]

    def refs(x, out_r, out_w):
        if isinstance(x, dict):
            k = x.get("k")
            if k == "sig":
                out_r.add(x["s"])
            elif k == "idx":
                out_r.update(x["arr"])
            elif k == "vsl":
                out_r.add(x["s"])
            elif k == "asv":
                out_w.add(x["s"])
            elif k == "as":
                out_w.add(x["t"]["s"])
            elif k == "asi":
                out_w.update(x["arr"])
            for v in x.values():
                refs(v, out_r, out_w)
        elif isinstance(x, list):
            for v in x:
                refs(v, out_r, out_w)
    for st in dj["steps"]:
        if st["kind"] == "ff":
            continue
        r, w = set(), set()
        refs(st["stmts"], r, w)
        for a in w:
            for b in r:
                if a != b and sigs[a - 1]["rep"] == sigs[b - 1]["rep"]:
                    return True
    return False


def gen_design(rng, name, opts=None, want="acyclic", tries=50):
    """want: 'acyclic' (block-level acyclic), 'falseloop' (block-level cyclic, bit-level acyclic), 'any'"""
    for _ in range(tries):
        g = Gen(rng, name, opts)
        g.build_structure()
        g.drive_all()
        dj = g.d.spec_json()
        if not any(b["kind"] == "comb" for b in g.d.blocks) and not g.d.nets:
            continue
        if not self_loop_free(dj):
            continue
        cyc = is_block_cyclic(dj)
        if want == "acyclic" and cyc:
            continue
        if want == "falseloop" and not cyc:
            continue
        if not cyc:
            g.add_explicit(reach_fn(dj))
        g.d.family = "falseloop" if cyc else "acyclic"
        return g.d
    return None
