"""C17, parts 6-8: interface adapters / connect hooks / compositions (spec/Adapter.tla, Channel.tla,
AdapterTrace.tla, harness/c17_adapters.py) and register files (spec/RegFile.tla, RegFileTrace.tla,
harness/c17_regfile.py).  Called from props/c17.py; same structure as the queue part: model checking,
spec -> code walk over the dumped state graphs, code -> spec trace validation, canaries."""
import collections
import copy
import os
import tempfile
import shutil

import tlc
from common import MachineryError, rng

MSGS = (1, 2, 3)
MAX_VIOL_PER_DUT = 6
MAX_RAW_PER_DUT = 40


def _par(fn, items, nthreads=None):
    from concurrent.futures import ThreadPoolExecutor
    if not items:
        return []
    with ThreadPoolExecutor(max_workers=nthreads or min(len(items), max(2, (os.cpu_count() or 4) // 2))) as ex:
        return list(ex.map(fn, items))


def _pool():
    import multiprocessing
    from concurrent.futures import ProcessPoolExecutor
    return ProcessPoolExecutor(max_workers=os.cpu_count() or 4, mp_context=multiprocessing.get_context("fork"))


def _run_dump(module, cfg_text, timeout=1800):
    """One TLC run that model-checks (invariants / properties of cfg_text, per-action coverage) AND dumps the
    state graph.  Returns (run, states, init, edges)."""
    tmp = tempfile.mkdtemp(prefix="tlcdump_")
    try:
        pref = os.path.join(tmp, "graph")
        r = tlc.run(module, cfg_text=cfg_text, dump=pref, workers=1, coverage=True, timeout=timeout)
        path = pref + ".dot" if os.path.exists(pref + ".dot") else pref
        if not os.path.exists(path):
            raise MachineryError("TLC wrote no state graph for %s:\n%s" % (module, r.out[-2000:]))
        states, init, edges = tlc.parse_dot(path)
        return r, states, init, edges
    finally:
        shutil.rmtree(tmp, ignore_errors=True)


def _check_run(res, r, what, actions=("Cycle",)):
    res.add_tlc(r)
    if r.violated:
        res.violation("model:%s:%s" % (what, r.violated), "%s violates %s" % (what, r.violated), r.out[-3000:])
        return False
    if not r.ok:
        raise MachineryError("TLC failed on %s: %s\n%s" % (what, r.errors, r.out[-2000:]))
    for act in actions:
        if r.coverage.get(act, (0, 0))[1] == 0:
            raise MachineryError("action %s never taken in %s (vacuous)" % (act, what))
    return True


# ============================================================================================
# generic product walk (spec state x implementation control state)
# ============================================================================================

def walk(factory, graph, init, step, diff, name, perturb=None, limit=MAX_VIOL_PER_DUT, acts_filter=None,
         obs_fields=None):
    """graph: {state: {act: (state2, expected)}}.  From every reachable pair (spec state, dut.sig()) every
    spec transition is applied to the device (step(dut, act) -> obs) and compared (diff(obs, exp) -> clause or
    None).  Returns statistics and the mismatches, each with the shortest known action path to it."""
    dut = factory()
    start = (init, dut.sig())
    cur = start
    dest = {start: {}}
    viol = []
    ncyc = nedge = nraw = npert = 0
    aborted = False
    trail = []                  # every action applied to the current device since it was built

    def acts_of(ps):
        a = list(graph[ps[0]])
        return a if acts_filter is None else [x for x in a if acts_filter(x)]

    def apply(ps, act):
        nonlocal ncyc
        ncyc += 1
        s2, exp = graph[ps[0]][act]
        trail.append(act)
        try:
            obs = step(dut, act)
            bad = diff(obs, exp)
        except MachineryError:
            raise
        except Exception as e:              # the simulated design itself crashed
            obs = {"exception": "%s: %s" % (type(e).__name__, str(e)[:200])}
            bad = "raises-" + type(e).__name__
        return s2, exp, obs, bad

    def path_to(ps):
        prev = {start: None}
        dq = collections.deque([start])
        while dq:
            x = dq.popleft()
            if x == ps:
                break
            for a, y in dest.get(x, {}).items():
                if y is not None and y not in prev:
                    prev[y] = (x, a)
                    dq.append(y)
        out, x = [], ps
        while prev.get(x) is not None:
            x, a = prev[x]
            out.append(a)
        return out[::-1]

    pending = {start: acts_of(start)[::-1]}      # product state -> actions not tried yet (popped from the end)

    while True:
        if pending[cur]:
            act = pending[cur].pop()
            s2, exp, obs, bad = apply(cur, act)
            nedge += 1
            if bad:
                # the shortest known path to this product state; for a mismatch raised by the driver (it may
                # depend on earlier cycles of this very run) the actual actions since the device was built
                use_trail = obs_fields is not None and bad not in obs_fields and len(trail) <= 400
                p = trail[:-1] if use_trail else path_to(cur)
                viol.append({"clause": bad, "state": cur[0], "sig": list(cur[1]), "act": act, "expected": exp,
                             "observed": obs, "path": p})
                dest[cur][act] = None
                dut = factory()
                del trail[:]
                cur = start
                nraw += 1
                if len({(v["clause"], v["state"], v["act"]) for v in viol}) >= limit or nraw >= MAX_RAW_PER_DUT:
                    aborted = True
                    break
                continue
            if perturb is not None and npert < 60:          # canary on the comparison itself
                p = perturb(exp, obs, npert)
                if p is not None and diff(obs, p) is None:
                    raise MachineryError("replay canary: perturbed expectation %s accepted for %s (observed %s)"
                                         % (p, name, obs))
                npert += 1
            nxt = (s2, dut.sig())
            dest[cur][act] = nxt
            if nxt not in dest:
                dest[nxt] = {}
                pending[nxt] = acts_of(nxt)[::-1]
            cur = nxt
            continue
        prev = {cur: None}
        dq = collections.deque([cur])
        goal = None
        while dq:
            x = dq.popleft()
            if pending[x]:
                goal = x
                break
            for a, y in dest[x].items():
                if y is not None and y not in prev:
                    prev[y] = (x, a)
                    dq.append(y)
        if goal is None:
            break
        steps, x = [], goal
        while prev[x] is not None:
            x, a = prev[x]
            steps.append(a)
        for a in reversed(steps):
            s2, exp, obs, bad = apply(cur, a)
            nxt = (s2, dut.sig())
            if bad or nxt != dest[cur][a]:
                raise MachineryError("%s is not deterministic in its control state: %s from %s gave %s/%s, earlier %s"
                                     % (name, a, cur, bad, nxt, dest[cur][a]))
            cur = nxt
    return {"name": name, "product_states": len(dest), "spec_states": len({ps[0] for ps in dest}),
            "spec_states_total": len(graph), "edges": nedge, "cycles": ncyc, "aborted": aborted, "violations": viol,
            "perturbed": npert}


# ============================================================================================
# 6. adapters
# ============================================================================================

ADAPTER_KINDS = ("cl2rtl", "cl2val", "rtl2cl", "and", "get2cl", "val2cl", "fl2cl", "fl2rtl", "cl2fl", "rtl2fl")
_A_INVS = ("TypeOK", "Bounded", "DeliveredPrefix", "Conservation", "BlockedOK", "OutExact", "CountExact")
_A_PROPS = ("StepFifo", "RefinesChannel", "RefinesFifo")
_AG = {}        # (kind, cf) -> {state: {act: (state2, out)}}
A_INIT = ((), False, (), False)
A_FIELDS = ("enq_rdy", "deq_rdy", "enq_xfer", "deq_xfer", "ret", "deq_msg", "pblk", "cblk", "count2", "ent2", "clr2")


def _cfs(kind):
    return (True, False) if kind == "fl2rtl" else (True,)


def _a_cfg(view=True, maxhist=0):
    """view: histories hidden, every invariant and step property on every transition; otherwise the histories
    are kept up to maxhist accepted messages and the invariants (which are what speaks about them) are checked."""
    s = "SPECIFICATION Spec\nCONSTANTS KindSet = {%s}\n Msgs = {%s}\n MaxHist = %d\n" % (
        ", ".join('"%s"' % k for k in ADAPTER_KINDS), ", ".join(map(str, MSGS)), maxhist)
    s += "VIEW View\n" if view else "CONSTRAINT HistBound\n"
    s += "".join("INVARIANT %s\n" % i for i in _A_INVS)
    if view:
        s += "".join("PROPERTY %s\n" % p for p in _A_PROPS)
    return s + "CHECK_DEADLOCK FALSE\n"


def _a_key(st):
    return (tuple(st["entry"]), bool(st["clr"]), tuple(st["pend"]), bool(st["cwait"]))


def _a_state_str(s):
    return "buf=%d,clr=%d,pend=%d,cwait=%d" % (len(s[0]), s[1], len(s[2]), s[3])


def _a_act_str(a):
    return "enq=%d,deq=%d,rst=%d" % (a[0], a[2], a[3])


def adapter_model_check(res, maxhist):
    """Adapter.tla, all kinds (and both block orders of fl2rtl) in one run -- kind is chosen in the initial state:
    exhaustive with the histories hidden by the VIEW (the same run dumps the state graphs for the walk), and
    once with the histories kept up to a bound; Channel.tla for capacities 0..3."""
    def one(tag):
        if tag == "dump":
            return tag, _run_dump("Adapter", _a_cfg(True, 0))
        if tag == "hist":
            return tag, tlc.run("Adapter", cfg_text=_a_cfg(False, maxhist), coverage=True, workers=4, timeout=1800)
        cfg = ("SPECIFICATION Spec\nCONSTANTS Caps = {0, 1, 2, 3}\n Msgs = {%s}\n MaxHist = %d\nCONSTRAINT HistBound\n"
               "INVARIANT TypeOK\nINVARIANT Bounded\nINVARIANT DeliveredPrefix\nINVARIANT Conservation\n"
               "PROPERTY StepFifo\nCHECK_DEADLOCK FALSE\n" % (", ".join(map(str, MSGS)), maxhist + 1))
        return tag, tlc.run("Channel", cfg_text=cfg, coverage=True, workers=4, timeout=1800)

    nstates = {}
    for tag, out in _par(one, ["dump", "hist", "chan"]):
        what = {"dump": "Adapter.tla(all kinds,view)", "hist": "Adapter.tla(all kinds,hist<=%d)" % maxhist,
                "chan": "Channel.tla(caps 0..3,hist<=%d)" % (maxhist + 1)}[tag]
        if tag != "dump":
            _check_run(res, out, what)
            continue
        r, states, init, edges = out
        if not _check_run(res, r, what):
            continue
        gs = {}
        for (s, d, name, args) in edges:
            a = (bool(args[0]), int(args[1]), bool(args[2]), bool(args[3]))
            kc = (states[s]["kind"], bool(states[s]["cfirst"]))
            g = gs.setdefault(kc, {})
            dst = (_a_key(states[d]["st"]), states[d]["out"])
            old = g.setdefault(_a_key(states[s]["st"]), {}).get(a)
            if old is not None and old != dst:
                raise MachineryError("Adapter graph %s: outputs depend on more than st at %s %s" % (kc, s, a))
            g[_a_key(states[s]["st"])][a] = dst
        want = {(k, cf) for k in ADAPTER_KINDS for cf in _cfs(k)}
        if set(gs) != want or len(init) != len(want):
            raise MachineryError("Adapter graph: kinds %s, expected %s" % (sorted(gs), sorted(want)))
        for i in init:
            if _a_key(states[i]["st"]) != A_INIT:
                raise MachineryError("Adapter graph: unexpected initial state %s" % states[i])
        for (k, cf), g in gs.items():
            for s, acts in g.items():
                n = (1 if s[2] else 1 + len(MSGS)) * (1 if s[3] else 2) * 2
                if len(acts) != n:
                    raise MachineryError("Adapter graph %s: %d actions at %s, expected %d" % (k, len(acts), s, n))
            _AG[(k, cf)] = g
            nstates["%s%s" % (k, "" if k != "fl2rtl" else ("/clear-first" if cf else "/caller-first"))] = len(g)
    res.note("adapter_model_check", {"invariants": list(_A_INVS), "properties": list(_A_PROPS), "max_accepted": maxhist,
                                     "adapter_states(st)": nstates, "channel_caps": [0, 1, 2, 3]})


def a_diff(obs, exp):
    if obs.get("illegal"):
        return obs["illegal"]
    for f in A_FIELDS:
        o = obs.get(f)
        if f == "deq_msg":
            e = exp["deq_msg"][0] if exp["deq_msg"] else None
            if exp["deq_xfer"] and o is None:
                return "deq_msg"
            if o is not None and o != e:
                return "deq_msg"
            continue
        if o is None:
            continue
        if o != exp[f]:
            return f
    return None


def a_perturb(exp, obs, i):
    """A wrong expectation that the observation must contradict (None when this observation cannot)."""
    e2 = dict(exp)
    which = i % 5
    if which == 0:
        e2["deq_xfer"] = not e2["deq_xfer"]
    elif which == 1:
        e2["enq_xfer"] = not e2["enq_xfer"]
    elif which == 2:
        if obs.get("count2") is None:
            return None
        e2["count2"] = e2["count2"] + 1
    elif which == 3:
        if not exp["deq_msg"] or obs.get("deq_msg") is None:
            return None
        e2["deq_msg"] = (exp["deq_msg"][0] % len(MSGS) + 1,)
    else:
        if obs.get("enq_rdy") is None:
            return None
        e2["enq_rdy"] = not e2["enq_rdy"]
    return e2


def a_step(dut, act):
    return dut.cycle(*act)


# entries that are known not to elaborate on the unchanged tree, with the error that identifies the cause
_KNOWN_UNBUILDABLE = {
    "ifcs.GetRTL2GiveCL": ("VarNotDeclaredError", 'Field "msg"'),
    "hook.GiveIfcRTL=CalleeIfcCL<CallerIfcCL": ("InvalidConnectionError", '"ret" field'),
}


_SPLIT_SCHEDS = (None, None, 0, 1, 2, 3, 4, 5)     # scheduler variants tried for the split-caller designs


def _make_adapter(name, cls, cf=None, tries=40, sched=None):
    import c17_adapters
    for _ in range(tries):
        d = c17_adapters.make(name, cls, sched)
        if cf is None or d.clear_first() is None or d.clear_first() == cf:
            return d
    return None


_PROBE_DO = (0, 0, 1, 1, 0, 1, 1, 1, 0, 0, 1, 0, 1, 1, 0, 1)
A_CAPOF = {"rtl2cl": 0, "and": 0, "fl2cl": 1, "fl2rtl": 2}        # Adapter!CapOf; every other kind: 1
_NEVER_READY_REPRO = {"RecvRTL2GiveFL": "repro/C17/repro_rtl2givefl_never_ready.py"}


def never_ready_probe(name, cls):
    """C17 states ready/valid rules for the library QUEUES; for an adapter it only gives the channel clauses.
    An adapter that never accepts anything loses nothing: its being LESS ready than Adapter.tla (a model of
    the code's kind) is an observation, not a violation.  The probe drives a fresh design from the empty state
    with a standing offer and a varying consumer for len(_PROBE_DO) cycles.  Returns a description when the
    adapter was never ready, never took a message and never delivered anything; None as soon as it accepts a
    message (then the full walk and every clause apply)."""
    d = _make_adapter(name, cls)
    seen = []
    for i, do in enumerate(_PROBE_DO):
        eo = not d.pblk()
        do = bool(do) or d.cblk()
        try:
            o = d.cycle(eo, 1 + i % len(MSGS), do)
        except MachineryError:
            raise
        except Exception:
            return None                                     # a crash is for the walk to report
        if o.get("illegal") or o["enq_xfer"] or o["deq_xfer"] or o["enq_rdy"]:
            return None
        seen.append(o["enq_rdy"])
    if not any(x is False for x in seen):
        return None                                         # readiness was never observable
    return {"cycles": len(_PROBE_DO), "enq_rdy": "low in every cycle from the empty state, standing offer, consumer "
            "ready in %d of %d cycles" % (sum(_PROBE_DO), len(_PROBE_DO)), "accepted": 0, "delivered": 0,
            "repro": _NEVER_READY_REPRO.get(cls)}


def _adapter_walk_job(job):
    import c17_adapters
    name, kind, cls, cf, sched = job
    try:
        dead = never_ready_probe(name, cls)
    except c17_adapters.Unbuildable as e:
        return {"name": name, "kind": kind, "unbuildable": str(e)}
    if dead is not None:
        return {"name": name, "kind": kind, "cls": cls, "never_ready": dead}
    try:
        first = _make_adapter(name, cls, cf, sched=sched)
    except c17_adapters.Unbuildable as e:
        return {"name": name, "kind": kind, "unbuildable": str(e)}
    if first is None:
        return {"name": name, "kind": kind, "cf": cf, "order_not_found": True}
    cfx = first.clear_first()
    cfx = True if cfx is None else cfx
    box = [first]

    def factory():
        if box:
            return box.pop()
        d = _make_adapter(name, cls, cfx, sched=sched)
        if d is None:
            raise MachineryError("%s: could not rebuild the design with the same block order" % name)
        return d

    r = walk(factory, _AG[(kind, cfx)], A_INIT, a_step, a_diff, name, perturb=a_perturb, obs_fields=A_FIELDS)
    r.update({"kind": kind, "cf": cfx, "signames": first.signames(), "sched": first.sched, "variant": sched})
    return r


def _a_detail(r, v):
    return {"dut": r["name"], "kind": r["kind"], "clear_first": r.get("cf"), "path": [list(a) for a in v["path"]],
            "act": list(v["act"]), "clause": v["clause"], "expected": _a_short(v["expected"]),
            "observed": v["observed"], "control_state": v["sig"], "spec_state": _a_state_str(v["state"])}


def _a_short(d):
    return {k: ((v[0] if v else None) if k == "deq_msg" and isinstance(v, tuple) else v) for k, v in d.items()
            if k in A_FIELDS}


def adapter_walks(res, cat):
    jobs = []
    for e in cat:
        for cf in ((True, False) if e.kind == "fl2rtl" else (None,)):
            for k, sched in enumerate(_SPLIT_SCHEDS if e.name.startswith("split.") else (None,)):
                jobs.append((e.name, e.kind, e.cls, cf, sched))
    with _pool() as ex:
        results = list(ex.map(_adapter_walk_job, jobs))
    table, skipped, orders, observations, split_scheds = {}, [], {}, {}, {}
    for r in results:
        name = r["name"]
        if "unbuildable" in r:
            known = _KNOWN_UNBUILDABLE.get(name)
            if known and r["unbuildable"].startswith(known[0]) and known[1] in r["unbuildable"]:
                skipped.append(name)
                res.assume("%s cannot be elaborated on the unchanged tree (%s...); it is checked as a one-entry bypass "
                           "queue as soon as it can be built" % (name, r["unbuildable"][:150]))
                continue
            res.violation("build:%s:%s" % (name, r["unbuildable"].split(":")[0]),
                          "%s cannot be elaborated: %s" % (name, r["unbuildable"]), r)
            continue
        if "never_ready" in r:
            observations[name] = dict(r["never_ready"], kind=r["kind"], cls=r["cls"],
                                      model="Adapter.tla(%s) is ready whenever its buffer is empty" % r["kind"])
            res.count("adapter_observations_count")
            res.assume("%s never raises its ready output and never accepts a message (observation, see "
                       "adapter_observations%s): an adapter that accepts nothing loses nothing, so only the channel "
                       "clauses are demanded of it; the ready-exactness clauses and the walk apply again as soon as it "
                       "accepts a message" % (name, "; " + r["never_ready"]["repro"] if r["never_ready"]["repro"] else ""))
            continue
        if r.get("order_not_found"):
            orders.setdefault(name, {})["clear-first" if r["cf"] else "caller-first"] = "not produced by the scheduler"
            continue
        if r["kind"] == "fl2rtl":
            orders.setdefault(name, {})["clear-first" if r["cf"] else "caller-first"] = "walked"
        res.add_evals(r["cycles"])
        res.count("adapter_spec_to_code_transitions_replayed", r["edges"])
        res.distinct(("adapter-walk", name, r["cf"], tuple(r["sched"])))
        if name.startswith("split."):
            split_scheds.setdefault(name, set()).add(" ".join(x for x in r["sched"] if not x.startswith("s_")))
        table["%s%s" % (name, "" if r["kind"] != "fl2rtl" else ("/clear-first" if r["cf"] else "/caller-first"))] = [
            r["product_states"], r["edges"]]
        for v in r["violations"]:
            key = "replay:%s:%s:%s" % (name, v["clause"], _a_state_str(v["state"]))
            how = ("output %s differs from Adapter.tla" % v["clause"] if v["clause"] in A_FIELDS
                   else "%s (seen by the harness driver)" % v["clause"])
            res.violation(key, "%s (adapter kind %s): in state %s, offer %s -> %s: expected %s, observed %s"
                          % (name, r["kind"], _a_state_str(v["state"]), _a_act_str(v["act"]), how,
                             _a_short(v["expected"]), {k: x for k, x in v["observed"].items() if x is not None}),
                          _a_detail(r, v))
        if not r["violations"] and r["spec_states"] != r["spec_states_total"]:
            raise MachineryError("%s: only %d of %d spec states reached without any mismatch"
                                 % (name, r["spec_states"], r["spec_states_total"]))
    for name, o in orders.items():
        if "walked" not in o.values() and name not in observations:
            raise MachineryError("%s: no block order could be walked: %s" % (name, o))
    res.note("adapter_walks_productstates_edges", table)
    res.note("adapters_not_buildable_on_this_tree", skipped)
    res.note("adapter_observations", observations)
    res.note("split_caller_adapter_schedules_walked", {k: sorted(v) for k, v in split_scheds.items()})
    res.note("fl2rtl_block_orders", orders)
    ok = [r for r in results if "edges" in r]
    if ok:
        r0 = ok[0]
        res.sample({"kind": "adapter spec->code walk", "dut": r0["name"], "product_states": r0["product_states"],
                    "transitions": r0["edges"], "control_signals": r0["signames"], "schedule": r0["sched"][:12]})
    return results


# ---- software adapters: independent model (cross-check of the spec) and faulty variants (canaries)

class SoftAdapter:
    """The adapters as plain Python in the order their blocks run, written independently of Adapter.tla.
    fault None: must agree with the state graph everywhere.  Faults:
      dup       the buffer is not cleared after every 2nd delivery (the message is delivered again)
      drop      every 2nd accepted message is not stored
      rdy       ready towards the producer although the buffer is occupied (the old message is overwritten)
      invent    a wire adapter delivers the idle bus value when the consumer is ready and nothing is offered
      norst     rtl2cl ignores reset
      early     an FL producer call returns although nothing was stored / sent"""

    def __init__(self, kind, cf=True, fault=None):
        self.kind, self.cf, self.fault = kind, cf, fault
        self.entry = None
        self.sent = False
        self.pend = None
        self.cwait = False
        self.np = self.nd = 0

    def sig(self):
        s = (int(self.pend is not None), int(self.cwait), int(self.entry is not None), int(self.sent))
        return s + ((self.np % 2, self.nd % 2) if self.fault in ("dup", "drop") else ())

    def clear_first(self):
        return self.cf

    def pblk(self):
        return self.pend is not None

    def cblk(self):
        return self.cwait

    def cycle(self, eo, m, do, rst=False):
        k, f = self.kind, self.fault
        o = {x: None for x in A_FIELDS}
        o["enq_xfer"] = o["deq_xfer"] = False
        flp, flc = k in ("fl2cl", "fl2rtl"), k in ("cl2fl", "rtl2fl")
        offer = self.pend if self.pend is not None else (m if eo else None)
        if flp:
            o["enq_xfer"] = bool(eo)
            o["ret"] = False

        def put(x):
            self.np += 1
            if not (f == "drop" and self.np % 2 == 0):
                self.entry = x

        def take():
            x = self.entry
            self.nd += 1
            if not (f == "dup" and self.nd % 2 == 0):
                self.entry = None
            return x

        if k in ("rtl2cl", "and"):
            rdy = bool(do) and not (k == "rtl2cl" and rst and f != "norst")
            o["enq_rdy"] = rdy
            if eo and rdy:
                o["enq_xfer"] = o["deq_xfer"] = True
                o["deq_msg"] = m
            elif f == "invent" and do and not eo:
                o["deq_xfer"] = True
                o["deq_msg"] = 0x7EADBEEF
        elif k == "fl2cl":
            if offer is not None and do:
                o["deq_xfer"], o["deq_msg"], o["ret"] = True, offer, True
                self.pend = None
            elif offer is not None and f == "early":
                o["ret"] = True
                self.pend = None
            else:
                self.pend = offer
        elif k in ("cl2rtl", "cl2val", "fl2rtl"):
            late_clear = k == "fl2rtl" and not self.cf
            if self.sent and not late_clear:
                self.entry = None
            if k == "fl2rtl":
                o["enq_rdy"] = self.entry is None if eo else None
                if offer is not None and (self.entry is None or f == "rdy"):
                    put(offer)
                    self.pend = None
                    o["ret"] = True
                elif offer is not None and f == "early":
                    self.pend = None
                    o["ret"] = True
                else:
                    self.pend = offer
                if self.sent and late_clear:
                    self.entry = None
            else:
                o["enq_rdy"] = self.entry is None or f == "rdy"
                if eo and o["enq_rdy"]:
                    put(m)
                    o["enq_xfer"] = True
            val = self.entry is not None
            o["deq_rdy"] = val if (k == "cl2val" or do) else None
            self.sent = False
            if val and do:
                o["deq_xfer"], o["deq_msg"] = True, self.entry
                self.nd += 1
                self.sent = not (f == "dup" and self.nd % 2 == 0)
            elif val and k == "cl2val":
                o["deq_msg"] = self.entry
        elif k in ("get2cl", "rtl2fl"):
            rdy = self.entry is None or f == "rdy"
            o["enq_rdy"] = rdy if (k == "rtl2fl" or eo) else None
            if eo and rdy:
                put(m)
                o["enq_xfer"] = True
            if k == "get2cl":
                o["deq_rdy"] = self.entry is not None
            if do and self.entry is not None:
                o["deq_xfer"], o["deq_msg"] = True, take()
                self.cwait = False
            elif flc:
                self.cwait = bool(do)
        elif k in ("val2cl", "cl2fl"):
            if k == "val2cl":
                o["deq_rdy"] = self.entry is not None
            if do and self.entry is not None:
                o["deq_xfer"], o["deq_msg"] = True, take()
                self.cwait = False
            elif flc:
                self.cwait = bool(do)
            o["enq_rdy"] = self.entry is None or f == "rdy"
            if eo and o["enq_rdy"]:
                put(m)
                o["enq_xfer"] = True
        else:
            raise MachineryError("SoftAdapter: unknown kind %s" % k)
        o["pblk"], o["cblk"] = self.pend is not None, self.cwait
        if k in ("rtl2cl", "and", "fl2cl"):
            o["count2"] = int(o["pblk"])
            if o["deq_xfer"]:
                o["deq_rdy"] = True
        else:
            o["ent2"] = int(self.entry is not None)
            o["clr2"] = bool(self.sent)
            o["count2"] = (0 if self.sent else o["ent2"]) + int(o["pblk"])
        return o


_A_FAULTS = (("cl2rtl", True, "dup"), ("cl2rtl", True, "drop"), ("cl2val", True, "rdy"), ("rtl2cl", True, "invent"),
             ("rtl2cl", True, "norst"), ("get2cl", True, "dup"), ("val2cl", True, "drop"), ("val2cl", True, "rdy"),
             ("fl2cl", True, "early"), ("fl2rtl", True, "rdy"), ("fl2rtl", False, "early"), ("fl2rtl", False, "dup"),
             ("cl2fl", True, "dup"), ("rtl2fl", True, "drop"), ("and", True, "invent"))


def adapter_walk_canaries(res):
    n = 0
    for (k, cf), g in sorted(_AG.items()):
        r = walk(lambda: SoftAdapter(k, cf), g, A_INIT, a_step, a_diff, "soft-" + k)
        if r["violations"] or r["spec_states"] != len(g):
            v = r["violations"][:1]
            raise MachineryError("Adapter.tla(%s, ClearFirst=%s) and the independent software model disagree: %s"
                                 % (k, cf, [(x["clause"], _a_state_str(x["state"]), x["act"], _a_short(x["expected"]),
                                             x["observed"]) for x in v]))
        n += r["edges"]
    res.note("adapter_spec_vs_independent_model_transitions", n)
    rej = 0
    for k, cf, fault in _A_FAULTS:
        r = walk(lambda: SoftAdapter(k, cf, fault), _AG[(k, cf)], A_INIT, a_step, a_diff, "faulty-%s-%s" % (k, fault), limit=3)
        if not r["violations"]:
            raise MachineryError("walk canary: faulty adapter (%s, %s) was not noticed" % (k, fault))
        rej += 1
    res.note("adapter_walk_canaries_rejected", rej)


# ---- code -> spec

_MODES = ((0.9, 0.1), (0.1, 0.9), (0.95, 0.95), (0.3, 0.3), (1.0, 0.5), (0.5, 1.0), (0.6, 0.0), (0.0, 0.6))


def _b(v):
    return 2 if v is None else int(bool(v))


def _n(v):
    return -1 if v is None else int(v)


def a_event(obs, eo, m, do, rst):
    return {"k": "cycle", "eo": int(eo), "m": int(m) if eo else 0, "do": int(do), "rst": int(rst), "er": _b(obs["enq_rdy"]),
            "dr": _b(obs["deq_rdy"]), "ex": int(obs["enq_xfer"]), "dx": int(obs["deq_xfer"]), "ret": _b(obs["ret"]),
            "dm": _n(obs["deq_msg"]), "c2": _n(obs["count2"]), "ent2": 2 if obs["ent2"] is None else int(obs["ent2"]),
            "clr2": _b(obs["clr2"]), "pb": int(bool(obs["pblk"])), "cb": int(bool(obs["cblk"])),
            "bad": obs.get("illegal", "") or ""}


def _crash_event(eo, m, do, rst, e):
    return {"k": "cycle", "eo": int(eo), "m": int(m) if eo else 0, "do": int(do), "rst": int(rst), "er": 2, "dr": 2,
            "ex": 0, "dx": 0, "ret": 2, "dm": -1, "c2": -1, "ent2": 2, "clr2": 2, "pb": 0, "cb": 0,
            "bad": "raises-" + type(e).__name__}


def record(dut, R, length, kind, cf, cap=0, drain=6, resets=True):
    """One bursty random offer history; every offered message carries a fresh serial number.  A blocked FL caller
    keeps its offer.  The history ends with a drain phase (consumer ready, no offers) and an `empty` event."""
    ev = []
    serial = 1
    left = 0
    pe = pd = 0.5
    ended = False
    for i in range(length + drain):
        draining = i >= length
        if left == 0:
            pe, pd = R.choice(_MODES)
            left = R.randint(3, 14)
        left -= 1
        eo, do = (False, True) if draining else (R.random() < pe, R.random() < pd)
        rst = resets and not draining and R.random() < 0.03
        if dut.pblk():
            eo = False
        if dut.cblk():
            do = True
        try:
            obs = dut.cycle(eo, serial, do, rst)
        except MachineryError:
            raise
        except Exception as e:
            ev.append(_crash_event(eo, serial, do, rst, e))
            ended = True
            break
        ev.append(a_event(obs, eo, serial, do, rst))
        if eo:
            serial += 1
    if not ended:
        ev.append({"k": "empty"})
    return {"kind": kind, "cf": int(bool(cf)), "cap": cap, "ev": ev}


def _adapter_trace_job(job):
    import c17_adapters
    tag, name, kind, cls, cap, depth, idx, length = job
    try:
        dut = c17_adapters.make(name, cls, _SPLIT_SCHEDS[(idx + 1) % len(_SPLIT_SCHEDS)] if name.startswith("split.") else None)
    except c17_adapters.Unbuildable as e:
        return {"dut": name, "idx": idx, "unbuildable": str(e)}
    cf = dut.clear_first()
    R = rng("c17/adapter/%s/%d" % (name, idx))
    if tag == "adapter" and never_ready_probe(name, cls) is not None:
        # never ready (an observation): the history is judged on the channel clauses only
        t = record(dut, R, length, "chan", True, cap=A_CAPOF.get(kind, 1), drain=6)
        t["dut"], t["idx"], t["tag"] = name, idx, "never-ready"
        return t
    if tag == "chain":
        t = record(dut, R, length, "chan", True, cap=cap, drain=2 * (depth + cap) + 6, resets=False)
        t["inserted"] = dut.inserted()
    else:
        t = record(dut, R, length, kind, True if cf is None else cf)
    t["dut"], t["idx"], t["tag"] = name, idx, tag
    return t


def adapter_traces(res, cat, chs, per, lmin, lmax):
    R = rng("c17-adapter-lengths")
    jobs = []
    for e in cat:
        for i in range(per):
            jobs.append(("adapter", e.name, e.kind, e.cls, 0, 0, i, R.randint(lmin, lmax)))
    for c in chs:
        for i in range(per):
            jobs.append(("chain", c.name, "chan", None, c.cap, c.depth, i, R.randint(lmin, lmax)))
    with _pool() as ex:
        traces = list(ex.map(_adapter_trace_job, jobs, chunksize=2))
    want_ins = {c.name: c.inserted for c in chs}
    good = []
    for t in traces:
        if "unbuildable" in t:
            if t["dut"] not in _KNOWN_UNBUILDABLE:
                res.violation("build:%s:%s" % (t["dut"], t["unbuildable"].split(":")[0]),
                              "%s cannot be elaborated: %s" % (t["dut"], t["unbuildable"]), t)
            continue
        if t["tag"] == "chain":
            ins = t["inserted"]
            for cls, n in want_ins[t["dut"]].items():
                if ins.get(cls, 0) < n:
                    raise MachineryError("%s: the connect hooks inserted %s, expected at least %d x %s"
                                         % (t["dut"], ins, n, cls))
        good.append(t)
    nev = sum(len(t["ev"]) for t in good)
    res.add_evals(nev)
    payload = [{"kind": t["kind"], "cf": t["cf"], "cap": t["cap"], "ev": t["ev"]} for t in good]
    runs, verdicts = tlc.validate_traces("AdapterTrace", {"traces": payload},
                                         chunk=max(1, min(40, len(payload) // 16 + 1)))
    for r in runs:
        res.add_tlc(r)
        for p in r.prints:
            if p and p[0] == "T":
                res.count("adapter_transfers_accepted_in_traces", p[2])
                res.count("adapter_transfers_delivered_in_traces", p[3])
    res.add_traces(len(good))
    ok = []
    for t, (err, pos) in zip(good, verdicts):
        res.distinct(("adapter-trace", t["dut"], t["idx"]))
        if err == "ok":
            ok.append(t)
            continue
        e = t["ev"][pos - 1]
        # one key for "the messages delivered are not the messages accepted" (a composition shows the same
        # root cause as a wrong value at delivery or as a delivered object that changes later)
        corrupt = err.startswith("wrong-message") or (t["kind"] == "chan" and err == "delivered-message-changed-after-delivery")
        key = "trace:%s:%s" % (t["dut"], "wrong-message" if corrupt else err)
        model = "Channel.tla(cap=%d)" % t["cap"] if t["kind"] == "chan" else "Adapter.tla(%s)" % t["kind"]
        res.violation(key, "%s (model %s): %s at cycle %d of a random offer history: %s" % (t["dut"], model, err, pos, e),
                      {"dut": t["dut"], "idx": t["idx"], "clause": err, "event": pos, "model": model,
                       "prefix": t["ev"][max(0, pos - 12):pos]})
    # non-vacuity: every design that validated moved messages; full / blocked boundaries were touched
    by = {}
    for t in ok:
        cyc = [e for e in t["ev"] if e["k"] == "cycle"]
        d = by.setdefault(t["dut"], {"acc": 0, "del": 0, "pb": 0, "cb": 0, "full": 0})
        d["acc"] += sum(e["ex"] for e in cyc)
        d["del"] += sum(e["dx"] for e in cyc)
        d["pb"] += sum(e.get("pb", 0) for e in cyc)
        d["cb"] += sum(e.get("cb", 0) for e in cyc)
        d["full"] += sum(1 for e in cyc if e.get("er") == 0 and e["eo"])
    dead = {t["dut"] for t in good if t["tag"] == "never-ready"}
    res.note("adapter_histories_judged_on_channel_clauses_only", sorted(dead))
    for name, d in by.items():
        if name in dead and not d["acc"]:
            continue
        if not (d["acc"] and d["del"]):
            raise MachineryError("vacuous histories for %s: %s" % (name, d))
    res.note("adapter_trace_events", nev)
    res.note("adapter_trace_hits", {k: by[k] for k in sorted(by)})
    if ok:
        t = ok[len(ok) // 2]
        res.sample({"kind": "adapter impl trace", "dut": t["dut"], "model": t["kind"], "events": len(t["ev"]),
                    "first": t["ev"][:2]})
    return ok


class SoftChain:
    """Two software adapters / queues in series (cl2rtl -> val2cl style), for the composition canaries."""

    def __init__(self, fault=None):
        self.a = SoftAdapter("val2cl", True, fault)
        self.b = SoftAdapter("val2cl", True, None)

    def pblk(self):
        return False

    def cblk(self):
        return False

    def cycle(self, eo, m, do, rst=False):
        ob = self.b.cycle(False, 0, do)                    # consumer side first (pipe order), then refill b from a
        mid_do = self.b.entry is None
        oa = self.a.cycle(eo, m, mid_do)
        if oa["deq_xfer"]:
            self.b.entry = oa["deq_msg"]
        o = {x: None for x in A_FIELDS}
        o.update({"enq_xfer": oa["enq_xfer"], "deq_xfer": ob["deq_xfer"], "deq_msg": ob["deq_msg"], "enq_rdy": oa["enq_rdy"],
                  "pblk": False, "cblk": False})
        return o


def adapter_trace_canaries(res, ok):
    can, what, want = [], [], {}
    R = rng("c17-adapter-canary")
    pool = [t for t in ok if sum(1 for e in t["ev"] if e["k"] == "cycle" and e["dx"] and e["dm"] != -1) >= 4]
    R.shuffle(pool)
    pool.sort(key=lambda t: t["kind"] == "chan")          # both adapter and composition histories get corrupted
    pick = pool[:24] + pool[-16:]
    for t in pick:
        c = {"kind": t["kind"], "cf": t["cf"], "cap": t["cap"], "ev": copy.deepcopy(t["ev"])}
        dl = [i for i, e in enumerate(c["ev"]) if e["k"] == "cycle" and e["dx"] and e["dm"] != -1]
        kind = len(can) % 5
        if kind == 0:                       # a delivered message replaced by a later one (the original is lost)
            c["ev"][dl[len(dl) // 2]]["dm"] += 1
        elif kind == 1:                     # two delivered messages swapped
            i, j = dl[len(dl) // 2 - 1], dl[len(dl) // 2]
            c["ev"][i]["dm"], c["ev"][j]["dm"] = c["ev"][j]["dm"], c["ev"][i]["dm"]
        elif kind == 2:                     # a message delivered twice
            i, j = dl[0], dl[1]
            c["ev"][j]["dm"] = c["ev"][i]["dm"]
        elif kind == 3:                     # a delivery erased from the history (message lost / stuck)
            c["ev"][dl[-1]]["dx"] = 0
            c["ev"][dl[-1]]["dm"] = -1
        else:                               # an invented message
            c["ev"][dl[len(dl) // 2]]["dm"] = 0x7EADBEEF
        can.append(c)
        what.append(("corrupt", t["kind"], kind))
    for k, cf, fault in _A_FAULTS:
        t = record(SoftAdapter(k, cf, fault), rng("c17-faulty-adapter-%s-%s" % (k, fault)), 300, k, cf)
        can.append({x: t[x] for x in ("kind", "cf", "cap", "ev")})
        what.append(("faulty", k, fault))
    # compositions: a correct software chain is accepted with the summed capacity, rejected with less; a
    # duplicating / dropping one is rejected
    for fault, cap, exp in ((None, 1, "occupancy-exceeds-capacity"), ("dup", 2, None), ("drop", 2, None)):
        t = record(SoftChain(fault), rng("c17-soft-chain-%s" % fault), 300, "chan", True, cap=cap, drain=10, resets=False)
        if exp:
            want[len(can)] = exp
        can.append({x: t[x] for x in ("kind", "cf", "cap", "ev")})
        what.append(("chain", fault, cap))
    t = record(SoftChain(None), rng("c17-soft-chain-ok"), 300, "chan", True, cap=2, drain=10, resets=False)
    can.append({x: t[x] for x in ("kind", "cf", "cap", "ev")})
    what.append(("chain-ok", None, 2))
    _, cv = tlc.validate_traces("AdapterTrace", {"traces": can})
    if cv[-1][0] != "ok":
        raise MachineryError("a correct software chain of two one-entry queues was rejected by Channel(2): %s" % (cv[-1],))
    acc = [what[i] for i, v in enumerate(cv[:-1]) if v[0] == "ok"]
    if acc:
        raise MachineryError("canary traces accepted by AdapterTrace: %s" % acc[:5])
    for i, clause in want.items():
        if cv[i][0] != clause:
            raise MachineryError("canary trace %s rejected as %s, expected %s" % (what[i], cv[i][0], clause))
    if len(can) < 20:
        raise MachineryError("too few adapter canary traces (%d)" % len(can))
    res.note("adapter_trace_canaries_rejected", len(can) - 1)
    res.note("adapter_trace_canary_clauses", sorted({v[0] for v in cv[:-1]}))


def model_check_jobs(res, quick):
    """The TLC runs of parts 6 and 7 (independent of everything else: run side by side with those of the queue
    part).  `res` must be safe to call from several threads."""
    return [lambda: adapter_model_check(res, 3 if quick else 5),
            lambda: regfile_model_check(res, list(_RF_SMALL if quick else _RF_MORE))]


def run_adapters(res, quick, lap):
    import c17_adapters
    cat, chs = c17_adapters.catalogue(), c17_adapters.chains()
    if not _AG:
        adapter_model_check(res, 3 if quick else 5)
    adapter_walks(res, cat)
    adapter_walk_canaries(res)
    lap("adapter_walks")
    ok = adapter_traces(res, cat, chs, 3 if quick else 40, 150, 400 if quick else 1500)
    lap("adapter_traces")
    adapter_trace_canaries(res, ok)
    lap("adapter_trace_canaries")
    res.note("rule_adapters", "spec->code: every transition (enq?, msg in 1..3, deq?, reset?; a blocked FL caller keeps its "
             "offer) of Adapter.tla from every reachable pair (adapter state, implementation control state) on every adapter "
             "class and every connect-hook design; code->spec: %d random bursty histories (150..%d cycles + drain, serial-number "
             "payloads, 3%% reset cycles) per adapter / hook design / composition; a case is one walk or one history"
             % (3 if quick else 40, 400 if quick else 1500))
    res.note("adapter_designs", {"adapters_and_hooks": [e.name for e in cat], "compositions": {c.name: c.cap for c in chs}})
    res.assume("adapters: a blocked FL caller keeps its offer (the harness cannot withdraw a call in progress); the "
               "order of RecvFL2SendRTL.up_clear and the calling block is read from the schedule and both orders are "
               "admitted; the buffer occupancy / pending clear of an adapter are read from s.entry / s.send.en (white box)")
    res.assume("compositions are judged on the channel property only (FIFO delivery, occupancy <= summed capacity, "
               "nothing left after a drain phase); their ready outputs are not pinned down")


# ============================================================================================
# 7. register files
# ============================================================================================

_RF_SMALL = (
    dict(n=3, rd=1, wr=1, vals=(0, 1, 2), cz=False, hr=False, rv=0),
    dict(n=3, rd=1, wr=1, vals=(0, 1, 2), cz=True, hr=True, rv=2),
    dict(n=2, rd=2, wr=2, vals=(0, 1), cz=True, hr=False, rv=0),
    dict(n=2, rd=1, wr=2, vals=(0, 1, 2), cz=False, hr=True, rv=1),
    dict(n=3, rd=1, wr=2, vals=(0, 1), cz=True, hr=True, rv=0),
    dict(n=2, rd=1, wr=2, vals=(0, 1), cz=False, hr=False, rv=0),
)       # all four write blocks (RegisterFile / RegisterFileRst x const_zero) are walked with two write ports
_RF_MORE = _RF_SMALL + (
    dict(n=4, rd=1, wr=1, vals=(0, 1, 2), cz=False, hr=False, rv=0),
    dict(n=3, rd=2, wr=2, vals=(0, 1), cz=False, hr=True, rv=1),
    dict(n=2, rd=3, wr=2, vals=(0, 1, 2), cz=True, hr=True, rv=0),
    dict(n=5, rd=1, wr=1, vals=(0, 1), cz=True, hr=False, rv=0),
)
_RG = {}        # shape key -> {regs: {act: (regs2, expected)}}


def _rf_key(sh):
    return (sh["n"], sh["rd"], sh["wr"], sh["vals"], sh["cz"], sh["hr"], sh["rv"])


def _rf_name(sh):
    return "n=%d,rd=%d,wr=%d,vals=%d,cz=%d,hr=%d,rv=%d" % (sh["n"], sh["rd"], sh["wr"], len(sh["vals"]), sh["cz"],
                                                           sh["hr"], sh["rv"])


def _rf_cfg(sh, prop="StepProps"):
    t = lambda b: "TRUE" if b else "FALSE"
    return ("SPECIFICATION Spec\nCONSTANTS NRegs = %d\n RdPorts = %d\n WrPorts = %d\n Vals = {%s}\n ConstZero = %s\n"
            " HasReset = %s\n ResetValue = %d\nVIEW View\nINVARIANT TypeOK\nINVARIANT ConstZeroInv\nPROPERTY %s\n"
            "CHECK_DEADLOCK FALSE\n" % (sh["n"], sh["rd"], sh["wr"], ", ".join(map(str, sh["vals"])), t(sh["cz"]),
                                        t(sh["hr"]), sh["rv"], prop))


def _fun_tuple(f, n):
    return tuple(f[a] for a in range(n))


def regfile_model_check(res, shapes):
    """RegFile.tla for every small shape: the invariants and the step properties (read data = contents before
    the edge, frame, last port wins, reset) on every transition; the same run dumps the state graph.  One more
    run must REFUTE a false step property (the step properties are not checked vacuously)."""
    jobs = [("dump", sh) for sh in shapes if _rf_key(sh) not in _RG] + [("canary", shapes[0])]

    def one(j):
        tag, sh = j
        if tag == "canary":
            return j, tlc.run("RegFile", cfg_text=_rf_cfg(sh, "CanaryNothingEverWritten"), workers=1, timeout=600)
        return j, _run_dump("RegFile", _rf_cfg(sh))

    table = {}
    for (tag, sh), out in _par(one, jobs):
        if tag == "canary":
            res.add_tlc(out)
            if "CanaryNothingEverWritten" not in out.violated:
                raise MachineryError("RegFile.tla: TLC did not refute the false step property (step properties are "
                                     "not being checked): %s %s\n%s" % (out.violated, out.errors, out.out[-1500:]))
            continue
        r, states, init, edges = out
        what = "RegFile.tla(%s)" % _rf_name(sh)
        if not _check_run(res, r, what):
            continue
        n = sh["n"]
        g = {}
        for (s, d, name, args) in edges:
            ra, rd, wa, wd, we, rst = args
            act = (tuple(ra), tuple(wa), tuple(wd), tuple(bool(x) for x in we), bool(rst))
            src, dst = _fun_tuple(states[s]["regs"], n), _fun_tuple(states[d]["regs"], n)
            exp = {"rdata": tuple(rd), "regs": dst}
            old = g.setdefault(src, {}).get(act)
            if old is not None and old != (dst, exp):
                raise MachineryError("%s: two different outcomes for %s at %s" % (what, act, src))
            g[src][act] = (dst, exp)
        want = (n ** sh["rd"]) * (n ** sh["wr"]) * (len(sh["vals"]) ** sh["wr"]) * (2 ** sh["wr"]) * 2
        for src, acts in g.items():
            if len(acts) != want:
                raise MachineryError("%s: %d actions at %s, expected %d" % (what, len(acts), src, want))
        init_regs = tuple((sh["rv"] if sh["hr"] else 0) for _ in range(n))
        if len(init) != 1 or _fun_tuple(states[next(iter(init))]["regs"], n) != init_regs:
            raise MachineryError("%s: unexpected initial state" % what)
        free = n - (1 if sh["cz"] else 0)
        if len(g) < len(sh["vals"]) ** free:
            raise MachineryError("%s: only %d register contents reached" % (what, len(g)))
        _RG[_rf_key(sh)] = g
        table[_rf_name(sh)] = [len(g), sum(len(a) for a in g.values())]
    res.note("regfile_model_check", {"invariants": ["TypeOK", "ConstZeroInv"],
                                     "step_properties": ["ReadExact", "Frame", "LastPortWins", "ResetExact"],
                                     "refuted_as_expected": "CanaryNothingEverWritten",
                                     "shapes_states_transitions": table})


def _rf_clause(before, act, got, exp, sh):
    """Name of the first thing that is wrong with the contents after the edge."""
    ra, wa, wd, we, rst = act
    for a in range(len(exp)):
        if got[a] == exp[a]:
            continue
        writers = [i for i in range(len(wa)) if we[i] and wa[i] == a]
        if sh["hr"] and rst:
            return "reset-value-not-loaded"
        if sh["cz"] and a == 0:
            return "const-zero-register-changed"
        if not writers:
            return "register-changed-without-write"
        if got[a] == before[a]:
            return "write-lost:writers=%d" % len(writers)
        return "wrong-value-written:writers=%d" % len(writers)
    return None


def rf_diff(obs, exp):
    if obs.get("illegal"):
        return obs["illegal"]
    for i, (o, e) in enumerate(zip(obs["rdata"], exp["rdata"])):
        if o != e:
            return "read-data-differs-from-contents"
    if tuple(obs["regs"]) != tuple(exp["regs"]):
        return _rf_clause(exp["before"], exp["act"], obs["regs"], exp["regs"], exp["sh"])
    return None


def rf_perturb(exp, obs, i):
    e2 = dict(exp)
    if i % 2 == 0:
        e2["rdata"] = (exp["rdata"][0] + 1,) + tuple(exp["rdata"][1:])
    else:
        r = list(exp["regs"])
        r[-1] += 1
        e2["regs"] = tuple(r)
    return e2


def rf_step(dut, act):
    return dut.cycle(*act)


def _rf_graph_for_walk(sh):
    """The dumped graph with what rf_diff needs to name a mismatch."""
    g = _RG[_rf_key(sh)]
    return {src: {act: (dst, dict(exp, before=src, act=act, sh=sh)) for act, (dst, exp) in acts.items()}
            for src, acts in g.items()}


def _rf_shape_obj(sh, typ):
    import c17_regfile
    return c17_regfile.Shape("RegisterFileRst" if sh["hr"] else "RegisterFile", typ, sh["n"], sh["rd"], sh["wr"],
                             sh["cz"], sh["rv"])


def _rf_walk_job(job):
    import c17_regfile
    sh, typ = job
    so = _rf_shape_obj(sh, typ)
    g = _rf_graph_for_walk(sh)
    init = tuple((sh["rv"] if sh["hr"] else 0) for _ in range(sh["n"]))
    first = c17_regfile.make(so)
    r = {"name": so.name(), "sh": sh, "typ": typ}
    if first.regs() != init:
        r.update({"init_mismatch": list(first.regs()), "violations": [], "edges": 0, "cycles": 0, "product_states": 0,
                  "spec_states": 0, "spec_states_total": len(g)})
        return r
    box = [first]
    r.update(walk(lambda: box.pop() if box else c17_regfile.make(so), g, init, rf_step, rf_diff, so.name(),
                  perturb=rf_perturb))
    r["name"] = so.name()
    return r


def regfile_walks(res, shapes):
    jobs = [(sh, typ) for sh in shapes for typ in ("b8", "struct")]
    with _pool() as ex:
        results = list(ex.map(_rf_walk_job, jobs))
    table = {}
    for r in results:
        name = r["name"]
        if "init_mismatch" in r:
            res.violation("replay:%s:%s" % (name, "reset-value-not-loaded" if r["sh"]["hr"] else "initial-contents-not-zero"),
                          "%s: contents after sim_reset() are %s" % (name, r["init_mismatch"]), r)
            continue
        res.add_evals(r["cycles"])
        res.count("regfile_spec_to_code_transitions_replayed", r["edges"])
        res.distinct(("regfile-walk", name))
        table[name] = [r["product_states"], r["edges"]]
        for v in r["violations"]:
            res.violation("replay:%s:%s" % (name, v["clause"]),
                          "%s: contents %s, ports (raddr, waddr, wdata, wen, reset) = %s -> %s: RegFile.tla expects rdata %s "
                          "and contents %s, observed %s" % (name, list(v["state"]), [list(x) if isinstance(x, tuple) else x
                                                                                     for x in v["act"]], v["clause"],
                                                            list(v["expected"]["rdata"]), list(v["expected"]["regs"]),
                                                            v["observed"]),
                          {"dut": name, "shape": r["sh"], "type": r["typ"], "path": [list(map(list, a[:4])) + [a[4]] for a in v["path"]],
                           "act": list(map(list, v["act"][:4])) + [v["act"][4]], "clause": v["clause"],
                           "expected": {"rdata": list(v["expected"]["rdata"]), "regs": list(v["expected"]["regs"])},
                           "observed": v["observed"]})
        if not r["violations"] and r["spec_states"] != r["spec_states_total"]:
            raise MachineryError("%s: only %d of %d register contents reached without any mismatch"
                                 % (name, r["spec_states"], r["spec_states_total"]))
    res.note("regfile_walks_states_edges", table)
    ok = [r for r in results if r.get("edges")]
    if ok:
        res.sample({"kind": "regfile spec->code walk", "dut": ok[0]["name"], "states": ok[0]["product_states"],
                    "transitions": ok[0]["edges"]})


_RF_FAULTS = ("first-wins", "wrong-reg", "cz-port", "cz-off", "rst-skip-last", "forward", "lose-write")


def _rf_soft_job(job):
    import c17_regfile
    sh, fault = job
    so = _rf_shape_obj(sh, "b8")
    init = tuple((sh["rv"] if sh["hr"] else 0) for _ in range(sh["n"]))
    g = _rf_graph_for_walk(sh)
    r = walk(lambda: c17_regfile.SoftRegFile(so, fault), g, init, rf_step, rf_diff,
             ("faulty-%s" % fault) if fault else "soft-" + so.name(), limit=2 if fault else MAX_VIOL_PER_DUT)
    return {"sh": sh, "fault": fault, "edges": r["edges"], "complete": r["spec_states"] == len(g),
            "violations": [(v["clause"], v["state"], v["act"]) for v in r["violations"]]}


def regfile_walk_canaries(res, shapes):
    """The independent software register file must agree with every dumped graph; each injected fault must be
    noticed on the first shape that can show it."""
    jobs = [(sh, None) for sh in shapes]
    for fault in _RF_FAULTS:
        sh = next((sh for sh in shapes if not ((fault in ("first-wins", "cz-port") and sh["wr"] < 2) or
                                               (fault in ("cz-port", "cz-off") and not sh["cz"]) or
                                               (fault == "rst-skip-last" and not sh["hr"]))), None)
        if sh is None:
            raise MachineryError("walk canary: no shape for fault %s" % fault)
        jobs.append((sh, fault))
    with _pool() as ex:
        results = list(ex.map(_rf_soft_job, jobs))
    n, rej = 0, {}
    for r in results:
        if r["fault"] is None:
            if r["violations"] or not r["complete"]:
                raise MachineryError("RegFile.tla(%s) and the independent software model disagree: %s"
                                     % (_rf_name(r["sh"]), r["violations"][:2]))
            n += r["edges"]
        elif not r["violations"]:
            raise MachineryError("walk canary: faulty register file (%s, %s) was not noticed" % (r["fault"], _rf_name(r["sh"])))
        else:
            rej[r["fault"]] = sorted({v[0] for v in r["violations"]})
    res.note("regfile_spec_vs_independent_model_transitions", n)
    res.note("regfile_walk_canaries_rejected", rej)


# ---- code -> spec

_RF_TYPES = ("b1", "b8", "b16", "b31", "b32", "struct")


def _rf_random_shapes(R, count, nregs_pool):
    import c17_regfile
    out = []
    for i in range(count):
        n = nregs_pool[i % len(nregs_pool)]
        typ = _RF_TYPES[(i // 2) % len(_RF_TYPES)]
        cls = "RegisterFileRst" if (i + i // 5) % 2 else "RegisterFile"
        lim = min(2 ** c17_regfile.type_nbits(typ), 2 ** 31)
        rv = R.randrange(lim) if cls == "RegisterFileRst" and R.random() < 0.7 else 0
        out.append(c17_regfile.Shape(cls, typ, n, 1 + (i % 3), 1 + ((i // 3) % 2), R.random() < 0.5, rv))
    return out


def rf_record(dut, R, length, sh, nbits):
    lim = min(2 ** nbits, 2 ** 31)
    n = sh.nregs
    t = {"n": n, "cz": int(sh.cz), "hr": int(sh.hr), "rv": sh.rv, "init": list(dut.regs()), "ev": []}
    hot = [R.randrange(n) for _ in range(2)] + [0]
    addr = lambda: R.choice(hot) if R.random() < 0.55 else R.randrange(n)
    last_w = 0
    for _ in range(length):
        wa = [addr() for _ in range(sh.wr)]
        if sh.wr > 1 and R.random() < 0.3:
            wa[1] = wa[0]                                    # two ports, one address
        ra = [(last_w if R.random() < 0.3 else addr()) for _ in range(sh.rd)]
        if R.random() < 0.3:
            ra[0] = wa[0]                                    # read the address being written
        wd = [R.randrange(lim) for _ in range(sh.wr)]
        we = [R.random() < 0.6 for _ in range(sh.wr)]
        rst = R.random() < 0.02
        try:
            obs = dut.cycle(ra, wa, wd, we, rst)
            ev = {"ra": ra, "rd": list(obs["rdata"]), "wa": wa, "wd": wd, "we": [int(x) for x in we], "rst": int(rst),
                  "regs": list(obs["regs"]), "bad": ""}
        except MachineryError:
            raise
        except Exception as e:
            ev = {"ra": ra, "rd": [0] * sh.rd, "wa": wa, "wd": wd, "we": [int(x) for x in we], "rst": int(rst), "regs": [],
                  "bad": "raises-" + type(e).__name__}
            t["ev"].append(ev)
            break
        t["ev"].append(ev)
        last_w = wa[-1]
    return t


def _rf_trace_job(job):
    import c17_regfile
    tup, idx, length = job
    sh = c17_regfile.Shape(*tup)
    dut = c17_regfile.make(sh)
    t = rf_record(dut, rng("c17/regfile/%s/%d" % (sh.name(), idx)), length, sh, c17_regfile.type_nbits(sh.typ))
    t["dut"], t["idx"], t["shape"] = sh.name(), idx, tup
    return t


_RF_KEYS = ("n", "cz", "hr", "rv", "init", "ev")


def regfile_traces(res, count, nregs_pool, lmin, lmax):
    R = rng("c17-regfile-shapes")
    shapes = _rf_random_shapes(R, count, nregs_pool)
    jobs = [(sh.tuple(), i, R.randint(lmin, lmax)) for i, sh in enumerate(shapes)]
    with _pool() as ex:
        traces = list(ex.map(_rf_trace_job, jobs, chunksize=2))
    nev = sum(len(t["ev"]) for t in traces)
    res.add_evals(nev)
    runs, verdicts = tlc.validate_traces("RegFileTrace", {"traces": [{k: t[k] for k in _RF_KEYS} for t in traces]},
                                         chunk=max(1, min(40, len(traces) // 16 + 1)))
    for r in runs:
        res.add_tlc(r)
        for p in r.prints:
            if p and p[0] == "T":
                res.count("regfile_writes_in_traces", p[2])
    res.add_traces(len(traces))
    ok = []
    for t, (err, pos) in zip(traces, verdicts):
        res.distinct(("regfile-trace", t["dut"], t["idx"]))
        if err == "ok":
            ok.append(t)
            continue
        e = t["ev"][pos - 1]
        res.violation("trace:%s:%s" % (t["dut"], err),
                      "%s: %s at cycle %d of a random port history: %s" % (t["dut"], err, pos, {k: e[k] for k in e if k != "regs"}),
                      {"dut": t["dut"], "shape": t["shape"], "idx": t["idx"], "clause": err, "event": pos,
                       "prefix": t["ev"][max(0, pos - 6):pos]})
    hits = {"two_ports_one_address": 0, "read_of_address_being_written": 0, "write_to_reg0_of_const_zero": 0, "resets": 0}
    for t in ok:
        for e in t["ev"]:
            en = [a for a, w in zip(e["wa"], e["we"]) if w]
            hits["two_ports_one_address"] += int(len(en) > len(set(en)))
            hits["read_of_address_being_written"] += int(any(a in en for a in e["ra"]))
            hits["write_to_reg0_of_const_zero"] += int(t["cz"] and 0 in en)
            hits["resets"] += e["rst"]
    res.note("regfile_trace_events", nev)
    res.note("regfile_trace_hits", hits)
    res.note("regfile_trace_shapes", sorted({t["dut"] for t in traces})[:60])
    if ok and not all(hits.values()):
        raise MachineryError("random register-file histories never reached a boundary case: %s" % hits)
    if ok:
        t = ok[len(ok) // 2]
        res.sample({"kind": "regfile impl trace", "dut": t["dut"], "events": len(t["ev"]),
                    "first": {k: t["ev"][0][k] for k in ("ra", "rd", "wa", "wd", "we", "rst")}})
    return ok


def regfile_trace_canaries(res, ok):
    import c17_regfile
    can, what = [], []
    R = rng("c17-regfile-canary")
    pool = [t for t in ok if len(t["ev"]) >= 20]
    R.shuffle(pool)
    for t in pool[:20]:
        c = {k: copy.deepcopy(t[k]) for k in _RF_KEYS}
        ev = c["ev"]
        kind = len(can) % 5
        wr = [i for i, e in enumerate(ev) if any(e["we"]) and not e["rst"] and e["regs"]
              and e["regs"] != (ev[i - 1]["regs"] if i else c["init"])]
        if kind == 0:                       # wrong read data
            i = len(ev) // 2
            ev[i]["rd"][0] = (ev[i]["rd"][0] + 1) % (2 ** 31)
        elif kind == 1 and wr:              # an effective write undone in the recorded contents (write lost)
            i = wr[len(wr) // 2]
            ev[i]["regs"] = list(ev[i - 1]["regs"] if i else c["init"])
        elif kind == 2:                     # a register changes without a write
            i = len(ev) // 2
            a = (ev[i]["wa"][0] + 1) % c["n"] if c["n"] > 1 else 0
            ev[i]["regs"][a] = (ev[i]["regs"][a] + 1) % (2 ** 31)
            if c["n"] == 1:
                ev[i]["we"] = [0] * len(ev[i]["we"])
        elif kind == 3:                     # stale read: the data read is what was there two writes ago
            i = len(ev) - 1
            ev[i]["rd"][-1] = (ev[i]["rd"][-1] + 7) % (2 ** 31)
        else:                               # wrong initial contents
            c["init"][-1] = (c["init"][-1] + 1) % (2 ** 31)
        can.append(c)
        what.append(("corrupt", kind))
    sh0 = c17_regfile.Shape
    for fault in _RF_FAULTS:
        sh = sh0("RegisterFileRst", "b8", 5, 2, 2, True, 3)
        t = rf_record(c17_regfile.SoftRegFile(sh, fault), rng("c17-faulty-rf-" + fault), 300, sh, 8)
        can.append({k: t[k] for k in _RF_KEYS})
        what.append(("faulty", fault))
    sh = sh0("RegisterFileRst", "b8", 5, 2, 2, True, 3)
    t = rf_record(c17_regfile.SoftRegFile(sh, None), rng("c17-soft-rf-ok"), 300, sh, 8)
    can.append({k: t[k] for k in _RF_KEYS})
    what.append(("soft-ok", None))
    _, cv = tlc.validate_traces("RegFileTrace", {"traces": can})
    if cv[-1][0] != "ok":
        raise MachineryError("the history of a correct software register file was rejected: %s" % (cv[-1],))
    acc = [what[i] for i, v in enumerate(cv[:-1]) if v[0] == "ok"]
    if acc:
        raise MachineryError("canary traces accepted by RegFileTrace: %s" % acc[:5])
    if len(can) < 12:
        raise MachineryError("too few register-file canary traces (%d)" % len(can))
    res.note("regfile_trace_canaries_rejected", len(can) - 1)
    res.note("regfile_trace_canary_clauses", sorted({v[0] for v in cv[:-1]}))


def run_regfile(res, quick, lap):
    shapes = list(_RF_SMALL if quick else _RF_MORE)
    if any(_rf_key(sh) not in _RG for sh in shapes):
        regfile_model_check(res, shapes)
    regfile_walks(res, shapes)
    regfile_walk_canaries(res, shapes[:6])
    lap("regfile_walks")
    pool = (1, 2, 3, 4, 5, 6, 7, 8, 13, 16, 32) if quick else (1, 2, 3, 4, 5, 6, 7, 8, 9, 11, 13, 16, 24, 32, 33, 64)
    ok = regfile_traces(res, 44 if quick else 640, pool, 150, 300 if quick else 1200)
    lap("regfile_traces")
    regfile_trace_canaries(res, ok)
    lap("regfile_trace_canaries")
    res.note("rule_regfile", "spec->code: every transition (raddr[], waddr[], wdata[], wen[], reset) of RegFile.tla from every "
             "register contents of %d small shapes x {Bits8, bitstruct}; code->spec: one random port history (150..%d cycles; hot "
             "addresses, two ports on one address, reads of the address being written, 2%% reset cycles) for each of %d shapes "
             "(nregs from %s, 1..3 read ports, 1..2 write ports, both classes, const_zero, Bits1..Bits32 / bitstruct)"
             % (len(shapes), 300 if quick else 1200, 44 if quick else 640, list(pool)))
    res.assume("register files: addresses are kept below nregs (an address beyond a non-power-of-two nregs is an "
               "IndexError in simulation); contents are read from s.regs[i] (white box); payload values stay below 2^31")
    res.assume("RegisterFileRst with const_zero and a non-zero reset_value: reset loads reset_value into register 0 too "
               "(the code's loop does not skip it); modelled as the code does it")


# ============================================================================================
# replay of a recorded violation
# ============================================================================================

def replay(obj):
    """Re-drive the recorded action path of an adapter / register-file violation.  Returns None when the
    violation belongs to the queue part."""
    d = obj.get("detail") or {}
    key = obj.get("key", "")
    if not isinstance(d, dict) or "dut" not in d:
        return None
    if "shape" in d and "path" in d:
        import c17_regfile
        dut = c17_regfile.make(_rf_shape_obj(d["shape"], d["type"]))
        print("property C17  key=%s\n  %s" % (key, obj.get("what")))
        for a in list(d["path"]) + [d["act"]]:
            print("  raddr=%s waddr=%s wdata=%s wen=%s reset=%s ->" % tuple(a), dut.cycle(*a))
        print("  expected at the last step:", d["expected"])
        return 1
    if "spec_state" in d and "path" in d:
        import c17_adapters
        e = next(x for x in c17_adapters.catalogue() if x.name == d["dut"])
        dut = _make_adapter(e.name, e.cls, d.get("clear_first"))
        print("property C17  key=%s\n  %s" % (key, obj.get("what")))
        for a in list(d["path"]) + [d["act"]]:
            o = dut.cycle(bool(a[0]), a[1], bool(a[2]), bool(a[3]))
            print("  cycle enq=%s m=%s deq=%s rst=%s ->" % tuple(a), {k: v for k, v in o.items() if v is not None})
        print("  expected at the last step:", d["expected"])
        return 1
    if key.startswith("trace:") and ("model" in d or "shape" in d):
        print("property C17  key=%s\n  %s" % (key, obj.get("what")))
        for e in d.get("prefix", []):
            print("  ", e)
        return 1
    return None
