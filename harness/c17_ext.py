"""C17, parts 6-8: interface adapters / connect hooks / compositions (spec/Adapter.tla, Channel.tla,
AdapterTrace.tla, harness/c17_adapters.py) and register files (spec/RegFile.tla, RegFileTrace.tla,
harness/c17_regfile.py).  Called from props/c17.py; same structure as the queue part: model checking,
spec -> code walk over the dumped state graphs, code -> spec trace validation, canaries."""
import collections
import copy
import os
import tempfile
import shutil

import tlc
from common import MachineryError, rng

MSGS = (1, 2, 3)
MAX_VIOL_PER_DUT = 6
MAX_RAW_PER_DUT = 40


def _par(fn, items, nthreads=None):
    from concurrent.futures import ThreadPoolExecutor
    if not items:
        return []
    with ThreadPoolExecutor(max_workers=nthreads or min(len(items), max(2, (os.cpu_count() or 4) // 2))) as ex:
        return list(ex.map(fn, items))


def _pool():
    import multiprocessing
    from concurrent.futures import ProcessPoolExecutor
    return ProcessPoolExecutor(max_workers=os.cpu_count() or 4, mp_context=multiprocessing.get_context("fork"))


def _run_dump(module, cfg_text, timeout=1800):
    """One TLC run that model-checks (invariants / properties of cfg_text, per-action coverage) AND dumps the
    state graph.  Returns (run, states, init, edges)."""
    tmp = tempfile.mkdtemp(prefix="tlcdump_")
    try:
        pref = os.path.join(tmp, "graph")
        r = tlc.run(module, cfg_text=cfg_text, dump=pref, workers=1, coverage=True, timeout=timeout)
        path = pref + ".dot" if os.path.exists(pref + ".dot") else pref
        if not os.path.exists(path):
            raise MachineryError("TLC wrote no state graph for %s:\n%s" % (module, r.out[-2000:]))
        states, init, edges = tlc.parse_dot(path)
        return r, states, init, edges
    finally:
        shutil.rmtree(tmp, ignore_errors=True)


def _check_run(res, r, what, actions=("Cycle",)):
    res.add_tlc(r)
    if r.violated:
        res.violation("model:%s:%s" % (what, r.violated), "%s violates %s" % (what, r.violated), r.out[-3000:])
        return False
    if not r.ok:
        raise MachineryError("TLC failed on %s: %s\n%s" % (what, r.errors, r.out[-2000:]))
    for act in actions:
        if r.coverage.get(act, (0, 0))[1] == 0:
            raise MachineryError("action %s never taken in %s (vacuous)" % (act, what))
    return True


# ============================================================================================
# generic product walk (spec state x implementation control state)
# ============================================================================================

def walk(factory, graph, init, step, diff, name, perturb=None, limit=MAX_VIOL_PER_DUT, acts_filter=None):
    """graph: {state: {act: (state2, expected)}}.  From every reachable pair (spec state, dut.sig()) every
    spec transition is applied to the device (step(dut, act) -> obs) and compared (diff(obs, exp) -> clause or
    None).  Returns statistics and the mismatches, each with the shortest known action path to it."""
    dut = factory()
    start = (init, dut.sig())
    cur = start
    dest = {start: {}}
    viol = []
    ncyc = nedge = nraw = npert = 0
    aborted = False

    def acts_of(ps):
        a = list(graph[ps[0]])
        return a if acts_filter is None else [x for x in a if acts_filter(x)]

    def apply(ps, act):
        nonlocal ncyc
        ncyc += 1
        s2, exp = graph[ps[0]][act]
        try:
            obs = step(dut, act)
            bad = diff(obs, exp)
        except MachineryError:
            raise
        except Exception as e:              # the simulated design itself crashed
            obs = {"exception": "%s: %s" % (type(e).__name__, str(e)[:200])}
            bad = "raises-" + type(e).__name__
        return s2, exp, obs, bad

    def path_to(ps):
        prev = {start: None}
        dq = collections.deque([start])
        while dq:
            x = dq.popleft()
            if x == ps:
                break
            for a, y in dest.get(x, {}).items():
                if y is not None and y not in prev:
                    prev[y] = (x, a)
                    dq.append(y)
        out, x = [], ps
        while prev.get(x) is not None:
            x, a = prev[x]
            out.append(a)
        return out[::-1]

    while True:
        todo = [a for a in acts_of(cur) if a not in dest[cur]]
        if todo:
            act = todo[0]
            s2, exp, obs, bad = apply(cur, act)
            nedge += 1
            if bad:
                viol.append({"clause": bad, "state": cur[0], "sig": list(cur[1]), "act": act, "expected": exp,
                             "observed": obs, "path": path_to(cur)})
                dest[cur][act] = None
                dut = factory()
                cur = start
                nraw += 1
                if len({(v["clause"], v["state"], v["act"]) for v in viol}) >= limit or nraw >= MAX_RAW_PER_DUT:
                    aborted = True
                    break
                continue
            if perturb is not None and npert < 60:          # canary on the comparison itself
                p = perturb(exp, obs, npert)
                if p is not None and diff(obs, p) is None:
                    raise MachineryError("replay canary: perturbed expectation %s accepted for %s (observed %s)"
                                         % (p, name, obs))
                npert += 1
            nxt = (s2, dut.sig())
            dest[cur][act] = nxt
            dest.setdefault(nxt, {})
            cur = nxt
            continue
        prev = {cur: None}
        dq = collections.deque([cur])
        goal = None
        while dq:
            x = dq.popleft()
            if any(a not in dest[x] for a in acts_of(x)):
                goal = x
                break
            for a, y in dest[x].items():
                if y is not None and y not in prev:
                    prev[y] = (x, a)
                    dq.append(y)
        if goal is None:
            break
        steps, x = [], goal
        while prev[x] is not None:
            x, a = prev[x]
            steps.append(a)
        for a in reversed(steps):
            s2, exp, obs, bad = apply(cur, a)
            nxt = (s2, dut.sig())
            if bad or nxt != dest[cur][a]:
                raise MachineryError("%s is not deterministic in its control state: %s from %s gave %s/%s, earlier %s"
                                     % (name, a, cur, bad, nxt, dest[cur][a]))
            cur = nxt
    return {"name": name, "product_states": len(dest), "spec_states": len({ps[0] for ps in dest}),
            "spec_states_total": len(graph), "edges": nedge, "cycles": ncyc, "aborted": aborted, "violations": viol,
            "perturbed": npert}


# ============================================================================================
# 6. adapters
# ============================================================================================

ADAPTER_KINDS = ("cl2rtl", "cl2val", "rtl2cl", "and", "get2cl", "val2cl", "fl2cl", "fl2rtl", "cl2fl", "rtl2fl")
_A_INVS = ("TypeOK", "Bounded", "DeliveredPrefix", "Conservation", "BlockedOK", "OutExact", "CountExact")
_A_PROPS = ("StepFifo", "RefinesChannel", "RefinesFifo")
_AG = {}        # (kind, cf) -> {state: {act: (state2, out)}}
A_INIT = ((), False, (), False)
A_FIELDS = ("enq_rdy", "deq_rdy", "enq_xfer", "deq_xfer", "ret", "deq_msg", "pblk", "cblk", "count2", "ent2", "clr2")
A_CAP = {"rtl2cl": 0, "and": 0, "fl2cl": 1, "fl2rtl": 2}


def _cfs(kind):
    return (True, False) if kind == "fl2rtl" else (True,)


def _a_cfg(kind, cf, view=True, maxhist=0, props=True):
    s = "SPECIFICATION Spec\nCONSTANTS Kind = \"%s\"\n ClearFirst = %s\n Msgs = {%s}\n MaxHist = %d\n" % (
        kind, "TRUE" if cf else "FALSE", ", ".join(map(str, MSGS)), maxhist)
    s += "VIEW View\n" if view else "CONSTRAINT HistBound\n"
    if props:
        s += "".join("INVARIANT %s\n" % i for i in _A_INVS) + "".join("PROPERTY %s\n" % p for p in _A_PROPS)
    return s + "CHECK_DEADLOCK FALSE\n"


def _a_key(st):
    return (tuple(st["entry"]), bool(st["clr"]), tuple(st["pend"]), bool(st["cwait"]))


def _a_state_str(s):
    return "buf=%d,clr=%d,pend=%d,cwait=%d" % (len(s[0]), s[1], len(s[2]), s[3])


def _a_act_str(a):
    return "enq=%d,deq=%d,rst=%d" % (a[0], a[2], a[3])


def adapter_model_check(res, maxhist):
    """Adapter.tla for every kind (and both block orders of fl2rtl): exhaustive with the histories hidden by the
    VIEW -- the same run dumps the state graph for the walk -- and once with the histories kept up to a bound;
    Channel.tla for capacities 0..3."""
    jobs = [("dump", k, cf) for k in ADAPTER_KINDS for cf in _cfs(k) if (k, cf) not in _AG]
    jobs += [("hist", k, cf) for k in ADAPTER_KINDS for cf in _cfs(k)]
    jobs += [("chan", c, None) for c in (0, 1, 2, 3)]

    def one(j):
        tag, k, cf = j
        if tag == "dump":
            return j, _run_dump("Adapter", _a_cfg(k, cf, True, 0))
        if tag == "hist":
            return j, tlc.run("Adapter", cfg_text=_a_cfg(k, cf, False, maxhist), coverage=True, workers=2, timeout=1800)
        cfg = ("SPECIFICATION Spec\nCONSTANTS Cap = %d\n Msgs = {%s}\n MaxHist = %d\nCONSTRAINT HistBound\n"
               "INVARIANT TypeOK\nINVARIANT Bounded\nINVARIANT DeliveredPrefix\nINVARIANT Conservation\n"
               "PROPERTY StepFifo\nCHECK_DEADLOCK FALSE\n" % (k, ", ".join(map(str, MSGS)), maxhist))
        return j, tlc.run("Channel", cfg_text=cfg, coverage=True, workers=2, timeout=1800)

    nstates = {}
    for (tag, k, cf), out in _par(one, jobs):
        what = "%s.tla(%s%s,%s)" % ("Channel" if tag == "chan" else "Adapter",
                                    "cap=%d" % k if tag == "chan" else k,
                                    "" if cf is None or k != "fl2rtl" else ",ClearFirst=%s" % cf, tag)
        if tag != "dump":
            _check_run(res, out, what)
            continue
        r, states, init, edges = out
        if not _check_run(res, r, what):
            continue
        g = {}
        for (s, d, name, args) in edges:
            a = (bool(args[0]), int(args[1]), bool(args[2]), bool(args[3]))
            dst = (_a_key(states[d]["st"]), states[d]["out"])
            old = g.setdefault(_a_key(states[s]["st"]), {}).get(a)
            if old is not None and old != dst:
                raise MachineryError("Adapter graph %s: outputs depend on more than st at %s %s" % (k, s, a))
            g[_a_key(states[s]["st"])][a] = dst
        if len(init) != 1 or _a_key(states[next(iter(init))]["st"]) != A_INIT:
            raise MachineryError("Adapter graph %s: unexpected initial state" % k)
        for s, acts in g.items():
            want = (1 if s[2] else 1 + len(MSGS)) * (1 if s[3] else 2) * 2
            if len(acts) != want:
                raise MachineryError("Adapter graph %s: %d actions at %s, expected %d" % (k, len(acts), s, want))
        _AG[(k, cf)] = g
        nstates["%s%s" % (k, "" if k != "fl2rtl" else ("/clear-first" if cf else "/caller-first"))] = len(g)
    res.note("adapter_model_check", {"invariants": list(_A_INVS), "properties": list(_A_PROPS), "max_accepted": maxhist,
                                     "adapter_states(st)": nstates, "channel_caps": [0, 1, 2, 3]})


def a_diff(obs, exp):
    if obs.get("illegal"):
        return obs["illegal"]
    for f in A_FIELDS:
        o = obs.get(f)
        if f == "deq_msg":
            e = exp["deq_msg"][0] if exp["deq_msg"] else None
            if exp["deq_xfer"] and o is None:
                return "deq_msg"
            if o is not None and o != e:
                return "deq_msg"
            continue
        if o is None:
            continue
        if o != exp[f]:
            return f
    return None


def a_perturb(exp, obs, i):
    """A wrong expectation that the observation must contradict (None when this observation cannot)."""
    e2 = dict(exp)
    which = i % 5
    if which == 0:
        e2["deq_xfer"] = not e2["deq_xfer"]
    elif which == 1:
        e2["enq_xfer"] = not e2["enq_xfer"]
    elif which == 2:
        if obs.get("count2") is None:
            return None
        e2["count2"] = e2["count2"] + 1
    elif which == 3:
        if not exp["deq_msg"] or obs.get("deq_msg") is None:
            return None
        e2["deq_msg"] = (exp["deq_msg"][0] % len(MSGS) + 1,)
    else:
        if obs.get("enq_rdy") is None:
            return None
        e2["enq_rdy"] = not e2["enq_rdy"]
    return e2


def a_step(dut, act):
    return dut.cycle(*act)


# entries that are known not to elaborate on the unchanged tree, with the error that identifies the cause
_KNOWN_UNBUILDABLE = {
    "ifcs.GetRTL2GiveCL": ("VarNotDeclaredError", 'Field "msg"'),
    "hook.GiveIfcRTL=CalleeIfcCL<CallerIfcCL": ("InvalidConnectionError", '"ret" field'),
}


def _make_adapter(name, cls, cf=None, tries=40):
    import c17_adapters
    for _ in range(tries):
        d = c17_adapters.make(name, cls)
        if cf is None or d.clear_first() is None or d.clear_first() == cf:
            return d
    return None


def _adapter_walk_job(job):
    import c17_adapters
    name, kind, cls, cf = job
    try:
        first = _make_adapter(name, cls, cf)
    except c17_adapters.Unbuildable as e:
        return {"name": name, "kind": kind, "unbuildable": str(e)}
    if first is None:
        return {"name": name, "kind": kind, "cf": cf, "order_not_found": True}
    cfx = first.clear_first()
    cfx = True if cfx is None else cfx
    box = [first]

    def factory():
        if box:
            return box.pop()
        d = _make_adapter(name, cls, cfx)
        if d is None:
            raise MachineryError("%s: could not rebuild the design with the same block order" % name)
        return d

    r = walk(factory, _AG[(kind, cfx)], A_INIT, a_step, a_diff, name, perturb=a_perturb)
    r.update({"kind": kind, "cf": cfx, "signames": first.signames(), "sched": first.sched})
    return r


def _a_detail(r, v):
    return {"dut": r["name"], "kind": r["kind"], "clear_first": r.get("cf"), "path": [list(a) for a in v["path"]],
            "act": list(v["act"]), "clause": v["clause"], "expected": _a_short(v["expected"]),
            "observed": v["observed"], "control_state": v["sig"], "spec_state": _a_state_str(v["state"])}


def _a_short(d):
    return {k: ((v[0] if v else None) if k == "deq_msg" and isinstance(v, tuple) else v) for k, v in d.items()
            if k in A_FIELDS}


def adapter_walks(res, cat):
    jobs = []
    for e in cat:
        for cf in ((True, False) if e.kind == "fl2rtl" else (None,)):
            jobs.append((e.name, e.kind, e.cls, cf))
    with _pool() as ex:
        results = list(ex.map(_adapter_walk_job, jobs))
    table, skipped, orders = {}, [], {}
    for r in results:
        name = r["name"]
        if "unbuildable" in r:
            known = _KNOWN_UNBUILDABLE.get(name)
            if known and r["unbuildable"].startswith(known[0]) and known[1] in r["unbuildable"]:
                skipped.append(name)
                res.assume("%s cannot be elaborated on the unchanged tree (%s...); it is checked as a one-entry bypass "
                           "queue as soon as it can be built" % (name, r["unbuildable"][:150]))
                continue
            res.violation("build:%s:%s" % (name, r["unbuildable"].split(":")[0]),
                          "%s cannot be elaborated: %s" % (name, r["unbuildable"]), r)
            continue
        if r.get("order_not_found"):
            orders.setdefault(name, {})["clear-first" if r["cf"] else "caller-first"] = "not produced by the scheduler"
            continue
        if r["kind"] == "fl2rtl":
            orders.setdefault(name, {})["clear-first" if r["cf"] else "caller-first"] = "walked"
        res.add_evals(r["cycles"])
        res.count("adapter_spec_to_code_transitions_replayed", r["edges"])
        res.distinct(("adapter-walk", name, r["cf"]))
        table["%s%s" % (name, "" if r["kind"] != "fl2rtl" else ("/clear-first" if r["cf"] else "/caller-first"))] = [
            r["product_states"], r["edges"]]
        for v in r["violations"]:
            key = "replay:%s:%s:%s:%s" % (name, v["clause"], _a_state_str(v["state"]), _a_act_str(v["act"]))
            res.violation(key, "%s (adapter kind %s): in state %s, offer %s -> %s differs from Adapter.tla: expected %s, "
                          "observed %s" % (name, r["kind"], _a_state_str(v["state"]), _a_act_str(v["act"]), v["clause"],
                                           _a_short(v["expected"]), {k: x for k, x in v["observed"].items() if x is not None}),
                          _a_detail(r, v))
        if not r["violations"] and r["spec_states"] != r["spec_states_total"]:
            raise MachineryError("%s: only %d of %d spec states reached without any mismatch"
                                 % (name, r["spec_states"], r["spec_states_total"]))
    for name, o in orders.items():
        if "walked" not in o.values():
            raise MachineryError("%s: no block order could be walked: %s" % (name, o))
    res.note("adapter_walks_productstates_edges", table)
    res.note("adapters_not_buildable_on_this_tree", skipped)
    res.note("fl2rtl_block_orders", orders)
    ok = [r for r in results if "edges" in r]
    if ok:
        r0 = ok[0]
        res.sample({"kind": "adapter spec->code walk", "dut": r0["name"], "product_states": r0["product_states"],
                    "transitions": r0["edges"], "control_signals": r0["signames"], "schedule": r0["sched"][:12]})
    return results


# ---- software adapters: independent model (cross-check of the spec) and faulty variants (canaries)

class SoftAdapter:
    """The adapters as plain Python in the order their blocks run, written independently of Adapter.tla.
    fault None: must agree with the state graph everywhere.  Faults:
      dup       the buffer is not cleared after every 2nd delivery (the message is delivered again)
      drop      every 2nd accepted message is not stored
      rdy       ready towards the producer although the buffer is occupied (the old message is overwritten)
      invent    a wire adapter delivers the idle bus value when the consumer is ready and nothing is offered
      norst     rtl2cl ignores reset
      early     an FL producer call returns although nothing was stored / sent"""

    def __init__(self, kind, cf=True, fault=None):
        self.kind, self.cf, self.fault = kind, cf, fault
        self.entry = None
        self.sent = False
        self.pend = None
        self.cwait = False
        self.np = self.nd = 0

    def sig(self):
        s = (int(self.pend is not None), int(self.cwait), int(self.entry is not None), int(self.sent))
        return s + ((self.np % 2, self.nd % 2) if self.fault in ("dup", "drop") else ())

    def clear_first(self):
        return self.cf

    def pblk(self):
        return self.pend is not None

    def cblk(self):
        return self.cwait

    def cycle(self, eo, m, do, rst=False):
        k, f = self.kind, self.fault
        o = {x: None for x in A_FIELDS}
        o["enq_xfer"] = o["deq_xfer"] = False
        flp, flc = k in ("fl2cl", "fl2rtl"), k in ("cl2fl", "rtl2fl")
        offer = self.pend if self.pend is not None else (m if eo else None)
        if flp:
            o["enq_xfer"] = bool(eo)
            o["ret"] = False

        def put(x):
            self.np += 1
            if not (f == "drop" and self.np % 2 == 0):
                self.entry = x

        def take():
            x = self.entry
            self.nd += 1
            if not (f == "dup" and self.nd % 2 == 0):
                self.entry = None
            return x

        if k in ("rtl2cl", "and"):
            rdy = bool(do) and not (k == "rtl2cl" and rst and f != "norst")
            o["enq_rdy"] = rdy
            if eo and rdy:
                o["enq_xfer"] = o["deq_xfer"] = True
                o["deq_msg"] = m
            elif f == "invent" and do and not eo:
                o["deq_xfer"] = True
                o["deq_msg"] = 0x7EADBEEF
        elif k == "fl2cl":
            if offer is not None and do:
                o["deq_xfer"], o["deq_msg"], o["ret"] = True, offer, True
                self.pend = None
            elif offer is not None and f == "early":
                o["ret"] = True
                self.pend = None
            else:
                self.pend = offer
        elif k in ("cl2rtl", "cl2val", "fl2rtl"):
            late_clear = k == "fl2rtl" and not self.cf
            if self.sent and not late_clear:
                self.entry = None
            if k == "fl2rtl":
                o["enq_rdy"] = self.entry is None if eo else None
                if offer is not None and (self.entry is None or f == "rdy"):
                    put(offer)
                    self.pend = None
                    o["ret"] = True
                elif offer is not None and f == "early":
                    self.pend = None
                    o["ret"] = True
                else:
                    self.pend = offer
                if self.sent and late_clear:
                    self.entry = None
            else:
                o["enq_rdy"] = self.entry is None or f == "rdy"
                if eo and o["enq_rdy"]:
                    put(m)
                    o["enq_xfer"] = True
            val = self.entry is not None
            o["deq_rdy"] = val if (k == "cl2val" or do) else None
            self.sent = False
            if val and do:
                o["deq_xfer"], o["deq_msg"] = True, self.entry
                self.nd += 1
                self.sent = not (f == "dup" and self.nd % 2 == 0)
            elif val and k == "cl2val":
                o["deq_msg"] = self.entry
        elif k in ("get2cl", "rtl2fl"):
            rdy = self.entry is None or f == "rdy"
            o["enq_rdy"] = rdy if (k == "rtl2fl" or eo) else None
            if eo and rdy:
                put(m)
                o["enq_xfer"] = True
            if k == "get2cl":
                o["deq_rdy"] = self.entry is not None
            if do and self.entry is not None:
                o["deq_xfer"], o["deq_msg"] = True, take()
                self.cwait = False
            elif flc:
                self.cwait = bool(do)
        elif k in ("val2cl", "cl2fl"):
            if k == "val2cl":
                o["deq_rdy"] = self.entry is not None
            if do and self.entry is not None:
                o["deq_xfer"], o["deq_msg"] = True, take()
                self.cwait = False
            elif flc:
                self.cwait = bool(do)
            o["enq_rdy"] = self.entry is None or f == "rdy"
            if eo and o["enq_rdy"]:
                put(m)
                o["enq_xfer"] = True
        else:
            raise MachineryError("SoftAdapter: unknown kind %s" % k)
        o["pblk"], o["cblk"] = self.pend is not None, self.cwait
        if k in ("rtl2cl", "and", "fl2cl"):
            o["count2"] = int(o["pblk"])
            if o["deq_xfer"]:
                o["deq_rdy"] = True
        else:
            o["ent2"] = int(self.entry is not None)
            o["clr2"] = bool(self.sent)
            o["count2"] = (0 if self.sent else o["ent2"]) + int(o["pblk"])
        return o


_A_FAULTS = (("cl2rtl", True, "dup"), ("cl2rtl", True, "drop"), ("cl2val", True, "rdy"), ("rtl2cl", True, "invent"),
             ("rtl2cl", True, "norst"), ("get2cl", True, "dup"), ("val2cl", True, "drop"), ("val2cl", True, "rdy"),
             ("fl2cl", True, "early"), ("fl2rtl", True, "rdy"), ("fl2rtl", False, "early"), ("fl2rtl", False, "dup"),
             ("cl2fl", True, "dup"), ("rtl2fl", True, "drop"), ("and", True, "invent"))


def adapter_walk_canaries(res):
    n = 0
    for (k, cf), g in sorted(_AG.items()):
        r = walk(lambda: SoftAdapter(k, cf), g, A_INIT, a_step, a_diff, "soft-" + k)
        if r["violations"] or r["spec_states"] != len(g):
            v = r["violations"][:1]
            raise MachineryError("Adapter.tla(%s, ClearFirst=%s) and the independent software model disagree: %s"
                                 % (k, cf, [(x["clause"], _a_state_str(x["state"]), x["act"], _a_short(x["expected"]),
                                             x["observed"]) for x in v]))
        n += r["edges"]
    res.note("adapter_spec_vs_independent_model_transitions", n)
    rej = 0
    for k, cf, fault in _A_FAULTS:
        r = walk(lambda: SoftAdapter(k, cf, fault), _AG[(k, cf)], A_INIT, a_step, a_diff, "faulty-%s-%s" % (k, fault), limit=3)
        if not r["violations"]:
            raise MachineryError("walk canary: faulty adapter (%s, %s) was not noticed" % (k, fault))
        rej += 1
    res.note("adapter_walk_canaries_rejected", rej)


# ---- code -> spec

_MODES = ((0.9, 0.1), (0.1, 0.9), (0.95, 0.95), (0.3, 0.3), (1.0, 0.5), (0.5, 1.0), (0.6, 0.0), (0.0, 0.6))


def _b(v):
    return 2 if v is None else int(bool(v))


def _n(v):
    return -1 if v is None else int(v)


def a_event(obs, eo, m, do, rst):
    return {"k": "cycle", "eo": int(eo), "m": int(m) if eo else 0, "do": int(do), "rst": int(rst), "er": _b(obs["enq_rdy"]),
            "dr": _b(obs["deq_rdy"]), "ex": int(obs["enq_xfer"]), "dx": int(obs["deq_xfer"]), "ret": _b(obs["ret"]),
            "dm": _n(obs["deq_msg"]), "c2": _n(obs["count2"]), "ent2": 2 if obs["ent2"] is None else int(obs["ent2"]),
            "clr2": _b(obs["clr2"]), "pb": int(bool(obs["pblk"])), "cb": int(bool(obs["cblk"])),
            "bad": obs.get("illegal", "") or ""}


def _crash_event(eo, m, do, rst, e):
    return {"k": "cycle", "eo": int(eo), "m": int(m) if eo else 0, "do": int(do), "rst": int(rst), "er": 2, "dr": 2,
            "ex": 0, "dx": 0, "ret": 2, "dm": -1, "c2": -1, "ent2": 2, "clr2": 2, "pb": 0, "cb": 0,
            "bad": "raises-" + type(e).__name__}


def record(dut, R, length, kind, cf, cap=0, drain=6, resets=True):
    """One bursty random offer history; every offered message carries a fresh serial number.  A blocked FL caller
    keeps its offer.  The history ends with a drain phase (consumer ready, no offers) and an `empty` event."""
    ev = []
    serial = 1
    left = 0
    pe = pd = 0.5
    ended = False
    for i in range(length + drain):
        draining = i >= length
        if left == 0:
            pe, pd = R.choice(_MODES)
            left = R.randint(3, 14)
        left -= 1
        eo, do = (False, True) if draining else (R.random() < pe, R.random() < pd)
        rst = resets and not draining and R.random() < 0.03
        if dut.pblk():
            eo = False
        if dut.cblk():
            do = True
        try:
            obs = dut.cycle(eo, serial, do, rst)
        except MachineryError:
            raise
        except Exception as e:
            ev.append(_crash_event(eo, serial, do, rst, e))
            ended = True
            break
        ev.append(a_event(obs, eo, serial, do, rst))
        if eo:
            serial += 1
    if not ended:
        ev.append({"k": "empty"})
    return {"kind": kind, "cf": int(bool(cf)), "cap": cap, "ev": ev}


def _adapter_trace_job(job):
    import c17_adapters
    tag, name, kind, cls, cap, depth, idx, length = job
    try:
        dut = c17_adapters.make(name, cls)
    except c17_adapters.Unbuildable as e:
        return {"dut": name, "idx": idx, "unbuildable": str(e)}
    cf = dut.clear_first()
    R = rng("c17/adapter/%s/%d" % (name, idx))
    if tag == "chain":
        t = record(dut, R, length, "chan", True, cap=cap, drain=2 * (depth + cap) + 6, resets=False)
        t["inserted"] = dut.inserted()
    else:
        t = record(dut, R, length, kind, True if cf is None else cf)
    t["dut"], t["idx"], t["tag"] = name, idx, tag
    return t


def adapter_traces(res, cat, chs, per, lmin, lmax):
    R = rng("c17-adapter-lengths")
    jobs = []
    for e in cat:
        for i in range(per):
            jobs.append(("adapter", e.name, e.kind, e.cls, 0, 0, i, R.randint(lmin, lmax)))
    for c in chs:
        for i in range(per):
            jobs.append(("chain", c.name, "chan", None, c.cap, c.depth, i, R.randint(lmin, lmax)))
    with _pool() as ex:
        traces = list(ex.map(_adapter_trace_job, jobs, chunksize=2))
    want_ins = {c.name: c.inserted for c in chs}
    good = []
    for t in traces:
        if "unbuildable" in t:
            if t["dut"] not in _KNOWN_UNBUILDABLE:
                res.violation("build:%s:%s" % (t["dut"], t["unbuildable"].split(":")[0]),
                              "%s cannot be elaborated: %s" % (t["dut"], t["unbuildable"]), t)
            continue
        if t["tag"] == "chain":
            ins = t["inserted"]
            for cls, n in want_ins[t["dut"]].items():
                if ins.get(cls, 0) < n:
                    raise MachineryError("%s: the connect hooks inserted %s, expected at least %d x %s"
                                         % (t["dut"], ins, n, cls))
        good.append(t)
    nev = sum(len(t["ev"]) for t in good)
    res.add_evals(nev)
    payload = [{"kind": t["kind"], "cf": t["cf"], "cap": t["cap"], "ev": t["ev"]} for t in good]
    runs, verdicts = tlc.validate_traces("AdapterTrace", {"traces": payload},
                                         chunk=max(1, min(40, len(payload) // 16 + 1)))
    for r in runs:
        res.add_tlc(r)
        for p in r.prints:
            if p and p[0] == "T":
                res.count("adapter_transfers_accepted_in_traces", p[2])
                res.count("adapter_transfers_delivered_in_traces", p[3])
    res.add_traces(len(good))
    ok = []
    for t, (err, pos) in zip(good, verdicts):
        res.distinct(("adapter-trace", t["dut"], t["idx"]))
        cyc = [e for e in t["ev"] if e["k"] == "cycle"]
        if err == "ok":
            ok.append(t)
            continue
        e = t["ev"][pos - 1]
        key = "trace:%s:%s" % (t["dut"], err)
        model = "Channel.tla(cap=%d)" % t["cap"] if t["kind"] == "chan" else "Adapter.tla(%s)" % t["kind"]
        res.violation(key, "%s (model %s): %s at cycle %d of a random offer history: %s" % (t["dut"], model, err, pos, e),
                      {"dut": t["dut"], "idx": t["idx"], "clause": err, "event": pos, "model": model,
                       "prefix": t["ev"][max(0, pos - 12):pos]})
    # non-vacuity: every design that validated moved messages; full / blocked boundaries were touched
    by = {}
    for t in ok:
        cyc = [e for e in t["ev"] if e["k"] == "cycle"]
        d = by.setdefault(t["dut"], {"acc": 0, "del": 0, "pb": 0, "cb": 0, "full": 0})
        d["acc"] += sum(e["ex"] for e in cyc)
        d["del"] += sum(e["dx"] for e in cyc)
        d["pb"] += sum(e.get("pb", 0) for e in cyc)
        d["cb"] += sum(e.get("cb", 0) for e in cyc)
        d["full"] += sum(1 for e in cyc if e.get("er") == 0 and e["eo"])
    for name, d in by.items():
        if not (d["acc"] and d["del"]):
            raise MachineryError("vacuous histories for %s: %s" % (name, d))
    res.note("adapter_trace_events", nev)
    res.note("adapter_trace_hits", {k: by[k] for k in sorted(by)})
    if ok:
        t = ok[len(ok) // 2]
        res.sample({"kind": "adapter impl trace", "dut": t["dut"], "model": t["kind"], "events": len(t["ev"]),
                    "first": t["ev"][:2]})
    return ok


class SoftChain:
    """Two software adapters / queues in series (cl2rtl -> val2cl style), for the composition canaries."""

    def __init__(self, fault=None):
        self.a = SoftAdapter("val2cl", True, fault)
        self.b = SoftAdapter("val2cl", True, None)

    def pblk(self):
        return False

    def cblk(self):
        return False

    def cycle(self, eo, m, do, rst=False):
        ob = self.b.cycle(False, 0, do)                    # consumer side first (pipe order), then refill b from a
        mid_do = self.b.entry is None
        oa = self.a.cycle(eo, m, mid_do)
        if oa["deq_xfer"]:
            self.b.entry = oa["deq_msg"]
        o = {x: None for x in A_FIELDS}
        o.update({"enq_xfer": oa["enq_xfer"], "deq_xfer": ob["deq_xfer"], "deq_msg": ob["deq_msg"], "enq_rdy": oa["enq_rdy"],
                  "pblk": False, "cblk": False})
        return o


def adapter_trace_canaries(res, ok):
    can, what, want = [], [], {}
    R = rng("c17-adapter-canary")
    pool = [t for t in ok if sum(1 for e in t["ev"] if e["k"] == "cycle" and e["dx"] and e["dm"] != -1) >= 4]
    R.shuffle(pool)
    pool.sort(key=lambda t: t["kind"] == "chan")          # both adapter and composition histories get corrupted
    pick = pool[:24] + pool[-16:]
    for t in pick:
        c = {"kind": t["kind"], "cf": t["cf"], "cap": t["cap"], "ev": copy.deepcopy(t["ev"])}
        dl = [i for i, e in enumerate(c["ev"]) if e["k"] == "cycle" and e["dx"] and e["dm"] != -1]
        kind = len(can) % 5
        if kind == 0:                       # a delivered message replaced by a later one (the original is lost)
            c["ev"][dl[len(dl) // 2]]["dm"] += 1
        elif kind == 1:                     # two delivered messages swapped
            i, j = dl[len(dl) // 2 - 1], dl[len(dl) // 2]
            c["ev"][i]["dm"], c["ev"][j]["dm"] = c["ev"][j]["dm"], c["ev"][i]["dm"]
        elif kind == 2:                     # a message delivered twice
            i, j = dl[0], dl[1]
            c["ev"][j]["dm"] = c["ev"][i]["dm"]
        elif kind == 3:                     # a delivery erased from the history (message lost / stuck)
            c["ev"][dl[-1]]["dx"] = 0
            c["ev"][dl[-1]]["dm"] = -1
        else:                               # an invented message
            c["ev"][dl[len(dl) // 2]]["dm"] = 0x7EADBEEF
        can.append(c)
        what.append(("corrupt", t["kind"], kind))
    for k, cf, fault in _A_FAULTS:
        t = record(SoftAdapter(k, cf, fault), rng("c17-faulty-adapter-%s-%s" % (k, fault)), 300, k, cf)
        can.append({x: t[x] for x in ("kind", "cf", "cap", "ev")})
        what.append(("faulty", k, fault))
    # compositions: a correct software chain is accepted with the summed capacity, rejected with less; a
    # duplicating / dropping one is rejected
    for fault, cap, exp in ((None, 1, "occupancy-exceeds-capacity"), ("dup", 2, None), ("drop", 2, None)):
        t = record(SoftChain(fault), rng("c17-soft-chain-%s" % fault), 300, "chan", True, cap=cap, drain=10, resets=False)
        if exp:
            want[len(can)] = exp
        can.append({x: t[x] for x in ("kind", "cf", "cap", "ev")})
        what.append(("chain", fault, cap))
    t = record(SoftChain(None), rng("c17-soft-chain-ok"), 300, "chan", True, cap=2, drain=10, resets=False)
    can.append({x: t[x] for x in ("kind", "cf", "cap", "ev")})
    what.append(("chain-ok", None, 2))
    _, cv = tlc.validate_traces("AdapterTrace", {"traces": can})
    if cv[-1][0] != "ok":
        raise MachineryError("a correct software chain of two one-entry queues was rejected by Channel(2): %s" % (cv[-1],))
    acc = [what[i] for i, v in enumerate(cv[:-1]) if v[0] == "ok"]
    if acc:
        raise MachineryError("canary traces accepted by AdapterTrace: %s" % acc[:5])
    for i, clause in want.items():
        if cv[i][0] != clause:
            raise MachineryError("canary trace %s rejected as %s, expected %s" % (what[i], cv[i][0], clause))
    if len(can) < 20:
        raise MachineryError("too few adapter canary traces (%d)" % len(can))
    res.note("adapter_trace_canaries_rejected", len(can) - 1)
    res.note("adapter_trace_canary_clauses", sorted({v[0] for v in cv[:-1]}))


def run_adapters(res, quick, lap):
    import c17_adapters
    cat, chs = c17_adapters.catalogue(), c17_adapters.chains()
    adapter_model_check(res, 4 if quick else 6)
    lap("adapter_model_check_and_graph_dumps")
    adapter_walks(res, cat)
    adapter_walk_canaries(res)
    lap("adapter_walks")
    ok = adapter_traces(res, cat, chs, 3 if quick else 40, 150, 400 if quick else 1500)
    lap("adapter_traces")
    adapter_trace_canaries(res, ok)
    lap("adapter_trace_canaries")
    res.note("adapter_designs", {"adapters_and_hooks": [e.name for e in cat], "compositions": {c.name: c.cap for c in chs}})
    res.assume("adapters: a blocked FL caller keeps its offer (the harness cannot withdraw a call in progress); the "
               "order of RecvFL2SendRTL.up_clear and the calling block is read from the schedule and both orders are "
               "admitted; the buffer occupancy / pending clear of an adapter are read from s.entry / s.send.en (white box)")
    res.assume("compositions are judged on the channel property only (FIFO delivery, occupancy <= summed capacity, "
               "nothing left after a drain phase); their ready outputs are not pinned down")
