"""C08/C09: one update block writes a signal AND one of its slices (s.c and s.c[2:6]); a slice
that overlaps the written slice (s.c[0:4]) feeds a net.  Every bit of s.c has one driver (the block),
but _resolve_value_connections finds s.c[0:4] to be the net's writer twice -- once because its
ancestor s.c is written, once because its sibling s.c[2:6] is written -- and reports the member as
being in conflict with itself:
  MultiWriterError: Two-writer conflict "s.c[0:4]"(as "s.c[2:6]" is written somewhere else), "s.c[0:4]"
(With the block writing only s.c, or only s.c[2:6], the design is accepted with writer s.c[0:4].)
"""
from pymtl3 import *

class Top( Component ):
  def construct( s ):
    s.c = Wire( Bits8 )
    s.o = OutPort( Bits4 )
    connect( s.c[0:4], s.o )
    @update
    def blk():
      s.c      @= 0x5a
      s.c[2:6] @= 3

top = Top()
top.elaborate()
print( "ok:", [ (repr(w), sorted(map(repr, n))) for w, n in top.get_all_value_nets() if "clk" not in repr(w) and "reset" not in repr(w) ] )
top.apply( DefaultPassGroup() )
top.sim_reset()
top.sim_eval_combinational()
assert top.o == top.c[0:4] == 0xe, ( top.o, top.c )
print( "o =", top.o, " c =", top.c )
