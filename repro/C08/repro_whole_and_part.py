"""C08/C09: a block that writes a struct signal AND one of its fields; another field feeds a net.
One driver (one update block) for every bit of s.x, so the design is legal -- but elaborate()
raises NoWriterError or succeeds depending on the iteration order of the block's write SET
(run under several PYTHONHASHSEEDs / with different amounts of garbage allocated before).

  for h in 0 1 2 3 4 5 6 7; do PYTHONHASHSEED=$h python repro_whole_and_part.py; done
"""
from pymtl3 import *
from pymtl3.dsl.errors import NoWriterError

@bitstruct
class In2:
  p: Bits2
  q: Bits2
@bitstruct
class St:
  f: Bits4
  g: In2

def make( pad ):
  class Top( Component ):
    def construct( s ):
      s._pad = [ object() for _ in range(pad) ]   # moves the addresses (= hashes) of later objects
      s.x = Wire( St )
      s.o = OutPort( Bits4 )
      connect( s.x.f, s.o )
      @update
      def blk():
        s.x   @= St()
        s.x.g @= In2()
  return Top()

outcomes = {}
for pad in range(40):
  top = make( pad )
  try:
    top.elaborate()
    w = [ repr(w) for (w, net) in top.get_all_value_nets() if any( repr(m) == "s.o" for m in net ) ]
    r = "ok, writer of the net {s.x.f, s.o} = %s" % w
  except NoWriterError as e:
    r = "NoWriterError"
  outcomes[r] = outcomes.get( r, 0 ) + 1
print( outcomes )
assert len(outcomes) == 1 and not any( k.startswith("NoWriter") for k in outcomes ), \
  "the same legal design is accepted or rejected depending on set iteration order: %s" % outcomes
