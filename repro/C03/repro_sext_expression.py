"""C03 (and C12): sext() of an expression that is not a plain signal gives text that is not valid (System)Verilog.

  PyMTL:    s.out @= sext( s.a + s.b, 8 )        accepted by the translation pass
  emitted:  out = { { 4 { a + b[3] } }, a + b };  the sign bit is taken from `b[3]` only: (a + b[3]) is replicated
            s.out2 @= sext( s.a << 1, 8 )
  emitted:  out2 = { { 4 { a << 1'd1[3] } }, a << 1'd1 };   a select on a literal: syntax error
Run:  PYTHONPATH=/repo /venv/bin/python repro_sext_expression.py
"""
import os, tempfile
from pymtl3 import *
from pymtl3.passes.backends.verilog import VerilogTranslationPass

class Top( Component ):
  def construct( s ):
    s.a = InPort( Bits4 )
    s.b = InPort( Bits4 )
    s.out = OutPort( Bits8 )
    s.out2 = OutPort( Bits8 )
    @update
    def up():
      s.out @= sext( s.a + s.b, 8 )
      s.out2 @= sext( s.a << 1, 8 )

os.chdir( tempfile.mkdtemp() )
top = Top(); top.elaborate(); top.apply( DefaultPassGroup() ); top.sim_reset()
top.a @= 1; top.b @= 1; top.sim_eval_combinational()
print( "PyMTL simulation: a = b = 1 -> out = 0x%02x out2 = 0x%02x" % ( int(top.out), int(top.out2) ) )
m = Top(); m.elaborate(); m.set_metadata( VerilogTranslationPass.enable, True ); m.apply( VerilogTranslationPass() )
lines = [ l.strip() for l in open( m.get_metadata( VerilogTranslationPass.translated_filename ) ) if l.strip().startswith( "out" ) ]
for l in lines: print( "emitted:", l )
assert any( "1'd1[3]" in l for l in lines )               # select on a literal: not SystemVerilog
assert any( "{ a + b[3] }" in l for l in lines )          # sign bit of b only
print( "DEFECT reproduced" )
