"""C03: a descending for-loop whose last value is smaller than the step never terminates in the emitted text.

  PyMTL:    for i in range( 7, 0, -2 ): s.y[i] @= s.x[i]        i = 7, 5, 3, 1
  emitted:  for ( int unsigned i = 3'd7; i > 1'd0; i -= 2'd2 )   after i = 1 the unsigned variable wraps to
            4294967295 > 0: the loop goes on for ever (every odd 32-bit value, again and again)
Run:  PYTHONPATH=/repo /venv/bin/python repro_descending_loop.py
"""
import os, tempfile
from pymtl3 import *
from pymtl3.passes.backends.verilog import VerilogTranslationPass

class Top( Component ):
  def construct( s ):
    s.x = InPort( Bits8 )
    s.y = OutPort( Bits8 )
    @update
    def up():
      s.y @= 0
      for i in range( 7, 0, -2 ):
        s.y[i] @= s.x[i]

os.chdir( tempfile.mkdtemp() )
top = Top(); top.elaborate(); top.apply( DefaultPassGroup() ); top.sim_reset()
top.x @= 0xff; top.sim_eval_combinational()
print( "PyMTL simulation: x = 0xff -> y = 0x%02x (4 iterations)" % int(top.y) )
m = Top(); m.elaborate(); m.set_metadata( VerilogTranslationPass.enable, True ); m.apply( VerilogTranslationPass() )
line = [ l.strip() for l in open( m.get_metadata( VerilogTranslationPass.translated_filename ) ) if l.strip().startswith( "for (" ) ][0]
print( "emitted:", line )
i, n = 7, 0
while i > 0 and n < 1000:                                 # int unsigned i
  i = ( i - 2 ) & 0xffffffff; n += 1
print( "iterations of the emitted loop under IEEE 1800 (cut at 1000):", n, " i =", i )
assert "int unsigned i = 3'd7; i > 1'd0; i -= 2'd2" in line and n == 1000
print( "DEFECT reproduced" )
