"""C03 (and C12): reduce_and/or/xor of a compound expression is emitted without parentheses.

  PyMTL:    s.out @= reduce_xor( s.a != 1 )          a = 2  ->  out = 1
  emitted:  out = ( ^ a != 2'd1 );                   a unary reduction binds tighter than != (IEEE 1800-2017
            table 11-2), i.e. (^a) != 2'd1           a = 2  ->  (^2'b10) = 1, 1 != 1 -> out = 0
Run:  PYTHONPATH=/repo /venv/bin/python repro_reduce_parens.py
"""
import os, tempfile
from pymtl3 import *
from pymtl3.passes.backends.verilog import VerilogTranslationPass
from pymtl3.passes.backends.yosys import YosysTranslationPass

class Top( Component ):
  def construct( s ):
    s.a = InPort( Bits2 )
    s.out = OutPort( Bits1 )
    @update
    def up():
      s.out @= reduce_xor( s.a != 1 )

os.chdir( tempfile.mkdtemp() )
top = Top(); top.elaborate(); top.apply( DefaultPassGroup() ); top.sim_reset()
top.a @= 2; top.sim_eval_combinational()
print( "PyMTL simulation: a = 2 -> out =", top.out )
for P in ( VerilogTranslationPass, YosysTranslationPass ):
  m = Top(); m.elaborate(); m.set_metadata( P.enable, True ); m.apply( P() )
  line = [ l.strip() for l in open( m.get_metadata( P.translated_filename ) ) if l.strip().startswith( "out =" ) ][0]
  print( P.__name__, "emits:", line )
  a = 2
  verilog = int( ( bin(a).count("1") & 1 ) != 1 )      # (^a) != 2'd1
  print( "  IEEE 1800 value for a = 2:", verilog, "(PyMTL: %d)" % int(top.out) )
  assert "( ^ a != 2'd1 )" in line and verilog != int(top.out)
print( "DEFECT reproduced" )
