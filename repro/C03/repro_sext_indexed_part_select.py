"""C03/C12: sext() of a slice with a variable base, `sext( s.a[ s.i : s.i + 5 ], 9 )`, was emitted as
`{ { 4 { a[i +] } }, a[i +: 5] }` - the sign-bit select was cut out of the text `a[i +: 5]` at the colon, which
is not valid SystemVerilog (both back ends share the code).  The sign bit is bit  base + width - 1.
Fixed by "fix: sext() of an indexed part-select takes its sign bit from base + width - 1".
Run:  PYTHONPATH=/repo /venv/bin/python repro_sext_indexed_part_select.py
"""
import atexit, os, shutil, tempfile
from pymtl3 import *
from pymtl3.passes.backends.verilog import VerilogTranslationPass

class Top( Component ):
  def construct( s ):
    s.a = InPort( Bits32 )
    s.i = InPort( Bits5 )
    s.o = OutPort( Bits9 )
    @update
    def up():
      s.o @= sext( s.a[ s.i : s.i + 5 ], 9 )

d = tempfile.mkdtemp(); atexit.register( shutil.rmtree, d, True ); os.chdir( d )
t = Top(); t.elaborate()
t.set_metadata( VerilogTranslationPass.enable, True )
t.apply( VerilogTranslationPass() )
src = open( t.get_metadata( VerilogTranslationPass.translated_filename ) ).read()
line = [ l for l in src.split( "\n" ) if l.strip().startswith( "o = " ) ][0]
print( line )
if "a[i +]" in line:
  print( "DEFECT: `a[i +]` is not an expression" ); raise SystemExit( 1 )
assert "a[i + 5 - 1]" in line
print( "ok" )
