"""C03/C12: an assignment with several targets (`x = y = s.in_`) is ONE statement in PyMTL but is translated
into one assignment per target.  As the only statement of an else-branch or of a for-body it was emitted
without begin ... end, so only the first emitted line stayed inside the branch / loop:

    else:                       else
      x = y = s.in_               __tmpvar__up_y = in_;
                                  __tmpvar__up_x = in_;      <- executed unconditionally

For c = 1 PyMTL keeps x = 0 (o1 = 0), the emitted text gives o1 = in_.  In a for-body the second line even
uses the loop variable outside the loop (undeclared identifier).  Both back ends (the if statement is shared).
Fixed by the commit "fix: emit begin/end around a multi-target assignment that is the only statement of a
branch or loop".  Run:  PYTHONPATH=/repo /venv/bin/python repro_multi_target_single_statement_body.py
"""
import atexit, os, re, shutil, tempfile
from pymtl3 import *
from pymtl3.passes.backends.verilog import VerilogTranslationPass

class Top( Component ):
  def construct( s ):
    s.in_ = InPort( Bits8 )
    s.c   = InPort( Bits1 )
    s.o1  = OutPort( Bits8 )
    s.o2  = OutPort( Bits8 )
    @update
    def up():
      x = y = Bits8(0)
      if s.c:
        s.o2 @= 1
      else:
        x = y = s.in_
      s.o1 @= x
      s.o2 @= y

d = tempfile.mkdtemp(); atexit.register( shutil.rmtree, d, True ); os.chdir( d )
t = Top(); t.elaborate()
t.set_metadata( VerilogTranslationPass.enable, True )
t.apply( VerilogTranslationPass() )
src = open( t.get_metadata( VerilogTranslationPass.translated_filename ) ).read()
blk = src[ src.index( "always_comb" ): ]
print( blk[ : blk.index( "endmodule" ) ] )
m = re.search( r"else( begin)?\s*\n\s*__tmpvar__up_y = in_;\s*\n\s*__tmpvar__up_x = in_;\s*\n\s*(end)?", blk )
assert m, "unexpected text"
if not ( m.group(1) and m.group(2) ):
  print( "DEFECT: the else-branch has two statements but no begin/end: __tmpvar__up_x = in_ runs for c = 1 too" )
  raise SystemExit( 1 )
print( "ok: else-branch wrapped in begin/end" )
