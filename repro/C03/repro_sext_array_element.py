"""C03 (and C12): sext() of an element of a port array replicates the whole element instead of its sign bit.

  PyMTL:    s.out @= sext( s.in_[1], 8 )     in_[1] = 0b0110 (Bits4) -> out = 0x06
  emitted:  out = { { 4 { in_[1'd1] } }, in_[1'd1] };   20 bits, the assignment keeps the low 8: 0x66
Run:  PYTHONPATH=/repo /venv/bin/python repro_sext_array_element.py
"""
import os, tempfile
from pymtl3 import *
from pymtl3.passes.backends.verilog import VerilogTranslationPass

class Top( Component ):
  def construct( s ):
    s.in_ = [ InPort( Bits4 ) for _ in range(2) ]
    s.out = OutPort( Bits8 )
    @update
    def up():
      s.out @= sext( s.in_[1], 8 )

os.chdir( tempfile.mkdtemp() )
top = Top(); top.elaborate(); top.apply( DefaultPassGroup() ); top.sim_reset()
top.in_[1] @= 0b0110; top.sim_eval_combinational()
print( "PyMTL simulation: in_[1] = 0b0110 -> out = 0x%02x" % int(top.out) )
m = Top(); m.elaborate(); m.set_metadata( VerilogTranslationPass.enable, True ); m.apply( VerilogTranslationPass() )
line = [ l.strip() for l in open( m.get_metadata( VerilogTranslationPass.translated_filename ) ) if l.strip().startswith( "out =" ) ][0]
print( "emitted:", line )
x = 0b0110
cat = 0
for _ in range(5): cat = ( cat << 4 ) | x              # { {4{x}}, x }
print( "IEEE 1800 value: 0x%02x" % ( cat & 0xff ) )
assert "{ { 4 { in_[1'd1] } }, in_[1'd1] }" in line and ( cat & 0xff ) != int(top.out)
print( "DEFECT reproduced" )
