"""C17 finding: pymtl3.stdlib.queues.enrdy_queues.BypassQueue2RTL (advertised: bypass queue, 2 entries)
refuses an enqueue while it holds ONE message.

It is two BypassQueue1RTL in series (q1 -> q2) and enq.rdy = ~q1.full.  After both stages are full, a
dequeue empties q2, but q1 cannot push into q2 in the same cycle (q1.deq.rdy = q2.enq.rdy = ~q2.full = 0).
The queue is left with q1 full / q2 empty: one message held, capacity two, enq.rdy = 0 for one cycle.
(The same state is reached from "one message in q2" by an enqueue and a dequeue in the same cycle.)
No message is lost or reordered.

Run:  PYTHONPATH=/repo /venv/bin/python replay/C17/repro_bypassqueue2_enq_rdy.py      (exit 1 = reproduced)
"""
import sys

from pymtl3 import Bits8, DefaultPassGroup
from pymtl3.stdlib.queues.enrdy_queues import BypassQueue2RTL

q = BypassQueue2RTL(Bits8)
q.elaborate()
q.apply(DefaultPassGroup())
q.sim_reset()


def cycle(enq_msg=None, deq=False):
    """One clock cycle with a protocol-legal driver: en only while rdy."""
    q.enq.en @= 0
    q.enq.msg @= 0 if enq_msg is None else enq_msg
    q.deq.rdy @= 1 if deq else 0
    q.sim_eval_combinational()
    if enq_msg is not None:
        assert q.enq.rdy, "enqueue refused"
        q.enq.en @= 1
        q.sim_eval_combinational()
    got = int(q.deq.msg) if q.deq.en else None
    q.sim_tick()
    q.enq.en @= 0
    q.deq.rdy @= 0
    q.sim_eval_combinational()
    return got


cycle(enq_msg=0x11)             # -> q2
cycle(enq_msg=0x22)             # -> q1     (2 messages held, full)
assert int(q.enq.rdy) == 0      # correct: full
got = cycle(deq=True)           # deliver the oldest message
held = 2 - 1                    # accepted 2, delivered 1 (the full bits below are shown for information only)
print("delivered 0x%x, messages held = %d of 2 (q1.full=%d q2.full=%d), enq.rdy = %d"
      % (got, held, int(q.q1.full.out), int(q.q2.full.out), int(q.enq.rdy)))
assert got == 0x11
if int(q.enq.rdy) == 0:
    print("REPRODUCED: not full (1 of 2) but enq.rdy == 0 -- 'enqueue ready iff not full' is broken")
    rest = cycle(deq=True)
    print("next cycle: delivered 0x%x, enq.rdy = %d (the stall lasts one cycle, nothing is lost)" % (rest, int(q.enq.rdy)))
    sys.exit(1)
print("not reproduced: enq.rdy == 1")
