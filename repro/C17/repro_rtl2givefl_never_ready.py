"""C17: RecvRTL2GiveFL (one-entry bypass buffer between an en/rdy RTL producer and an FL consumer) never
raises recv.rdy: up_recv_rtl_rdy computes `s.entry is not None` (inverted) and up_recv_cl clears s.entry
every cycle, so the empty adapter is never ready, accepts nothing, and give() blocks for ever.  (If recv.en
could ever be high, `deepcopy` is also an undefined name.)   run: PYTHONPATH=/repo python repro_rtl2givefl_dead.py"""
from pymtl3 import *
from pymtl3.stdlib.ifcs.get_give_ifcs import RecvRTL2GiveFL

class Top( Component ):
  def construct( s ):
    s.dut = RecvRTL2GiveFL( Bits8 )
    s.val, s.msg = InPort(), InPort( Bits8 )
    @update
    def producer():                        # protocol-legal en/rdy producer: en only while rdy
      s.dut.recv.en  @= s.val & s.dut.recv.rdy
      s.dut.recv.msg @= s.msg
    s.got = []
    @update_once
    def consumer():                        # FL consumer: blocking call, as in the library's FL tests
      s.got.append( int( s.dut.give() ) )

top = Top()
top.elaborate(); top.apply( DefaultPassGroup() ); top.sim_reset()
rdy = []
for i in range( 10 ):
  top.val @= 1; top.msg @= 0x10 + i
  top.sim_tick()
  rdy.append( int( top.dut.recv.rdy ) )
print( "recv.rdy over 10 cycles with an empty buffer:", rdy, " delivered:", top.got )
assert any( rdy ), "the empty adapter is never ready: no message can ever be accepted"
