"""C17: RecvRTL2SendCL hands the *signal object* s.recv.msg to the CL consumer (no copy).  A CL queue that
keeps the message for more than one cycle later delivers whatever the RTL bus carries by then: messages are
invented / duplicated.  Library classes only: enrdy BypassQueue1RTL -> (connect hook inserts RecvRTL2SendCL)
-> NormalQueueCL(2).    run: PYTHONPATH=/repo python repro_rtl2cl_alias.py"""
from pymtl3 import *
from pymtl3.stdlib.queues.cl_queues import NormalQueueCL
from pymtl3.stdlib.queues.enrdy_queues import BypassQueue1RTL

class Top( Component ):
  def construct( s ):
    s.q1 = BypassQueue1RTL( Bits8 )
    s.q2 = NormalQueueCL( 2 )
    connect( s.q1.deq, s.q2.enq )          # SendIfcRTL.connect( CalleeIfcCL ) inserts RecvRTL2SendCL
    s.en, s.msg = InPort(), InPort( Bits8 )
    @update
    def producer():                        # protocol-legal by construction: en only while rdy
      s.q1.enq.en  @= s.en & s.q1.enq.rdy
      s.q1.enq.msg @= s.msg
    s.take, s.out = False, []
    @update_once
    def consumer():
      if s.take and s.q2.deq.rdy():
        s.out.append( int( s.q2.deq() ) )

top = Top()
top.elaborate(); top.apply( DefaultPassGroup() ); top.sim_reset()
for en, msg, take in [ (1, 0x11, 0), (1, 0x22, 0), (0, 0xEE, 0), (0, 0xEE, 1), (0, 0xEE, 1), (0, 0xEE, 1) ]:
  top.en @= en; top.msg @= msg; top.take = bool( take )
  top.sim_tick()
print( "accepted  [0x11, 0x22]   delivered", [ hex(x) for x in top.out ] )
assert top.out == [ 0x11, 0x22 ], "messages delivered differ from the messages accepted"
