"""C12: an array of interfaces nested in an interface is not given its wire form by the yosys back end, but
the update blocks and the connections refer to it: the emitted text uses an undeclared identifier.

  PyMTL:    class Outer( Interface ):  s.inner = [ Inner() for _ in range(3) ]     (Inner: s.msg = InPort( Bits8 ))
            s.a = Outer();  s.out @= s.a.inner[ s.sel ].msg
  emitted:  input logic [7:0] a__inner__0__msg, a__inner__1__msg, a__inner__2__msg     (flattened ports: fine)
            out = a__inner__msg[sel];                                                   (update block)
  but there is neither `logic [7:0] a__inner__msg [0:2];` nor `assign a__inner__msg[i] = a__inner__i__msg;`
  (rtlir_tr_interface_port_decl._gen_ifc in YosysStructuralTranslatorL3.py flattens the nested array into
  separate scalar ports without wire declarations / connections).  The SystemVerilog back end declares
  `input logic [7:0] a__inner__msg [0:2]` and is fine.
Run:  PYTHONPATH=/repo /venv/bin/python repro_nested_ifc_array_undeclared.py
"""
import atexit, os, re, shutil, tempfile
from pymtl3 import *
from pymtl3.passes.backends.yosys import YosysTranslationPass

class Inner( Interface ):
  def construct( s ):
    s.msg = InPort( Bits8 )

class Outer( Interface ):
  def construct( s ):
    s.inner = [ Inner() for _ in range(3) ]

class Top( Component ):
  def construct( s ):
    s.a   = Outer()
    s.sel = InPort( Bits2 )
    s.out = OutPort( Bits8 )
    @update
    def up():
      s.out @= s.a.inner[ s.sel ].msg

tmp = tempfile.mkdtemp(); os.chdir( tmp ); atexit.register( shutil.rmtree, tmp, True )
m = Top(); m.elaborate(); m.set_metadata( YosysTranslationPass.enable, True ); m.apply( YosysTranslationPass() )
text = open( m.get_metadata( YosysTranslationPass.translated_filename ) ).read()
for l in text.splitlines():
  if "a__inner" in l and not l.strip().startswith( "//" ): print( "emitted:", l.strip() )
used     = re.search( r"\ba__inner__msg\[", text ) is not None
declared = re.search( r"logic\s+\[7:0\]\s+a__inner__msg\b", text ) is not None
print( "a__inner__msg used: %s, declared: %s" % ( used, declared ) )
assert used and not declared, "not reproduced (fixed?)"
print( "DEFECT reproduced: the emitted text refers to the undeclared identifier a__inner__msg" )
