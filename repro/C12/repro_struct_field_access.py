"""C12: a struct signal written as a whole and read by field (or written by field) in an update block loses the
connection between the packed variable and the per-field variables of the yosys text.

  PyMTL:    s.w = Wire( Pt ); s.w @= Pt( 1, 2 ); s.out @= s.w.y         -> out = 2
  emitted:  w = { 8'd1, 8'd2 };  out = w__y;       nothing connects w__y to w: w__y is never driven
  and for an output port written by field
  PyMTL:    s.o.x @= s.a                                                   (s.o = OutPort( Pt ))
  emitted:  o__x = a;  ...  assign o__x = o[15:8];   two drivers for o__x, and o itself is never driven
Run:  PYTHONPATH=/repo /venv/bin/python repro_struct_field_access.py
"""
import os, re, tempfile
from pymtl3 import *
from pymtl3.passes.backends.yosys import YosysTranslationPass

@bitstruct
class Pt:
  x: Bits8
  y: Bits8

class Top( Component ):
  def construct( s ):
    s.a = InPort( Bits8 )
    s.out = OutPort( Bits8 )
    s.o = OutPort( Pt )
    s.w = Wire( Pt )
    @update
    def up():
      s.w @= Pt( 1, 2 )
      s.out @= s.w.y
      s.o.x @= s.a
      s.o.y @= 0

os.chdir( tempfile.mkdtemp() )
top = Top(); top.elaborate(); top.apply( DefaultPassGroup() ); top.sim_reset(); top.sim_eval_combinational()
print( "PyMTL simulation: out =", top.out )
m = Top(); m.elaborate(); m.set_metadata( YosysTranslationPass.enable, True ); m.apply( YosysTranslationPass() )
text = open( m.get_metadata( YosysTranslationPass.translated_filename ) ).read()
for l in text.splitlines():
  if re.search( r"\bw__y\b|\bo__x\b|^\s*w =", l ): print( "emitted:", l.strip() )
assert "out = w__y;" in text and not re.search( r"w__y\s*=[^=]", text.replace( "out = w__y", "" ) )
assert "o__x = a;" in text and re.search( r"assign o__x = o\[", text )
print( "DEFECT reproduced: w__y is read but never driven; o__x is driven by the block and by an assign" )
