"""C12: an output port whose struct type contains an array (or a nested struct) gets several drivers per leaf.

  PyMTL:    s.out = OutPort( S )  with  S = { foo: Bits8, bar: [ Bits8 ] * 2 } ;  s.out //= s.in_
  emitted:  assign out__bar__0 = out__bar[0];      <- out__bar is driven by nobody
            assign out__bar__0 = out[7:0];         <- second continuous assignment to the same variable
Run:  PYTHONPATH=/repo /venv/bin/python repro_struct_output_multidriver.py
"""
import os, re, tempfile, collections
from pymtl3 import *
from pymtl3.passes.backends.yosys import YosysTranslationPass

@bitstruct
class S:
  foo: Bits8
  bar: [ Bits8 ] * 2

class Top( Component ):
  def construct( s ):
    s.in_ = InPort( S )
    s.out = OutPort( S )
    s.out //= s.in_

os.chdir( tempfile.mkdtemp() )
m = Top(); m.elaborate(); m.set_metadata( YosysTranslationPass.enable, True ); m.apply( YosysTranslationPass() )
text = open( m.get_metadata( YosysTranslationPass.translated_filename ) ).read()
cnt = collections.Counter( re.findall( r"assign (\w+) =", text ) )
for l in text.splitlines():
  if re.match( r"\s*assign out__bar__0 =", l ): print( "emitted:", l.strip() )
assert cnt[ "out__bar__0" ] == 2
print( "DEFECT reproduced: out__bar__0 has", cnt[ "out__bar__0" ], "continuous assignments" )
