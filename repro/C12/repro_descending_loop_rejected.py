"""C12 (observation, not a violation): the yosys back end cannot translate ANY for-loop with a negative step.

  PyMTL:   for i in range( 7, 1, -1 ): s.out[i] @= s.in_[i]
  YosysBehavioralTranslatorL2.visit_For reads `node.step.value`; for a negative step the RTLIR node is a UnaryOp
  (-1), which has no attribute `value` (the SystemVerilog back end uses `node.step._value`) -> AttributeError.
  (The next line, `cmp_op = '<' if node.step.value > 0 else '<'`, would emit `<` for a descending loop as well.)
The design is therefore rejected by the pass (outside the quantifier of C12: "every design the pass accepts"), so
descending loops - where seeded change C03-B lives - can only be validated on the SystemVerilog back end (C03).
Run:  PYTHONPATH=/repo /venv/bin/python repro_descending_loop_rejected.py
"""
import atexit, os, shutil, tempfile
from pymtl3 import *
from pymtl3.passes.backends.yosys import YosysTranslationPass
from pymtl3.passes.backends.verilog import VerilogTranslationPass

class Top( Component ):
  def construct( s ):
    s.in_ = [ InPort( Bits8 ) for _ in range(8) ]
    s.out = [ OutPort( Bits8 ) for _ in range(8) ]
    @update
    def up():
      for i in range( 8 ):
        s.out[i] @= 0
      for i in range( 7, 1, -1 ):
        s.out[i] @= s.in_[i]

tmp = tempfile.mkdtemp(); os.chdir( tmp ); atexit.register( shutil.rmtree, tmp, True )
for P in ( VerilogTranslationPass, YosysTranslationPass ):
  m = Top(); m.elaborate(); m.set_metadata( P.enable, True )
  try:
    m.apply( P() )
    print( "%-24s accepted" % P.__name__ )
  except Exception as e:
    print( "%-24s raises %s: %s" % ( P.__name__, type(e).__name__, str(e).splitlines()[0] if str(e) else "" ) )
