"""C12: the yosys back end declares loop variables as `integer` (signed) and indexes with size casts N'(i).

  PyMTL:    for i in range(4): s.out[i] @= s.in_[i]
  emitted:  integer __loopvar__up_i;
            for ( __loopvar__up_i = 1'd0; __loopvar__up_i < 3'd4; ... )
              out[2'(__loopvar__up_i)] = in_[2'(__loopvar__up_i)];
  IEEE 1800-2017 6.24.1: a size cast passes the signedness of its operand through, so 2'(i) is a SIGNED 2-bit
  value; for i = 2, 3 it is -2, -1, an index outside [0:3] (7.4.6: the write does nothing, a read gives the
  default value).  The SystemVerilog back end declares `int unsigned i` and is not affected.  Tools that take
  the index bits as unsigned (Verilator) mask the difference.
Run:  PYTHONPATH=/repo /venv/bin/python repro_signed_loopvar.py
"""
import os, tempfile
from pymtl3 import *
from pymtl3.passes.backends.yosys import YosysTranslationPass

class Top( Component ):
  def construct( s ):
    s.in_ = [ InPort( Bits8 ) for _ in range(4) ]
    s.out = [ OutPort( Bits8 ) for _ in range(4) ]
    @update
    def up():
      for i in range(4):
        s.out[i] @= s.in_[i]

os.chdir( tempfile.mkdtemp() )
m = Top(); m.elaborate(); m.set_metadata( YosysTranslationPass.enable, True ); m.apply( YosysTranslationPass() )
text = open( m.get_metadata( YosysTranslationPass.translated_filename ) ).read()
for l in text.splitlines():
  if "__loopvar__" in l: print( "emitted:", l.strip() )
assert "integer __loopvar__up_i;" in text and "out[2'(__loopvar__up_i)]" in text
for i in range(4):
  c = i & 3
  signed = c - 4 if c & 2 else c
  print( "i = %d: 2'(i) as a signed 2-bit value = %2d -> %s" % ( i, signed, "in range" if 0 <= signed <= 3 else "OUT OF RANGE: out[%d] is never written" % i ) )
print( "DEFECT reproduced (under the signedness rules of IEEE 1800 6.24.1)" )
