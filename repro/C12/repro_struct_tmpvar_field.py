"""C12: reading a field of a struct-typed temporary gives an undeclared identifier in the yosys text.

  PyMTL:    u = s.in_ ; s.out @= u.foo
  emitted:  __tmpvar__upblk_u = in_;  out = __foo;        `__foo` is declared nowhere
Run:  PYTHONPATH=/repo /venv/bin/python repro_struct_tmpvar_field.py
"""
import os, re, tempfile
from pymtl3 import *
from pymtl3.passes.backends.yosys import YosysTranslationPass

@bitstruct
class Foo:
  foo: Bits32

class Top( Component ):
  def construct( s ):
    s.in_ = InPort( Foo )
    s.out = OutPort( Bits32 )
    @update
    def upblk():
      u = s.in_
      s.out @= u.foo

os.chdir( tempfile.mkdtemp() )
m = Top(); m.elaborate(); m.set_metadata( YosysTranslationPass.enable, True ); m.apply( YosysTranslationPass() )
text = open( m.get_metadata( YosysTranslationPass.translated_filename ) ).read()
body = text[ text.index( "always_comb" ): ]
print( body[ : body.index( "end" ) + 3 ] )
assert "out = __foo;" in text and not re.search( r"logic[^;]*\b__foo;", text )
print( "DEFECT reproduced: `__foo` is used but never declared" )
