"""C12: inside trunc() (and a few other operators) the yosys back end refers to a struct field / a sub-component
port with the un-flattened SystemVerilog name although the struct port has been flattened to a plain vector.

  PyMTL:    s.out @= trunc( s.in_.f1, 3 )          s.in_ = InPort( S ),  S = { f0: Bits8, f1: Bits7 }
  emitted:  logic [14:0] in_;  ...  out = 3'(in_.f1);      member select on a variable that is not a struct
Run:  PYTHONPATH=/repo /venv/bin/python repro_member_select_flattened.py
"""
import os, tempfile
from pymtl3 import *
from pymtl3.passes.backends.yosys import YosysTranslationPass

@bitstruct
class S:
  f0: Bits8
  f1: Bits7

class Top( Component ):
  def construct( s ):
    s.in_ = InPort( S )
    s.out = OutPort( Bits3 )
    @update
    def up():
      s.out @= trunc( s.in_.f1, 3 )

os.chdir( tempfile.mkdtemp() )
m = Top(); m.elaborate(); m.set_metadata( YosysTranslationPass.enable, True ); m.apply( YosysTranslationPass() )
text = open( m.get_metadata( YosysTranslationPass.translated_filename ) ).read()
for l in text.splitlines():
  if "in_;" in l or "out =" in l: print( "emitted:", l.strip() )
assert "out = 3'(in_.f1);" in text and "typedef struct" not in text
print( "DEFECT reproduced: in_ is a plain 15-bit vector, `in_.f1` is not valid" )
