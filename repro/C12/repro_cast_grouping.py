"""C12: the yosys back end drops a same-width size cast together with the grouping it provides.

  PyMTL:    s.out @= ~Bits8( s.a & s.b )        a = 0x0f, b = 0x3c  ->  out = ~0x0c = 0xf3
  emitted:  out = ~a & b;                       (~a) & b             ->  out = 0xf0 & 0x3c = 0x30
Run:  PYTHONPATH=/repo /venv/bin/python repro_cast_grouping.py
"""
import os, tempfile
from pymtl3 import *
from pymtl3.passes.backends.yosys import YosysTranslationPass

class Top( Component ):
  def construct( s ):
    s.a = InPort( Bits8 )
    s.b = InPort( Bits8 )
    s.out = OutPort( Bits8 )
    @update
    def up():
      s.out @= ~Bits8( s.a & s.b )

os.chdir( tempfile.mkdtemp() )
top = Top(); top.elaborate(); top.apply( DefaultPassGroup() ); top.sim_reset()
top.a @= 0x0f; top.b @= 0x3c; top.sim_eval_combinational()
print( "PyMTL simulation: a = 0x0f, b = 0x3c -> out = 0x%02x" % int(top.out) )
m = Top(); m.elaborate(); m.set_metadata( YosysTranslationPass.enable, True ); m.apply( YosysTranslationPass() )
line = [ l.strip() for l in open( m.get_metadata( YosysTranslationPass.translated_filename ) ) if l.strip().startswith( "out =" ) ][0]
print( "emitted:", line )
verilog = ( ~0x0f & 0xff ) & 0x3c
print( "IEEE 1800 value: 0x%02x" % verilog )
assert line == "out = ~a & b;" and verilog != int(top.out)
print( "DEFECT reproduced" )
