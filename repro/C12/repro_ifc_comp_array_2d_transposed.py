"""C12: the yosys back end ties the flattened ports of a MULTI-DIMENSIONAL array of interfaces / of
sub-components to the wire array with the indices in REVERSED order.

  PyMTL:    s.ifc = [ [ Ifc() for _ in range(3) ] for _ in range(2) ]       (2 x 3; Ifc has s.p = InPort( Bits8 ))
            s.out @= s.ifc[1][2].p
  emitted:  input logic [7:0] ifc__1__2__p, ...          one port per element
            logic [7:0] ifc__p [0:1][0:2];               the wire form the update block reads: ifc__p[1'd1][2'd2]
            assign ifc__p[2][1] = ifc__1__2__p;          <-- element (1,2) drives wire element [2][1]: outside
                                                             [0:1][0:2]; ifc__p[1][2] is driven by nothing
  Same for s.c = [ [ Sub() ... ] ... ]:  assign c__out[2][1] = c__1__2__out;
  (ifc_conn_gen in YosysStructuralTranslatorL3.py and _subcomp_conn_gen / _subcomp_ifc_conn_gen in
  YosysStructuralTranslatorL4.py prepend the index of every further dimension: f"[{i}]{idx}".)  One-dimensional
  arrays - all the repository's golden tests use - are unaffected.
Run:  PYTHONPATH=/repo /venv/bin/python repro_ifc_comp_array_2d_transposed.py
"""
import atexit, os, re, shutil, tempfile
from pymtl3 import *
from pymtl3.passes.backends.yosys import YosysTranslationPass

class Ifc( Interface ):
  def construct( s ):
    s.p = InPort( Bits8 )

class Sub( Component ):
  def construct( s ):
    s.in_ = InPort( Bits8 )
    s.out = OutPort( Bits8 )
    @update
    def up():
      s.out @= s.in_ + 1

class Top( Component ):
  def construct( s ):
    s.ifc = [ [ Ifc() for _ in range(3) ] for _ in range(2) ]
    s.c   = [ [ Sub() for _ in range(3) ] for _ in range(2) ]
    s.out = OutPort( Bits8 )
    for i in range(2):
      for j in range(3):
        s.c[i][j].in_ //= s.ifc[i][j].p
    @update
    def up():
      s.out @= s.ifc[1][2].p + s.c[1][2].out

tmp = tempfile.mkdtemp(); os.chdir( tmp ); atexit.register( shutil.rmtree, tmp, True )
m = Top(); m.elaborate(); m.set_metadata( YosysTranslationPass.enable, True ); m.apply( YosysTranslationPass() )
text = open( m.get_metadata( YosysTranslationPass.translated_filename ) ).read()
top = text[ text.index( "module Top" ): ]
for l in top.splitlines():
  if re.search( r"ifc__p \[|c__out \[|assign ifc__p\[\d\]\[\d\] = ifc__1__2__p|assign c__out\[\d\]\[\d\] = c__1__2__out|out = ", l ):
    print( "emitted:", l.strip() )
bad = 0
for wire, port in ( ( "ifc__p", "ifc__1__2__p" ), ( "c__out", "c__1__2__out" ) ):
  a, b = re.search( r"assign %s\[(\d)\]\[(\d)\] = %s;" % ( wire, port ), top ).groups()
  ok = ( a, b ) == ( "1", "2" )
  bad += not ok
  print( "%s (PyMTL element [1][2]) drives %s[%s][%s]%s" % ( port, wire, a, b, "" if ok else
         "  <-- wire declared [0:1][0:2]; the update block reads %s[1][2]" % wire ) )
assert bad, "not reproduced (fixed?)"
print( "DEFECT reproduced: out = ifc__p[1][2] + c__out[1][2] reads two elements nothing drives" )
