"""C09 (and the reason the shape is not a legal design for C08): two overlapping slices of one
wire are both driven by the same net.  Bit s.a[1] gets two drivers -- s.i[1] through s.a[0:2] and
s.i[0] through s.a[1:3] (Verilog: `assign a[1:0] = i; assign a[2:1] = i;`).  The two drivers of an
"overlapping slices" conflict sit in one net here, and elaborate() accepts the design in every
statement order; in simulation a member of the net does not carry the writer's value.
(Driven by two different nets, or by a net and an update block, the same overlap IS rejected with
MultiWriterError.)
"""
from pymtl3 import *
from pymtl3.dsl.errors import MultiWriterError

class Top( Component ):
  def construct( s ):
    s.a = Wire( Bits4 )
    s.i = InPort( Bits2 )
    connect( s.a[0:2], s.i )
    connect( s.a[1:3], s.i )

top = Top()
try:
  top.elaborate()
except MultiWriterError as e:
  print( "rejected:", str(e).replace("\n", " ") )
  raise SystemExit( 0 )
print( "accepted; nets:", [ (repr(w), sorted(map(repr, n))) for w, n in top.get_all_value_nets() if "clk" not in repr(w) and "reset" not in repr(w) ] )
top.apply( DefaultPassGroup() )
top.sim_reset()
bad = []
for v in range(4):
  top.i @= v
  top.sim_eval_combinational()
  got = ( int(top.a[0:2]), int(top.a[1:3]) )
  print( "i=%d  a[0:2]=%d  a[1:3]=%d" % ( v, *got ) )
  if got != ( v, v ): bad.append( v )
assert not bad, "design with a doubly driven bit accepted; members differ from the writer for i in %s" % bad
