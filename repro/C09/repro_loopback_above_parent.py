"""C09: an OutPort -> InPort loop-back of one component may only be connected in that component's
parent.  Connected inside the component itself pymtl3 reports InvalidConnectionError ("InPort and
OutPort loopback connection is only allowed at parent level").  Connected one level further up (in
the grandparent) the port rule is broken as well, but _check_port_in_nets dies with
AssertionError("Please contact pymtl3 developers.") instead of the corresponding error.
"""
from pymtl3 import *
from pymtl3.dsl.errors import InvalidConnectionError, SignalTypeError

class G( Component ):
  def construct( s ):
    s.i = InPort( Bits4 )
    s.o = OutPort( Bits4 )
    @update
    def up():
      s.o @= 3

class C1( Component ):
  def construct( s ):
    s.g = G()

class Top( Component ):
  def construct( s ):
    s.c1 = C1()
    connect( s.c1.g.o, s.c1.g.i )      # two levels above the ports' host

top = Top()
try:
  top.elaborate()
  print( "accepted" )
except ( InvalidConnectionError, SignalTypeError ) as e:
  print( "rejected with the port-rule error:", type(e).__name__ )
except AssertionError as e:
  print( "AssertionError:", e )
  raise
