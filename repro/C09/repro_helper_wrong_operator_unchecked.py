"""C09 (observation, recorded by the check as the unspecified shape `HelperOp`, not a violation):
the assignment-operator rules of update blocks are not applied to the text of @s.func helpers.

  U1: an @update block whose helper assigns with `<<=`  -> accepted (the same assignment written in
      the block itself raises UpdateBlockWriteError)
  U2: an @update block whose helper assigns with `=`    -> accepted
  F1: an @update_ff block whose helper assigns with `@=` -> accepted (in the block itself:
      UpdateFFBlockWriteError)
  F2: an @update_ff block whose helper assigns with `<<=` (the RIGHT operator) -> accepted, but the
      signal is never marked for double buffering, so the assignment never takes effect in
      simulation (the directly written twin F2d shows 3).

The statement of C09 speaks of the operator "an update block uses"; whether the text of a helper
function counts is left open, so the check accepts every outcome for these designs.
"""
from pymtl3 import *
from pymtl3.passes.PassGroups import DefaultPassGroup


class U1( Component ):
  def construct( s ):
    s.x = Wire( Bits4 ); s.o = OutPort( Bits4 ); s.o //= s.x
    @s.func
    def f(): s.x <<= 3
    @update
    def b(): f()

class U2( Component ):
  def construct( s ):
    s.x = Wire( Bits4 ); s.o = OutPort( Bits4 ); s.o //= s.x
    @s.func
    def f(): s.x = 3
    @update
    def b(): f()

class F1( Component ):
  def construct( s ):
    s.x = Wire( Bits4 ); s.o = OutPort( Bits4 ); s.o //= s.x
    @s.func
    def f(): s.x @= 3
    @update_ff
    def b(): f()

class F2( Component ):
  def construct( s ):
    s.x = Wire( Bits4 ); s.o = OutPort( Bits4 ); s.o //= s.x
    @s.func
    def f(): s.x <<= 3
    @update_ff
    def b(): f()

class F2d( Component ):
  def construct( s ):
    s.x = Wire( Bits4 ); s.o = OutPort( Bits4 ); s.o //= s.x
    @update_ff
    def b(): s.x <<= 3

for cls in ( U1, U2, F1, F2, F2d ):
  t = cls()
  try:
    t.elaborate()
    out = "accepted"
  except Exception as e:
    out = type(e).__name__
  val = ""
  if out == "accepted" and cls in ( F2, F2d ):
    t.apply( DefaultPassGroup() ); t.sim_reset(); t.sim_tick(); t.sim_tick()
    val = " ; s.o after two ticks = %d" % int( t.o )
  print( "%-4s %s%s" % ( cls.__name__, out, val ) )
