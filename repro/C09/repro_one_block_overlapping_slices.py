"""C08/C09: ONE update block writes two overlapping slices of a signal.  Every bit of s.c has one
driver (the block), the design has none of C09's defects -- but elaborate() raises
MultiWriterError("Two-writer conflict between sibling slices ... (in blk) ... (in blk)").
The neighbouring shapes are accepted: one block writing s.c and s.c[2:4] (whole + slice), one block
writing s.c[0:4] and s.c[4:8]; and two DIFFERENT blocks on overlapping slices are rightly rejected.
With the slice s.c[0:2] connected to an output port (C08) no nets are built either.
"""
from pymtl3 import *

class OneBlockOverlap( Component ):
  def construct( s ):
    s.c = Wire( Bits8 )
    s.o = OutPort( Bits2 )
    connect( s.c[0:2], s.o )
    @update
    def blk():
      s.c[0:4] @= 5
      s.c[2:6] @= 9

class OneBlockWholeAndSlice( Component ):   # accepted
  def construct( s ):
    s.c = OutPort( Bits8 )
    @update
    def blk():
      s.c      @= 5
      s.c[2:4] @= 1

for cls in ( OneBlockWholeAndSlice, OneBlockOverlap ):
  top = cls()
  try:
    top.elaborate()
    print( cls.__name__, "-> ok", [ (repr(w), sorted(map(repr, n))) for w, n in top.get_all_value_nets() if w is not None and "clk" not in repr(w) and "reset" not in repr(w) ] )
  except Exception as e:
    print( cls.__name__, "->", type(e).__name__, str(e).replace("\n", " ") )
    raise
