"""C09: a signal connected to itself is a connection loop (InvalidConnectionError "... is in a
connection loop").  That error is only raised when the flood fill reaches the signal from a
neighbour; when the search STARTS at the self-connected signal, `pred[u]` of the search root does
not exist and a raw KeyError escapes from elaborate().  Which one happens depends on the iteration
order of the signal set (statement order / object addresses) when the signal has other neighbours;
with the self connect alone it is always KeyError.
"""
from pymtl3 import *
from pymtl3.dsl.errors import InvalidConnectionError

class SelfOnly( Component ):
  def construct( s ):
    s.w = Wire( Bits4 )
    connect( s.w, s.w )

def with_input( pad ):
  class SelfAndInput( Component ):
    def construct( s ):
      s._pad = [ object() for _ in range(pad) ]
      s.w = Wire( Bits4 )
      s.i = InPort( Bits4 )
      connect( s.w, s.w )
      connect( s.i, s.w )
  return SelfAndInput()

seen = {}
for top in [ SelfOnly() ] + [ with_input( pad ) for pad in range(30) ]:
  try:
    top.elaborate()
    r = "accepted"
  except InvalidConnectionError as e:
    r = "InvalidConnectionError"
  except Exception as e:
    r = "%s(%s)" % ( type(e).__name__, e )
  seen.setdefault( type(top).__name__, {} ).setdefault( r, 0 )
  seen[ type(top).__name__ ][ r ] += 1
print( seen )
assert all( set(v) == {"InvalidConnectionError"} for v in seen.values() ), seen
