"""C10 (known finding): arithmetic / shifts / unary ~ on operands that are Python ints at run time and that the
checker cannot fold to a constant (loop variable, if-expression whose int branch is taken, comparison of two
ints) get a bounded static width (max(n, m) bits, the left operand's bits, 1 bit) while Python computes with
unbounded precision.  The blocks are accepted; simulating them raises a bitwidth error."""
from pymtl3 import *
from pymtl3.passes.rtlir import BehavioralRTLIRGenPass, BehavioralRTLIRTypeCheckPass

class LoopVarPlusOne(Component):
  def construct(s):
    s.o = OutPort(Bits1)
    @update
    def up():
      for i in range(2):
        s.o @= i + 1            # i : 1 bit, 1 : 1 bit -> 1 bit; run time 2

class ShiftByLoopVar(Component):
  def construct(s):
    s.i = InPort(Bits2)
    s.o = OutPort(Bits2)
    @update
    def up():
      for i in range(3):
        s.o @= (1 << i) + s.i   # 1 << i : 1 bit; run time 4

class IfExpIntBranch(Component):
  def construct(s):
    s.c = InPort(Bits1)
    s.o = OutPort(Bits2)
    @update
    def up():
      s.o @= (3 if s.c else 3) + 3     # 2 bits; run time 6

class NotOfIntComparison(Component):
  def construct(s):
    s.o = OutPort(Bits1)
    @update
    def up():
      s.o @= ~(1 == 1)          # Bits1 for the checker; Python: ~True == -2

bad = 0
for cls in (LoopVarPlusOne, ShiftByLoopVar, IfExpIntBranch, NotOfIntComparison):
  m = cls(); m.elaborate()
  try:
    m.apply(BehavioralRTLIRGenPass(m)); m.apply(BehavioralRTLIRTypeCheckPass(m))
  except Exception as e:
    print(cls.__name__, "rejected by the type checker:", str(e).strip().split("\n")[-1]); continue
  m = cls(); m.elaborate(); m.apply(DefaultPassGroup())
  try:
    m.sim_reset(); m.sim_tick(); print(cls.__name__, "accepted; simulation ok")
  except ValueError as e:
    bad += 1; print(cls.__name__, "accepted; simulation raises ValueError:", str(e).split("\n")[0])
raise SystemExit(1 if bad else 0)
