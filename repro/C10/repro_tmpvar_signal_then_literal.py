"""C10: a temporary assigned an explicitly sized signal first and an integer literal later (in a branch) was
treated as an un-sized integer by every later use (the explicit / inferred flag of a temporary was that of the
assignment the checker visited LAST), so a use at another width was accepted and re-sized:

    x = s.in2                 # Bits2
    if s.sel: x = 3           # literal, inferred 2 bits: same data type, accepted
    s.out8 @= x               # accepted; for sel = 0 the simulator raises  LHS Bits8 > RHS Bits2

Fixed by "fix: a temporary variable stays explicitly sized once any assignment gave it a sized value".
Run:  PYTHONPATH=/repo /venv/bin/python repro_tmpvar_signal_then_literal.py
"""
from pymtl3 import *
from pymtl3.passes.rtlir import BehavioralRTLIRGenPass, BehavioralRTLIRTypeCheckPass

class Top( Component ):
  def construct( s ):
    s.in2  = InPort( Bits2 )
    s.sel  = InPort( Bits1 )
    s.out8 = OutPort( Bits8 )
    @update
    def up():
      x = s.in2
      if s.sel:
        x = 3
      s.out8 @= x

t = Top(); t.elaborate()
try:
  t.apply( BehavioralRTLIRGenPass( t ) ); t.apply( BehavioralRTLIRTypeCheckPass( t ) )
  accepted = True
except Exception as e:
  accepted = False; print( "type checker rejects:", type(e).__name__ )
s = Top(); s.elaborate(); s.apply( DefaultPassGroup() )
try:
  s.sim_reset()                     # sel = 0 during reset already
  s.in2 @= 1; s.sel @= 0
  s.sim_eval_combinational(); raised = None
except ValueError as e:
  raised = e
print( "simulation with sel = 0:", "raises " + str(raised).split("\n")[0] if raised else "ok" )
if accepted and raised:
  print( "DEFECT: accepted by the type checker, width error in simulation" ); raise SystemExit( 1 )
print( "ok" )
