"""C10: if-expression whose two branches are both inferred-width integers of different widths.
visit_IfExp (BehavioralRTLIRTypeCheckL2Pass) picks the WIDER branch as the one to re-size (a no-op)
and types the if-expression with the width of `body`, so `3 if c else 4` is a 2-bit expression whose
or-else value needs 3 bits.  Combined with a Bits2 signal the block is accepted, simulation raises
(the same block with the branches swapped, `4 if c else 3`, is rejected: "requires more bits (3)")."""
from pymtl3 import *
from pymtl3.passes.rtlir import BehavioralRTLIRGenPass, BehavioralRTLIRTypeCheckPass

class A(Component):
  def construct(s):
    s.c = InPort(Bits1)
    s.i = InPort(Bits2)
    s.o = OutPort(Bits2)
    @update
    def up():
      s.o @= s.i & (3 if s.c else 4)

m = A(); m.elaborate()
try:
  m.apply(BehavioralRTLIRGenPass(m)); m.apply(BehavioralRTLIRTypeCheckPass(m))     # accepted
except Exception as e:
  print("rejected by the type checker:", str(e).strip().split("\n")[-1]); raise SystemExit(0)
ifexp = m.get_metadata(BehavioralRTLIRGenPass.rtlir_upblks)[m.get_update_block_order()[0]].body[0].value.right
print("accepted; static widths: ifexp", ifexp.Type.get_dtype(), " body", ifexp.body.Type.get_dtype(),
      " orelse", ifexp.orelse.Type.get_dtype())
m = A(); m.elaborate(); m.apply(DefaultPassGroup())
try:
  m.sim_reset(); m.c @= 0; m.sim_tick(); print("simulation ok")
except ValueError as e:
  print("simulation raises ValueError:", str(e).split("\n")[0]); raise SystemExit(1)
