"""C10: an integer assigned to a bitstruct signal is re-sized to the struct's width without a fit check.

`s.out @= 1048576` with `out : Pkt` (20 bits): the type checker accepts the block and types the
literal Vector20 although 1048576 = 2**20 needs 21 bits (the width the checker assigns to the literal
does not hold the value the simulator computes for it; the translated Verilog assigns 20'd1048576 = 0).
The same literal assigned to a Bits20 signal is rejected ("... the integer on the RHS requires more
bits (21)!").

Exits 0 when the property holds (rejected, or the literal is typed with >= 21 bits), 1 otherwise.
"""
import sys

from pymtl3 import *
from pymtl3.passes.rtlir import BehavioralRTLIRGenPass, BehavioralRTLIRTypeCheckPass
from pymtl3.passes.rtlir.errors import PyMTLTypeError


@bitstruct
class Pkt:
  hdr: Bits8
  d: [ Bits2 ] * 6


class A( Component ):
  def construct( s ):
    s.out = OutPort( Pkt )
    @update
    def blk():
      s.out @= 1048576


class B( Component ):
  def construct( s ):
    s.out = OutPort( Bits20 )
    @update
    def blk():
      s.out @= 1048576


def check( cls ):
  m = cls()
  m.elaborate()
  m.apply( BehavioralRTLIRGenPass( m ) )
  try:
    m.apply( BehavioralRTLIRTypeCheckPass( m ) )
  except PyMTLTypeError as e:
    print( f"{cls.__name__}: rejected:", str(e).strip().splitlines()[-1] )
    return None
  blk = m.get_metadata( BehavioralRTLIRGenPass.rtlir_upblks )[ m.get_update_block_order()[0] ]
  nbits = blk.body[0].value.Type.get_dtype().get_length()
  print( f"{cls.__name__}: accepted; the literal 1048576 (needs {(1048576).bit_length()} bits) is typed {nbits} bits" )
  return nbits


check( B )
nbits = check( A )
if nbits is not None and nbits < (1048576).bit_length():
  print( "C10 violated: the width assigned to the literal does not hold its value" )
  sys.exit( 1 )
print( "C10 holds" )
