"""C10: if-expression with one explicitly sized branch and one inferred-width branch that is not a plain
literal.  visit_IfExp (BehavioralRTLIRTypeCheckL2Pass) always types the if-expression with the type of
`body`; the enforcer re-sizes only the leaves of the inferred branch, the `1 + 2` node itself keeps its
inferred 2 bits.  So `(1 + 2) if s.c else s.i` (i : Bits8) has static width 2 (and _is_explicit True), the
simulator computes Bits8.  A temporary holding it is declared 2 bits wide (`logic [1:0] __tmpvar__up_t` in
the generated Verilog), so that s.o is 0x03 instead of 0xff there."""
from pymtl3 import *
from pymtl3.passes.rtlir import BehavioralRTLIRGenPass, BehavioralRTLIRTypeCheckPass

class A(Component):
  def construct(s):
    s.c = InPort(Bits1)
    s.i = InPort(Bits8)
    s.o = OutPort(Bits8)
    @update
    def up():
      t = (1 + 2) if s.c else s.i
      s.o @= zext( t, 8 )

m = A(); m.elaborate()
m.apply(BehavioralRTLIRGenPass(m)); m.apply(BehavioralRTLIRTypeCheckPass(m))       # accepted
ifexp = m.get_metadata(BehavioralRTLIRGenPass.rtlir_upblks)[m.get_update_block_order()[0]].body[0].value
m = A(); m.elaborate(); m.apply(DefaultPassGroup()); m.sim_reset()
m.i @= 0xff; m.c @= 0; m.sim_eval_combinational()
print("accepted; static width of the if-expression:", ifexp.Type.get_dtype(), "_is_explicit", ifexp._is_explicit,
      "; run time: Bits%d" % m.o.nbits, "value", m.o)
raise SystemExit(1 if ifexp.Type.get_dtype().get_length() != 8 else 0)
