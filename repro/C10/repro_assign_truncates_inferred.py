"""C10: an inferred-width (Python int) right-hand side that needs more bits than the assigned signal
is accepted by the RTLIR type checker (the literal is silently re-sized to the target's width, no
implicit-truncation check in _visit_Assign_single_target); simulating the block raises a width error.
Compare: `s.o == 3` / `s.o + 3` with the same Bits1 signal ARE rejected ("requires more bits")."""
from pymtl3 import *
from pymtl3.passes.rtlir import BehavioralRTLIRGenPass, BehavioralRTLIRTypeCheckPass

class Lit(Component):
  def construct(s):
    s.o = OutPort(Bits1)
    @update
    def up():
      s.o @= 3

class IfExpLit(Component):
  def construct(s):
    s.c = InPort(Bits1)
    s.o = OutPort(Bits1)
    @update
    def up():
      s.o @= 3 if s.c else 0

def typecheck(cls):
  m = cls(); m.elaborate()
  m.apply(BehavioralRTLIRGenPass(m)); m.apply(BehavioralRTLIRTypeCheckPass(m))
  blk = m.get_metadata(BehavioralRTLIRGenPass.rtlir_upblks)[m.get_update_block_order()[0]]
  return blk.body[0].value

def simulate(cls):
  m = cls(); m.elaborate(); m.apply(DefaultPassGroup()); m.sim_reset()
  if hasattr(m, "c"): m.c @= 1
  m.sim_tick()

bad = 0
for cls in (Lit, IfExpLit):
  try:
    rhs = typecheck(cls)                                 # accepted (no PyMTLTypeError)
  except Exception as e:
    print(cls.__name__, "rejected by the type checker:", str(e).strip().split("\n")[-1]); continue
  print(cls.__name__, "accepted; static type of the RHS:", rhs.Type.get_dtype())
  try:
    simulate(cls); print("  simulation ok")
  except ValueError as e:
    bad += 1; print("  simulation raises ValueError:", str(e).split("\n")[0])
raise SystemExit(1 if bad else 0)
