"""C10: when an inferred-width term is re-sized to its explicit context (BehavioralRTLIRTypeEnforcerL1/L2),
every inferred leaf below it is set to the context's width -- also the operands of a constant expression
and shift amounts that need MORE bits than the (folded) term.  In `s.i + (16 >> 1)` with i : Bits4 the
folded value 8 fits 4 bits, and the literal 16 is given 4 bits (it needs 5): an implicit truncation the
checker accepts.  The simulator computes i + 8; the generated Verilog reads `i + ( 4'd16 >> 4'd1 )`,
i.e. i + 0."""
from pymtl3 import *
from pymtl3.passes.rtlir import BehavioralRTLIRGenPass, BehavioralRTLIRTypeCheckPass

class A(Component):
  def construct(s):
    s.i = InPort(Bits4)
    s.o = OutPort(Bits4)
    @update
    def up():
      s.o @= s.i + (16 >> 1)

m = A(); m.elaborate()
m.apply(BehavioralRTLIRGenPass(m)); m.apply(BehavioralRTLIRTypeCheckPass(m))       # accepted
shift = m.get_metadata(BehavioralRTLIRGenPass.rtlir_upblks)[m.get_update_block_order()[0]].body[0].value.right
w = shift.left.Type.get_dtype().get_length()
print("accepted; static width of the literal 16:", w, "(least number of bits that holds it: 5)")
m = A(); m.elaborate(); m.apply(DefaultPassGroup()); m.sim_reset(); m.i @= 1; m.sim_eval_combinational()
print("simulation: 1 + (16 >> 1) =", m.o)
raise SystemExit(1 if w < 5 else 0)
