"""C10: constant folding in visit_BinOp (BehavioralRTLIRTypeCheckL2Pass) evaluates a closure constant of
type BitsN with Python-int arithmetic and types the node by the minimal width of that unbounded result,
although one operand is explicitly sized (the node keeps _is_explicit = True).  The simulator computes
Bits7 * int -> Bits7.  So `s.p @= K * 0x7f` (K = Bits7(0x55), p : Bits14) is accepted with static width
14 and simulation raises an explicit width mismatch (LHS Bits14 vs RHS Bits7); conversely the
well-sized `s.q @= K * 0x7f` (q : Bits7) is rejected."""
from pymtl3 import *
from pymtl3.passes.rtlir import BehavioralRTLIRGenPass, BehavioralRTLIRTypeCheckPass

K = Bits7(0x55)

class A(Component):
  def construct(s):
    s.p = OutPort(Bits14)
    @update
    def up():
      s.p @= K * 0x7f

m = A(); m.elaborate()
try:
  m.apply(BehavioralRTLIRGenPass(m)); m.apply(BehavioralRTLIRTypeCheckPass(m))     # accepted
except Exception as e:
  print("rejected by the type checker:", str(e).strip().split("\n")[-1]); raise SystemExit(0)
mul = m.get_metadata(BehavioralRTLIRGenPass.rtlir_upblks)[m.get_update_block_order()[0]].body[0].value
print("accepted; static type of K * 0x7f:", mul.Type.get_dtype(), "_is_explicit", mul._is_explicit,
      "; run time:", repr(K * 0x7f))
m = A(); m.elaborate(); m.apply(DefaultPassGroup())
try:
  m.sim_reset(); m.sim_tick(); print("simulation ok")
except ValueError as e:
  print("simulation raises ValueError:", str(e).split("\n")[0]); raise SystemExit(1)
