"""C10: an integer argument of a bitstruct instantiation is re-sized to the field without a fit check.

`s.out @= Pair( s.a, 2 )` with field `b : Bits1`: the type checker accepts the block (the literal 2,
inferred 2 bits, is silently re-sized to the 1-bit field -- the translated Verilog would hold 1'd2 = 0)
but simulating the block raises 'Value 0x2 is too wide for Bits1!'.  The same literal assigned to the
field directly (`s.out.b @= 2`) is rejected.

Exits 0 when the property holds (accepted => simulation raises no width error), 1 otherwise.
"""
import sys

from pymtl3 import *
from pymtl3.passes.rtlir import BehavioralRTLIRGenPass, BehavioralRTLIRTypeCheckPass
from pymtl3.passes.rtlir.errors import PyMTLTypeError


@bitstruct
class Pair:
  a: Bits4
  b: Bits1


class A( Component ):
  def construct( s ):
    s.a   = InPort( Bits4 )
    s.out = OutPort( Pair )
    @update
    def blk():
      s.out @= Pair( s.a, 2 )


m = A()
m.elaborate()
m.apply( BehavioralRTLIRGenPass( m ) )
try:
  m.apply( BehavioralRTLIRTypeCheckPass( m ) )
  accepted = True
except PyMTLTypeError as e:
  accepted = False
  print( "type checker: rejected:", str(e).strip().splitlines()[-1] )

if accepted:
  blk = m.get_metadata( BehavioralRTLIRGenPass.rtlir_upblks )[ m.get_update_block_order()[0] ]
  lit = blk.body[0].value.values[1]
  print( "type checker: accepted; the literal 2 is typed", lit.Type.get_dtype(), "(2 needs 2 bits)" )

m = A()
m.elaborate()
m.apply( DefaultPassGroup() )
try:
  m.sim_reset()
  raised = None
except ValueError as e:
  raised = str(e).splitlines()[0]
print( "simulation:", raised or "ok" )

if accepted and raised:
  print( "C10 violated: accepted block raises a width error in simulation" )
  sys.exit( 1 )
print( "C10 holds" )
