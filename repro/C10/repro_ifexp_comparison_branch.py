"""C10: if-expression with a comparison as one branch.  visit_IfExp (BehavioralRTLIRTypeCheckL2Pass)
unifies the widths of body and orelse only when both dtypes are rdt.Vector; the result of a comparison
is rdt.Bool, so `s.a if s.c else (s.a == 1)` (a : Bits3) skips the width check altogether: it is
accepted with static width 3, at run time the or-else value is Bits1 and the assignment to the Bits3
port raises an explicit bitwidth mismatch, which the checker is required to reject."""
from pymtl3 import *
from pymtl3.passes.rtlir import BehavioralRTLIRGenPass, BehavioralRTLIRTypeCheckPass

class A(Component):
  def construct(s):
    s.c = InPort(Bits1)
    s.a = InPort(Bits3)
    s.o = OutPort(Bits3)
    @update
    def up():
      s.o @= s.a if s.c else (s.a == 1)

m = A(); m.elaborate()
try:
  m.apply(BehavioralRTLIRGenPass(m)); m.apply(BehavioralRTLIRTypeCheckPass(m))     # accepted
except Exception as e:
  print("rejected by the type checker:", str(e).strip().split("\n")[-1]); raise SystemExit(0)
ifexp = m.get_metadata(BehavioralRTLIRGenPass.rtlir_upblks)[m.get_update_block_order()[0]].body[0].value
print("accepted; static width of the if-expression:", ifexp.Type.get_dtype(),
      " body", ifexp.body.Type.get_dtype(), " orelse", ifexp.orelse.Type.get_dtype())
m = A(); m.elaborate(); m.apply(DefaultPassGroup())
try:
  m.sim_reset(); m.sim_tick(); print("simulation ok")
except ValueError as e:
  print("simulation raises ValueError:", str(e).split("\n")[0]); raise SystemExit(1)
