"""C13 repro: the module name is derived from str(parameter value).  For a function / plain object that is
`<function f1 at 0x7f...>` (hashed because of '<'): the name follows the memory address and differs between
processes (PYTHONHASHSEED changes the allocation pattern; ASLR does it even with a fixed seed).  For a set
of strings, str() follows the hash seed.  Translating the same design in fresh processes gives different text.

run in an empty directory:  PYTHONPATH=/repo python repro_nondet_param_str.py
"""
import os, re, subprocess, sys

SRC = r'''
import re, sys
from pymtl3 import *
from pymtl3.passes.backends.verilog import VerilogTranslationPass as P
def f1( v ): return v + 1
class Child( Component ):
  def construct( s, x ):
    s.in_ = InPort( 8 )
    s.out = OutPort( 8 )
    @update
    def up():
      s.out @= s.in_
top = Child( f1 if sys.argv[1] == 'fn' else { 'alpha', 'beta', 'gamma', 'delta' } )
top.elaborate()
top.set_metadata( P.enable, True )
top.apply( P() )
print( re.search( r'^module (.*)$', open( top.get_metadata( P.translated_filename ) ).read(), re.M ).group( 1 ) )
'''
open( '_nondet_child.py', 'w' ).write( SRC )      # update blocks must live in a real file
bad = False
for kind in ( 'fn', 'set' ):
  names = []
  for seed in ( '0', '1', '2', '3' ):
    env = dict( os.environ, PYTHONHASHSEED=seed )
    names.append( subprocess.run( [ sys.executable, '_nondet_child.py', kind ], env=env, capture_output=True, text=True ).stdout.strip() )
  print( kind, 'parameter: module names under PYTHONHASHSEED 0..3:', names )
  bad |= len( set( names ) ) > 1
assert not bad, 'the emitted text depends on the hash seed / object addresses'
