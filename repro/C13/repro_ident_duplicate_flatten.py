"""C13 repro: hierarchical names are flattened with `__` (child port s.a.out -> a__out, array element
s.b[0] -> b__0, interface port s.x.msg -> x__msg, struct field / array port in the yosys back end) while
user attribute names containing `__` are accepted verbatim.  A wire `s.a__out` next to a child `s.a` with
port `out` is therefore declared twice in the same module scope; likewise s.b[0] / s.b__0 (two instances named
b__0), s.x.msg / s.x__msg (two ports named x__msg).

run in an empty directory:  PYTHONPATH=/repo python repro_ident_duplicate_flatten.py
"""
import collections, re
from pymtl3 import *
from pymtl3.passes.backends.verilog import VerilogTranslationPass
from pymtl3.passes.backends.yosys import YosysTranslationPass

class Child( Component ):
  def construct( s, x=1 ):
    s.in_ = InPort( 8 )
    s.out = OutPort( 8 )
    @update
    def up():
      s.out @= s.in_ + x

class WireVsChildPort( Component ):
  def construct( s ):
    s.in_ = InPort( 8 )
    s.out = OutPort( 8 )
    s.a__out = Wire( 8 )
    s.a = Child( 2 )
    s.a.in_ //= s.in_
    @update
    def up():
      s.a__out @= s.in_
      s.out @= s.a.out + s.a__out

class ListVsScalarChild( Component ):
  def construct( s ):
    s.in_ = InPort( 8 )
    s.o = [ OutPort( 8 ) for _ in range( 3 ) ]
    s.b = [ Child( 2 ) for _ in range( 2 ) ]
    s.b__0 = Child( 3 )
    for i in range( 2 ):
      s.b[i].in_ //= s.in_
      s.b[i].out //= s.o[i]
    s.b__0.in_ //= s.in_
    s.b__0.out //= s.o[2]

class Ifc( Interface ):
  def construct( s ):
    s.msg = InPort( 8 )
    s.val = InPort()

class PortVsIfcPort( Component ):
  def construct( s ):
    s.x = Ifc()
    s.x__msg = InPort( 8 )
    s.out = OutPort( 8 )
    @update
    def up():
      s.out @= s.x.msg + s.x__msg

bad = []
for D in ( WireVsChildPort, ListVsScalarChild, PortVsIfcPort ):
  for P in ( VerilogTranslationPass, YosysTranslationPass ):
    top = D()
    top.elaborate()
    top.set_metadata( P.enable, True )
    top.apply( P() )
    text = open( top.get_metadata( P.translated_filename ) ).read()
    body = re.search( r'^module %s_noparam.*?^endmodule' % D.__name__, text, re.M | re.S ).group( 0 )
    body = re.sub( r'//.*', '', body )
    decls  = re.findall( r'^\s*(?:input|output)?\s*logic\s*(?:\[[^\]]*\])?\s*(\w+)', body, re.M )   # ports, wires
    decls += re.findall( r'^\s*[A-Za-z_]\w*\s+(\w+)\s*$', body, re.M )                               # instances
    dup = sorted( n for n, k in collections.Counter( decls ).items() if k > 1 )
    print( D.__name__, P.__name__, 'declared more than once:', dup )
    if dup: bad.append( ( D.__name__, P.__name__, dup ) )
assert not bad
