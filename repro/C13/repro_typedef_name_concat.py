"""C13 repro (contrived input): the name of a struct typedef is the concatenation
<class>__<field>_<type>...; a nested struct `Msg{ a: T{ c: Bits8 } }` and a flat struct
`Msg{ a_T__c: Bits8 }` both become `Msg__a_T__c_8`.  One typedef is emitted; the ports of the other
component are declared with the wrong struct.

run in an empty directory:  PYTHONPATH=/repo python repro_typedef_name_concat.py
"""
import re
from pymtl3 import *
from pymtl3.passes.backends.verilog import VerilogTranslationPass as P

@bitstruct
class T:
  c: Bits8
def _ta():
  @bitstruct
  class Msg:
    a: T
  return Msg
def _tb():
  @bitstruct
  class Msg:
    a_T__c: Bits8
  return Msg
TA, TB = _ta(), _tb()

class SChild( Component ):
  def construct( s, T ):
    s.mi = InPort( T )
    s.mo = OutPort( T )
    s.mo //= s.mi

class Top( Component ):
  def construct( s ):
    s.a = SChild( TA )
    s.b = SChild( TB )
    s.i1 = InPort( TA ); s.i2 = InPort( TB ); s.m1 = OutPort( TA ); s.m2 = OutPort( TB )
    s.a.mi //= s.i1; s.b.mi //= s.i2; s.a.mo //= s.m1; s.b.mo //= s.m2

top = Top()
top.elaborate()
top.set_metadata( P.enable, True )
top.apply( P() )
text = open( top.get_metadata( P.translated_filename ) ).read()
tds = re.findall( r'typedef struct packed \{(.*?)\}\s*(\w+);', text, re.S )
print( 'typedefs emitted:', [ ( n, ' '.join( b.split() ) ) for b, n in tds ] )
assert sum( n == 'Msg__a_T__c_8' for _, n in tds ) != 1 or 'a_T__c;' in text.replace( ' ;', ';' ) and ' a;' in text, \
  'two different structs share the typedef name Msg__a_T__c_8; one definition is emitted'
