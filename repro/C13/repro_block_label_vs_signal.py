"""C13 repro: an update block may be named like a signal of the same component (python keeps functions and
attributes apart).  The translation emits `logic [7:0] tmp;` and `always_comb begin : tmp` in one module:
a named block and a variable share the module name space (IEEE 1800-2017 3.13), so `tmp` is declared twice.

run in an empty directory:  PYTHONPATH=/repo python repro_block_label_vs_signal.py
"""
import re
from pymtl3 import *
from pymtl3.passes.backends.verilog import VerilogTranslationPass as P

class Top( Component ):
  def construct( s ):
    s.in_ = InPort( 8 )
    s.out = OutPort( 8 )
    s.tmp = Wire( 8 )
    @update
    def tmp():
      s.tmp @= s.in_ + 1
    @update
    def up():
      s.out @= s.tmp

top = Top()
top.elaborate()
top.set_metadata( P.enable, True )
top.apply( P() )
text = re.sub( r'//.*', '', open( top.get_metadata( P.translated_filename ) ).read() )
decl  = re.findall( r'^\s*logic[^;]*\btmp\s*;', text, re.M )
label = re.findall( r'begin\s*:\s*tmp\b', text )
print( 'declarations:', [ ' '.join( d.split() ) for d in decl ], ' block labels:', label )
assert not ( decl and label ), 'identifier tmp is declared twice in module Top_noparam (variable and named block)'
