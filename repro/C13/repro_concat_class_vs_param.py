"""C13 repro (contrived input, same mechanism as the other name collisions): the module name is the plain
concatenation  <class name>__<param>_<value>..., so class `A` with x=1,y=2 and class `A__x_1` with y=2 both
become `A__x_1__y_2`; one definition is emitted for two different components.

run in an empty directory:  PYTHONPATH=/repo python repro_concat_class_vs_param.py
"""
import re
from pymtl3 import *
from pymtl3.passes.backends.verilog import VerilogTranslationPass

class A( Component ):
  def construct( s, x, y ):
    s.in_ = InPort( 8 )
    s.out = OutPort( 8 )
    @update
    def up():
      s.out @= s.in_ + 1

class A__x_1( Component ):
  def construct( s, y ):
    s.in_ = InPort( 8 )
    s.out = OutPort( 8 )
    @update
    def up():
      s.out @= s.in_ + 2

class Top( Component ):
  def construct( s ):
    s.in_ = InPort( 8 )
    s.o1 = OutPort( 8 )
    s.o2 = OutPort( 8 )
    s.a = A( 1, 2 )
    s.b = A__x_1( 2 )
    s.a.in_ //= s.in_
    s.b.in_ //= s.in_
    s.a.out //= s.o1
    s.b.out //= s.o2

P = VerilogTranslationPass
top = Top()
top.elaborate()
top.set_metadata( P.enable, True )
top.apply( P() )
text = open( top.get_metadata( P.translated_filename ) ).read()
mods = re.findall( r'^module (\w+)', text, re.M )
sites = re.findall( r'^\s*(A\w+) ([ab])\s*$', text, re.M )
print( 'modules:', mods, ' sites:', sites )
assert len( set( m for m, _ in sites ) ) == 2, 's.a (in_+1) and s.b (in_+2) share module ' + sites[0][0]
