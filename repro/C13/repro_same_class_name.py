"""C13 repro: two different classes that share __name__ (made by a factory function; the same happens
with `class Stage` defined in two files) collide on the module name `Inner_noparam`.
The translation succeeds silently; the emitted text holds ONE definition (the first child's) and both
instances use it, so s.b computes in_+1 instead of in_+2.

run in an empty directory:  PYTHONPATH=/repo python repro_same_class_name.py
"""
from pymtl3 import *
from pymtl3.passes.backends.verilog import VerilogTranslationPass
from pymtl3.passes.backends.yosys import YosysTranslationPass

def mk( k ):
  class Inner( Component ):
    def construct( s ):
      s.in_ = InPort( 8 )
      s.out = OutPort( 8 )
      @update
      def up():
        s.out @= s.in_ + k
  return Inner

class Top( Component ):
  def construct( s ):
    s.in_ = InPort( 8 )
    s.o1 = OutPort( 8 )
    s.o2 = OutPort( 8 )
    s.a = mk( 1 )()
    s.b = mk( 2 )()
    s.a.in_ //= s.in_
    s.b.in_ //= s.in_
    s.a.out //= s.o1
    s.b.out //= s.o2

bad = 0
for P in ( VerilogTranslationPass, YosysTranslationPass ):
  top = Top()
  top.elaborate()
  top.set_metadata( P.enable, True )
  top.apply( P() )
  text = open( top.get_metadata( P.translated_filename ) ).read()
  code = [ l for l in text.split( '\n' ) if not l.lstrip().startswith( '//' ) ]
  ndef = sum( l.startswith( 'module Inner_noparam' ) for l in code )
  ninst = sum( l.strip().startswith( 'Inner_noparam ' ) for l in code )
  consts = [ l.strip() for l in code if 'localparam' in l or "in_ + 8'd" in l ]
  print( P.__name__, ': definitions of Inner_noparam =', ndef, '; instances =', ninst, '; constants emitted =', consts )
  # s.a adds 1, s.b adds 2: two different bodies are required, but the constant 2 appears nowhere
  if ndef == 1 and ninst == 2 and not any( "d2" in c for c in consts ):
    bad += 1
    print( '  WRONG: s.a (in_+1) and s.b (in_+2) share one module definition; the +2 hardware is lost' )
assert bad == 0, 'module name collision'
