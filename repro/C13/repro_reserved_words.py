"""C13 repro: pymtl3 refuses names that are (System)Verilog reserved words (VerilogReservedKeywordError), but
 (1) its list (verilog/util/utility.py: verilog_keyword) stops at SystemVerilog-2005: the words added by
     IEEE 1800-2009/2012 (let, checker, strong, weak, soft, until, implies, restrict, global, ...) are emitted as
     port / wire / field / instance names;
 (2) the NAME OF A SUB-COMPONENT INSTANCE is never checked: `s.reg = Child()` emits `Child_noparam reg ( .. );`.

run in an empty directory:  PYTHONPATH=/repo python repro_reserved_words.py
"""
import re
from pymtl3 import *
from pymtl3.passes.backends.verilog import VerilogTranslationPass as P

SV2009 = ( "accept_on checker endchecker eventually global implies let nexttime reject_on restrict s_always "
           "s_eventually s_nexttime s_until s_until_with strong sync_accept_on sync_reject_on unique0 until "
           "until_with untyped weak implements interconnect nettype soft" ).split()

def text_of( top ):
  top.elaborate()
  top.set_metadata( P.enable, True )
  top.apply( P() )
  return re.sub( r'//.*', '', open( top.get_metadata( P.translated_filename ) ).read() )

class Ports( Component ):
  def construct( s ):
    s.in_ = InPort( 8 )
    for w in SV2009:
      setattr( s, w, OutPort( 8 ) )
      connect( getattr( s, w ), s.in_ )

class Child( Component ):
  def construct( s ):
    s.in_ = InPort( 8 )
    s.out = OutPort( 8 )
    s.out //= s.in_

class Inst( Component ):
  def construct( s ):
    s.in_ = InPort( 8 )
    s.out = OutPort( 8 )
    s.reg = Child()
    s.reg.in_ //= s.in_
    s.reg.out //= s.out

t = text_of( Ports() )
emitted = [ w for w in SV2009 if re.search( r'output\s+logic\s+\[7:0\]\s+%s\b' % w, t ) ]
print( '(1) reserved words emitted as port names:', emitted )
t = text_of( Inst() )
inst = re.findall( r'^\s*Child_noparam\s+(\w+)\s*$', t, re.M )
print( '(2) instance names:', inst )
assert not emitted and 'reg' not in inst
