"""C13 repro: hardware that depends on something other than (class, construct() arguments) -- here a class
attribute changed between two instantiations -- still gets the same module name; the first body is used for
both instances.

run in an empty directory:  PYTHONPATH=/repo python repro_class_attribute.py
"""
import re
from pymtl3 import *
from pymtl3.passes.backends.verilog import VerilogTranslationPass

class Child( Component ):
  MODE = 1
  def construct( s ):
    s.in_ = InPort( 8 )
    s.out = OutPort( 8 )
    K = Child.MODE
    @update
    def up():
      s.out @= s.in_ + K

def mk( mode ):
  Child.MODE = mode
  return Child()

class Top( Component ):
  def construct( s ):
    s.in_ = InPort( 8 )
    s.o1 = OutPort( 8 )
    s.o2 = OutPort( 8 )
    s.a = mk( 1 )
    s.b = mk( 2 )
    s.a.in_ //= s.in_
    s.b.in_ //= s.in_
    s.a.out //= s.o1
    s.b.out //= s.o2

P = VerilogTranslationPass
top = Top()
top.elaborate()
top.set_metadata( P.enable, True )
top.apply( P() )
text = open( top.get_metadata( P.translated_filename ) ).read()
sites = re.findall( r'^\s*(Child\w+) ([ab])\s*$', text, re.M )
consts = re.findall( r"localparam.*__const__K_at_up\s*=\s*([^;]+);", text )
print( 'sites:', sites, ' constants K emitted:', consts )
assert len( consts ) == 2, 's.a (K=1) and s.b (K=2) share module %s; K=2 is lost' % sites[0][0]
