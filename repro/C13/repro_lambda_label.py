"""C13 repro: the update block generated for `s.out //= lambda: ...` is labelled with the FULL hierarchical
name of the signal (ComponentLevel3._connect_lambda: "_lambda__" + repr(o)), so the text of a module depends
on where its first instance sits: the shared definition Child_noparam carries the label `_lambda__s_a_out`,
while the same component translated on its own (or instantiated as s.b) gives `_lambda__s_out` /
`_lambda__s_b_out`.  Same class, same parameters, same hardware -- but the bodies are not identical texts.

run in an empty directory:  PYTHONPATH=/repo python repro_lambda_label.py
"""
import re
from pymtl3 import *
from pymtl3.passes.backends.verilog import VerilogTranslationPass as P

class Child( Component ):
  def construct( s ):
    s.in_ = InPort( 8 )
    s.out = OutPort( 8 )
    s.out //= lambda: s.in_ + 1

class Top( Component ):
  def construct( s ):
    s.in_ = InPort( 8 )
    s.o1 = OutPort( 8 )
    s.o2 = OutPort( 8 )
    s.a = Child()
    s.b = Child()
    s.a.in_ //= s.in_
    s.b.in_ //= s.in_
    s.a.out //= s.o1
    s.b.out //= s.o2

def labels( top, m ):
  top.elaborate()
  m( top ).set_metadata( P.enable, True )
  top.apply( P() )
  text = open( m( top ).get_metadata( P.translated_filename ) ).read()
  body = re.search( r'^module Child_noparam.*?^endmodule', text, re.M | re.S ).group( 0 )
  return re.findall( r'begin : (\w+)', body )

whole  = labels( Top(), lambda t: t )
only_b = labels( Top(), lambda t: t.b )
alone  = labels( Child(), lambda t: t )
print( 'module Child_noparam, block label: in Top:', whole, ' s.b translated alone:', only_b, ' Child() as top:', alone )
assert whole == only_b == alone, 'the text of module Child_noparam depends on the instance it was generated from'
