"""C13 repro: python identifiers may contain non-ASCII letters; they are emitted verbatim
(`output logic [7:0] größe`), which is not a legal (System)Verilog simple identifier ([A-Za-z_][A-Za-z0-9_$]*).

run in an empty directory:  PYTHONPATH=/repo python repro_unicode_ident.py
"""
import re
from pymtl3 import *
from pymtl3.passes.backends.verilog import VerilogTranslationPass as P

class Top( Component ):
  def construct( s ):
    s.in_ = InPort( 8 )
    s.größe = OutPort( 8 )
    @update
    def up():
      s.größe @= s.in_

top = Top()
top.elaborate()
top.set_metadata( P.enable, True )
top.apply( P() )
text = open( top.get_metadata( P.translated_filename ), encoding='utf-8' ).read()
bad = sorted( set( re.findall( r'[^\x00-\x7f]+', re.sub( r'//.*', '', text ) ) ) )
print( 'non-ASCII runs outside comments:', bad )
assert not bad
