"""C13 repro: a wrapper class named like the class it wraps (`class Wrap` in the user's file wrapping
`impl.Wrap` from a library file) -- both map to module `Wrap_noparam`.  Children are translated first,
so the CHILD's text is stored under the name and the parent's own definition is silently dropped: the
emitted file has no module with the ports of the top component (`extra`).

run in an empty directory:  PYTHONPATH=/repo python repro_parent_child_same_name.py
"""
import re, types, sys
from pymtl3 import *
from pymtl3.passes.backends.verilog import VerilogTranslationPass

def _library():
  class Wrap( Component ):
    def construct( s ):
      s.in_ = InPort( 8 )
      s.out = OutPort( 8 )
      @update
      def up():
        s.out @= s.in_ + 1
  return Wrap
LibWrap = _library()

class Wrap( Component ):
  def construct( s ):
    s.in_ = InPort( 8 )
    s.out = OutPort( 8 )
    s.extra = OutPort( 8 )
    s.inner = LibWrap()
    s.inner.in_ //= s.in_
    s.inner.out //= s.out
    s.extra //= s.in_

P = VerilogTranslationPass
top = Wrap()
top.elaborate()
top.set_metadata( P.enable, True )
top.apply( P() )
text = open( top.get_metadata( P.translated_filename ) ).read()
mods = re.findall( r'^module (\w+)', text, re.M )
print( 'top module name:', top.get_metadata( P.translated_top_module ) )
print( 'modules emitted:', mods, '; text mentions port `extra`:', 'extra' in text,
       '; instantiates inner:', bool( re.search( r'^\s*Wrap_noparam inner', text, re.M ) ) )
assert 'extra' in text and len( mods ) == 2, 'the definition of the top component was dropped'
