"""C13 repro (contrived input): a temporary variable of an update block is declared at module level as
`__tmpvar__<block>_<variable>`; (block `up`, variable `y_x`) and (block `up_y`, variable `x`) both give
`__tmpvar__up_y_x` -- declared twice, with different widths.

run in an empty directory:  PYTHONPATH=/repo python repro_tmpvar_concat.py
"""
import re
from pymtl3 import *
from pymtl3.passes.backends.verilog import VerilogTranslationPass as P

class Top( Component ):
  def construct( s ):
    s.in_ = InPort( 8 )
    s.o1 = OutPort( 8 )
    s.o2 = OutPort( 4 )
    @update
    def up():
      y_x = s.in_ + 1
      s.o1 @= y_x
    @update
    def up_y():
      x = s.in_[0:4]
      s.o2 @= x

top = Top()
top.elaborate()
top.set_metadata( P.enable, True )
top.apply( P() )
text = re.sub( r'//.*', '', open( top.get_metadata( P.translated_filename ) ).read() )
decl = [ ' '.join( d.split() ) for d in re.findall( r'^\s*logic[^;]*__tmpvar__\w+\s*;', text, re.M ) ]
print( 'declarations:', decl )
assert len( set( d.split()[-1] for d in decl ) ) == len( decl ), 'one identifier declared twice'
