"""C13 repro: the parameter part of a module name is str(value), so Child( 1 ) and Child( '1' ) (also
True / 'True', None / 'None', Bits1(1) / 1) get the same name `Child__x_1` although construct() builds
different hardware for them.  One definition is emitted for both.

run in an empty directory:  PYTHONPATH=/repo python repro_param_str_ambiguity.py
"""
import re
from pymtl3 import *
from pymtl3.passes.backends.verilog import VerilogTranslationPass

class Child( Component ):
  def construct( s, x ):
    s.in_ = InPort( 8 )
    s.out = OutPort( 8 )
    K = 2 if isinstance( x, str ) else 4     # e.g. a mode given either as a string or as a number
    @update
    def up():
      s.out @= s.in_ + K

class Top( Component ):
  def construct( s ):
    s.in_ = InPort( 8 )
    s.o1 = OutPort( 8 )
    s.o2 = OutPort( 8 )
    s.a = Child( 1 )
    s.b = Child( '1' )
    s.a.in_ //= s.in_
    s.b.in_ //= s.in_
    s.a.out //= s.o1
    s.b.out //= s.o2

P = VerilogTranslationPass
top = Top()
top.elaborate()
top.set_metadata( P.enable, True )
top.apply( P() )
text = open( top.get_metadata( P.translated_filename ) ).read()
sites = re.findall( r'^\s*(Child\w+) ([ab])\s*$', text, re.M )
consts = re.findall( r"localparam.*__const__K_at_up\s*=\s*([^;]+);", text )
print( 'sites:', sites, ' constants K emitted:', consts )
assert len( set( m for m, _ in sites ) ) == 2, 'Child(1) [K=4] and Child("1") [K=2] share module ' + sites[0][0]
