"""C13 repro: get_component_unique_name hashes the parameter string only when it contains one of
' <>.[]' (or is long); every other character of str(value) goes into the module name verbatim:
Child(-1) -> `Child__x_-1`, Child((1,)) -> `Child__x_(1,)`, Child('a+b') -> `Child__x_a+b`,
a bitstruct value -> `Child__x_1:2`, frozenset -> `Child__x_frozenset({1})`.  None is a legal identifier.

run in an empty directory:  PYTHONPATH=/repo python repro_illegal_module_name.py
"""
import re
from pymtl3 import *
from pymtl3.passes.backends.verilog import VerilogTranslationPass as P

@bitstruct
class Pt:
  x: Bits4
  y: Bits4

class Child( Component ):
  def construct( s, x ):
    s.in_ = InPort( 8 )
    s.out = OutPort( 8 )
    @update
    def up():
      s.out @= s.in_

bad = []
for v in ( -1, ( 1, ), 'a+b', Pt( 1, 2 ), frozenset( [ 1 ] ), 1e100, 2 ):
  top = Child( v )
  top.elaborate()
  top.set_metadata( P.enable, True )
  top.apply( P() )
  text = open( top.get_metadata( P.translated_filename ) ).read()
  name = re.search( r'^module (.*)$', text, re.M ).group( 1 )
  legal = bool( re.fullmatch( r'[A-Za-z_][A-Za-z0-9_$]*', name ) )
  print( 'Child( %r ) -> module %s  %s' % ( v, name, '' if legal else '   <-- not a legal identifier' ) )
  if not legal: bad.append( name )
assert not bad, bad
