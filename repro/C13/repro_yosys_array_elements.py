"""C13 repro (yosys back end only): the elements of a component array may differ in their parameters
(RTLIR only requires the same interface).  YosysStructuralTranslatorL4.rtlir_tr_subcomp_decl takes the
module name of element [0] for EVERY element, so s.mid[1] = Mid(6) is instantiated as `Mid__k_5`;
module Mid__k_6 is emitted but never used.  The SystemVerilog back end instantiates Mid__k_6.

run in an empty directory:  PYTHONPATH=/repo python repro_yosys_array_elements.py
"""
import re
from pymtl3 import *
from pymtl3.passes.backends.verilog import VerilogTranslationPass
from pymtl3.passes.backends.yosys import YosysTranslationPass

class Mid( Component ):
  def construct( s, k ):
    s.in_ = InPort( 8 )
    s.out = OutPort( 8 )
    @update
    def up():
      s.out @= s.in_ ^ k

class Upper( Component ):
  def construct( s ):
    s.in_ = InPort( 8 )
    s.out = OutPort( 8 )
    s.mid = [ Mid( 5 + i ) for i in range( 2 ) ]
    s.mid[0].in_ //= s.in_
    s.mid[1].in_ //= s.mid[0].out
    s.mid[1].out //= s.out

ok = True
for P in ( VerilogTranslationPass, YosysTranslationPass ):
  top = Upper()
  top.elaborate()
  top.set_metadata( P.enable, True )
  top.apply( P() )
  text = open( top.get_metadata( P.translated_filename ) ).read()
  sites = re.findall( r'^\s*(Mid__k_\d+) (mid__\d+)\s*$', text, re.M )
  print( P.__name__, 'instantiation sites in Upper:', sites )
  if sites != [ ( 'Mid__k_5', 'mid__0' ), ( 'Mid__k_6', 'mid__1' ) ]:
    ok = False
    print( '  WRONG: s.mid[1] is Mid( k=6 ) but the text instantiates', sites[1][0] )
assert ok
