"""C13 repro with pymtl3's OWN stdlib: pymtl3.stdlib.queues.NormalQueueRTL (en/rdy interfaces) and
pymtl3.stdlib.stream.queues.NormalQueueRTL (val/rdy interfaces) are two different classes with the same
__name__.  A design that uses both with the same (EntryType, num_entries) gets ONE module
`NormalQueueRTL__EntryType_Bits8__num_entries_2`; the second queue is instantiated with ports the emitted
module does not have.

run in an empty directory:  PYTHONPATH=/repo python repro_stdlib_same_class_name.py
"""
import re
from pymtl3 import *
from pymtl3.passes.backends.verilog import VerilogTranslationPass as P
from pymtl3.stdlib.queues import queues as q_enrdy
from pymtl3.stdlib.stream import queues as q_stream

class Top( Component ):
  def construct( s ):
    s.a = q_enrdy.NormalQueueRTL( Bits8, 2 )
    s.b = q_stream.NormalQueueRTL( Bits8, 2 )
    s.enq_en = InPort(); s.enq_rdy = OutPort(); s.enq_msg = InPort( 8 )
    s.mid_en = Wire(); s.out_val = OutPort(); s.out_rdy = InPort(); s.out_msg = OutPort( 8 )
    s.a.enq.en //= s.enq_en
    s.a.enq.rdy //= s.enq_rdy
    s.a.enq.msg //= s.enq_msg
    s.a.deq.en //= s.mid_en
    s.b.recv.val //= s.mid_en
    s.b.recv.msg //= s.a.deq.ret
    s.b.send.val //= s.out_val
    s.b.send.rdy //= s.out_rdy
    s.b.send.msg //= s.out_msg
    @update
    def up_mid():
      s.mid_en @= s.a.deq.rdy & s.b.recv.rdy

top = Top()
top.elaborate()
top.set_metadata( P.enable, True )
top.apply( P() )
text = re.sub( r'//.*', '', open( top.get_metadata( P.translated_filename ) ).read() )
defs = re.findall( r'^module (NormalQueueRTL\w*)', text, re.M )
qdef = re.search( r'^module NormalQueueRTL\w*\s*\((.*?)\);', text, re.M | re.S ).group( 1 )
ports = re.findall( r'(\w+)\s*,?\s*$', qdef, re.M )
site_b = re.search( r'^\s*NormalQueueRTL\w*\s+b\s*\((.*?)\);', text, re.M | re.S ).group( 1 )
conn_b = re.findall( r'\.(\w+)\s*\(', site_b )
print( 'definitions:', defs )
print( 'ports of the emitted module :', sorted( ports ) )
print( 'ports connected at instance b:', sorted( conn_b ) )
assert set( conn_b ) <= set( ports ), 'instance b connects ports the shared definition does not have: %s' % sorted( set( conn_b ) - set( ports ) )
