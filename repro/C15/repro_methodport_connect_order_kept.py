"""C15 repro: _delete_component filters the parent's connect order by removed SIGNALS only
("TODO method port"): connections to the removed child's method ports stay in
get_connect_order() next to the re-created ones.
Run: PYTHONPATH=/repo python repro_methodport_connect_order_kept.py"""
from pymtl3 import *
from pymtl3.dsl import CalleePort, method_port


class Q(Component):
    def construct(s):
        s.items = []

    @method_port
    def enq(s, msg): s.items.append(msg)


class Top(Component):
    def construct(s):
        s.enq = CalleePort()
        s.foo = Q()
        s.foo.enq //= s.enq


def order(top):
    return [tuple(sorted((repr(a), repr(b)))) for (a, b) in top.get_connect_order()]


fresh = Top(); fresh.elaborate()
top = Top(); top.elaborate()
top.replace_component(top.foo, Q)
print("from scratch :", order(fresh))
print("after replace:", order(top))
print("DEFECT REPRODUCED" if sorted(order(top)) != sorted(order(fresh)) else "ok")
