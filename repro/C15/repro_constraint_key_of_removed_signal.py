"""C15 repro: _uncollect_vars subtracts the removed component's RD/WR-U constraints but leaves the
removed signals as keys (with empty sets) in the dicts returned by get_all_explicit_constraints():
objects of the removed component stay reachable from the top.
Run: PYTHONPATH=/repo python repro_constraint_key_of_removed_signal.py"""
from pymtl3 import *
from pymtl3.dsl import RD, WR, U


class Cons(Component):
    def construct(s):
        s.in_ = InPort(Bits8)
        s.out = OutPort(Bits8)
        s.w = Wire(Bits8)
        s.v = Wire(Bits8)

        @update
        def up_a():
            s.w @= s.in_ + 1
            s.v @= s.in_ & 15

        @update
        def up_b():
            s.out @= s.w | s.v

        s.add_constraints(WR(s.w) < U(up_b), RD(s.v) > U(up_a))


class Plain(Component):
    def construct(s):
        s.in_ = InPort(Bits8)
        s.out = OutPort(Bits8)
        s.out //= s.in_


class Top(Component):
    def construct(s, C):
        s.in_ = InPort(Bits8)
        s.out = OutPort(Bits8)
        s.a = C()
        s.a.in_ //= s.in_
        s.out //= s.a.out


fresh = Top(Plain); fresh.elaborate()
top = Top(Cons); top.elaborate()
top.replace_component(top.a, Plain)
_, rdu, wru, _ = top.get_all_explicit_constraints()
_, frdu, fwru, _ = fresh.get_all_explicit_constraints()
print("from scratch :", dict(frdu), dict(fwru))
print("after replace:", dict(rdu), dict(wru))
print("DEFECT REPRODUCED" if (dict(rdu), dict(wru)) != (dict(frdu), dict(fwru)) else "ok")
