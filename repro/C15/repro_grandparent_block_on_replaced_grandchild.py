"""C15: a block of a component ABOVE the parent of the replaced component reads a port of it
(top: s.out @= s.mid.leaf.out) or calls one of its method ports (top: s.mid.q.deq()).
_delete_component only saves / re-binds what the blocks of the immediate PARENT read, write or call,
so after replace_component the block of the grand-parent still refers to the removed object:
  RTL: replace_component( top.mid.leaf, Leaf2 ) raises NotElaboratedError in top.check()
       (_check_port_in_upblk walks up from the '<deleted>' signal); with check=False the metadata
       get_all_upblk_metadata()[0][up_top] still holds '<deleted>s.mid.leaf.out';
  CL : get_all_upblk_metadata()[2][up_top] still holds the removed method port.
A design built from scratch with the replacement in place has the new objects there.
Exit 1 = reproduced."""
import sys
from pymtl3 import *
from pymtl3.dsl import *

class Leaf( Component ):
  def construct( s ):
    s.in_ = InPort( Bits8 )
    s.out = OutPort( Bits8 )
    @update
    def up_leaf():
      s.out @= s.in_ + 1

class Leaf2( Component ):
  def construct( s ):
    s.in_ = InPort( Bits8 )
    s.out = OutPort( Bits8 )
    @update
    def up_leaf2():
      s.out @= s.in_ + 2

class Mid( Component ):
  def construct( s, Cls ):
    s.in_ = InPort( Bits8 )
    s.leaf = Cls()
    s.leaf.in_ //= s.in_

class Top( Component ):
  def construct( s, Cls ):
    s.in_ = InPort( Bits8 )
    s.out = OutPort( Bits8 )
    s.mid = Mid( Cls )
    s.mid.in_ //= s.in_
    @update
    def up_top():
      s.out @= s.mid.leaf.out     # two levels down: legal (reads of ports are not restricted)

class Q( Component ):
  def construct( s ):
    s.v = 0
  @method_port
  def deq( s ):
    return 1

class Q2( Component ):
  def construct( s ):
    s.v = 0
  @method_port
  def deq( s ):
    return 2

class MidCL( Component ):
  def construct( s, Cls ):
    s.q = Cls()

class TopCL( Component ):
  def construct( s, Cls ):
    s.mid = MidCL( Cls )
    s.got = []
    @update_once
    def up_top():
      s.got.append( s.mid.q.deq() )

def names( d ):
  return sorted( (b.__name__, sorted( repr(x) for x in xs )) for b, xs in d.items() if b.__name__ == "up_top" )

bad = 0

a = Top( Leaf ); a.elaborate()
try:
  a.replace_component( a.mid.leaf, Leaf2 )
  print( "RTL: replace_component did not raise" )
except Exception as e:
  print( "RTL: replace_component raised", type(e).__name__ ); bad = 1
a = Top( Leaf ); a.elaborate()
a.replace_component( a.mid.leaf, Leaf2, check=False )
b = Top( Leaf2 ); b.elaborate()
ra, rb = names( a.get_all_upblk_metadata()[0] ), names( b.get_all_upblk_metadata()[0] )
print( "RTL reads of up_top: replaced", ra, " from scratch", rb )
bad |= ra != rb

c = TopCL( Q ); c.elaborate()
c.replace_component( c.mid.q, Q2 )
d = TopCL( Q2 ); d.elaborate()
cc, cd = names( c.get_all_upblk_metadata()[2] ), names( d.get_all_upblk_metadata()[2] )
print( "CL  calls of up_top: replaced", cc, " from scratch", cd )
bad |= cc != cd

sys.exit( 1 if bad else 0 )
