"""C15 repro: the parent connects / reads a SLICE of a port of the child.  replace_component
re-creates the slice on the replacement's port by evaluating the saved name, but only after the
replacement's signals were collected, so the slice is in the adjacency dict and in the nets but
not among the design's signals (get_all_object_filter), unlike in the design built from scratch.
Run: PYTHONPATH=/repo python repro_spawned_slice_not_registered.py"""
from pymtl3 import *
from pymtl3.dsl import Signal


class Child(Component):
    def construct(s):
        s.in_ = InPort(Bits8)
        s.out = OutPort(Bits8)

        @update
        def up_child():
            s.out @= s.in_ + 1


class Top(Component):
    def construct(s):
        s.in_ = InPort(Bits8)
        s.lo = OutPort(Bits4)
        s.hi = OutPort(Bits4)
        s.a = Child()
        s.a.in_ //= s.in_
        s.lo //= s.a.out[0:4]                 # connection to a slice of the child's port

        @update
        def up_hi():
            s.hi @= s.a.out[4:8]              # block reading a slice of the child's port


def signals(top):
    return sorted(repr(x) for x in top.get_all_object_filter(lambda x: isinstance(x, Signal)))


fresh = Top(); fresh.elaborate()
top = Top(); top.elaborate()
top.replace_component(top.a, Child)
missing = sorted(set(signals(fresh)) - set(signals(top)))
print("signals of the design built from scratch missing after replace_component:", missing)
adj = {repr(k) for k in top.get_signal_adjacency_dict()}
print("... although they are in get_signal_adjacency_dict():", [m for m in missing if m in adj])
print("DEFECT REPRODUCED" if missing else "ok")
