"""C15 repro (same root cause as repro_parent_constraint_on_child_port.py, for M constraints): a
method constraint declared by the parent on a method port of the replaced child keeps pointing at
the removed method port in get_all_explicit_constraints().
Run: PYTHONPATH=/repo python repro_parent_method_constraint_on_child.py"""
from collections import deque
from pymtl3 import *
from pymtl3.dsl import M, U, MethodPort, method_port, update_once


class Q(Component):
    def construct(s):
        s.q = deque()

    @method_port
    def enq(s, msg): s.q.appendleft(msg)


class Top(Component):
    def construct(s):
        s.foo = Q()
        s.n = 0

        @update_once
        def up_src():
            s.foo.enq(s.n)

        @update_once
        def up_other():
            s.n += 1

        s.add_constraints(M(s.foo.enq) < U(up_other))


def mc(top):
    return sorted((repr(a), b.__name__, "is the live s.foo.enq: %s" % (a is top.foo.enq))
                  for (a, b, eq) in top.get_all_explicit_constraints()[3] if isinstance(a, MethodPort))


fresh = Top(); fresh.elaborate()
top = Top(); top.elaborate()
top.replace_component(top.foo, Q)
print("from scratch :", mc(fresh))
print("after replace:", mc(top))
print("DEFECT REPRODUCED" if mc(fresh) != mc(top) else "ok")
