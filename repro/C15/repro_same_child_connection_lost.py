"""C15 repro: a connection the PARENT makes between two ports of the same child (s.d.en //=
s.d.out[7]) is dropped by replace_component: _delete_component only saves connections whose other
end is outside the removed component.  The net is gone from get_all_value_nets(), the port is
undriven, and with a replacement that forwards the port to its own child replace_component raises
NoWriterError although the target design builds from scratch.
Run: PYTHONPATH=/repo python repro_same_child_connection_lost.py"""
from pymtl3 import *


class Leaf(Component):
    def construct(s):
        s.in_ = InPort(Bits8)
        s.en = InPort(Bits1)
        s.out = OutPort(Bits8)

        @update
        def up_leaf():
            s.out @= s.in_ + zext(s.en, 8)


class Nest(Component):
    def construct(s):
        s.in_ = InPort(Bits8)
        s.en = InPort(Bits1)
        s.out = OutPort(Bits8)
        s.x = Leaf()
        s.x.in_ //= s.in_
        s.x.en //= s.en
        s.out //= s.x.out


class Top(Component):
    def construct(s, C):
        s.in_ = InPort(Bits8)
        s.out = OutPort(Bits8)
        s.d = C()
        s.d.in_ //= s.in_
        s.d.en //= s.d.out[7]               # parent connects two ports of the same child
        s.out //= s.d.out


def nets(top):
    return sorted(sorted(map(repr, net)) for (w, net) in top.get_all_value_nets())


fresh = Top(Leaf); fresh.elaborate()
top = Top(Leaf); top.elaborate()
top.replace_component(top.d, Leaf)
lost = [n for n in nets(fresh) if n not in nets(top)]
print("nets of the design built from scratch missing after replace_component:", lost)
bad = bool(lost)
ok = Top(Nest); ok.elaborate()                                   # builds from scratch
top = Top(Leaf); top.elaborate()
try:
    top.replace_component(top.d, Nest)
    print("replace_component(s.d, Nest) ok")
except Exception as e:
    print("replace_component(s.d, Nest) raises %s: %s" % (type(e).__name__, " ".join(str(e).split())))
    bad = True
print("DEFECT REPRODUCED" if bad else "ok")
