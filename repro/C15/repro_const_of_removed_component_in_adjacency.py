"""C15 repro: a constant connected INSIDE the removed component (s.x.en //= 0 in Nest) stays a key of
get_signal_adjacency_dict(), mapping to the removed ('<deleted>') signal.
Run: PYTHONPATH=/repo python repro_const_of_removed_component_in_adjacency.py"""
from pymtl3 import *


class Leaf(Component):
    def construct(s):
        s.in_ = InPort(Bits8)
        s.en = InPort(Bits1)
        s.out = OutPort(Bits8)

        @update
        def up_leaf():
            s.out @= s.in_ + zext(s.en, 8)


class Nest(Component):
    def construct(s):
        s.in_ = InPort(Bits8)
        s.en = InPort(Bits1)
        s.out = OutPort(Bits8)
        s.x = Leaf()
        s.x.in_ //= s.in_
        s.x.en //= 0                        # constant owned by the (to be removed) component
        s.out //= s.x.out


class Top(Component):
    def construct(s, C):
        s.in_ = InPort(Bits8)
        s.out = OutPort(Bits8)
        s.a = C()
        s.a.in_ //= s.in_
        s.a.en //= 1
        s.out //= s.a.out


def adj(top):
    return sorted((repr(k), sorted(map(repr, vs))) for k, vs in top.get_signal_adjacency_dict().items() if vs)


fresh = Top(Leaf); fresh.elaborate()
top = Top(Nest); top.elaborate()
top.replace_component(top.a, Leaf)
extra = [e for e in adj(top) if e not in adj(fresh)]
print("adjacency entries after replace that the design built from scratch lacks:", extra)
print("DEFECT REPRODUCED" if extra else "ok")
