"""C15 repro: a RD/WR-U constraint declared by the parent on a port of the replaced child keeps
pointing at the removed signal (get_all_explicit_constraints), the replacement's port has no
constraint, and simulation passes then crash on the removed signal.
Run: PYTHONPATH=/repo python repro_parent_constraint_on_child_port.py"""
from pymtl3 import *
from pymtl3.dsl import RD, U


class Child(Component):
    def construct(s):
        s.in_ = InPort(Bits8)
        s.out = OutPort(Bits8)

        @update
        def up_child():
            s.out @= s.in_ + 1


class Top(Component):
    def construct(s):
        s.in_ = InPort(Bits8)
        s.out = OutPort(Bits8)
        s.g = Child()
        s.g.in_ //= s.in_

        @update
        def up_top():
            s.out @= s.g.out + 1

        s.add_constraints(RD(s.g.out) > U(up_top))


def rdu(top):
    return sorted((repr(sig), sign, blk.__name__) for sig, cs in top.get_all_explicit_constraints()[1].items()
                  for (sign, blk) in cs)


fresh = Top(); fresh.elaborate()
top = Top(); top.elaborate()
top.replace_component(top.g, Child)
print("from scratch :", rdu(fresh))
print("after replace:", rdu(top))
assert rdu(fresh) == [("s.g.out", -1, "up_top")]
bad = rdu(top) != rdu(fresh)
try:
    top.apply(DefaultPassGroup())
    print("simulation passes applied")
except Exception as e:
    import traceback; traceback.print_exc()
    bad = True
print("DEFECT REPRODUCED" if bad else "ok")
