"""C15: replace_component on a LIST ELEMENT of a parent that holds set_param entries raised
`NameError: name 'ParamTreeNode' is not defined` (Component._add_component copies the parameter-tree code of
the naming hook for list elements, but Component.py did not import ParamTreeNode); a plain attribute goes
through the hook and worked.  Fixed by "fix: import ParamTreeNode in Component.py ...".
Run:  PYTHONPATH=/repo /venv/bin/python repro_set_param_list_element_replace.py
"""
from pymtl3 import *

class Leaf( Component ):
  def construct( s, k=1 ):
    s.in_ = InPort( Bits8 )
    s.out = OutPort( Bits8 )
    K = k
    @update
    def up():
      s.out @= s.in_ + K

class LeafX( Component ):
  def construct( s, k=1 ):
    s.in_ = InPort( Bits8 )
    s.out = OutPort( Bits8 )
    K = k
    @update
    def up():
      s.out @= s.in_ ^ K

class Top( Component ):
  def construct( s ):
    s.in_ = InPort( Bits8 )
    s.out = [ OutPort( Bits8 ) for _ in range(2) ]
    s.xs  = [ Leaf() for _ in range(2) ]
    for i in range(2):
      s.xs[i].in_ //= s.in_
      s.out[i]    //= s.xs[i].out

top = Top()
top.set_param( "top.xs[1].construct", k=5 )
top.elaborate()
try:
  top.replace_component( top.xs[1], LeafX )
except NameError as e:
  print( "DEFECT: replace_component raises", repr(e) ); raise SystemExit( 1 )
top.apply( DefaultPassGroup() ); top.sim_reset()
top.in_ @= 3; top.sim_eval_combinational()
assert int( top.out[1] ) == 3 ^ 5, top.out[1]      # the replacement got k = 5, as a fresh build would
print( "ok" )
