"""C15 repro: _delete_component/_add_component only handle Component/Signal/MethodPort objects.
An Interface (here the non-blocking CalleeIfcCL `peek`) of the removed child stays in
get_all_object_filter() and in the calls of the parent's update block (get_all_upblk_metadata),
the replacement's interface is in neither, and the schedule ignores the replacement's
M(deq) < M(peek) < M(enq) constraints, so the two designs simulate differently.
Run: PYTHONPATH=/repo python repro_interface_not_replaced.py"""
from collections import deque
from pymtl3 import *
from pymtl3.dsl import M, Interface, method_port, non_blocking, update_once


class QByp(Component):          # enq < deq < peek
    def construct(s):
        s.q = deque()
        s.add_constraints(M(s.enq) < M(s.deq), M(s.deq) < M(s.peek))

    @method_port
    def enq(s, msg): s.q.appendleft(msg)

    @method_port
    def deq(s): return s.q.pop() if s.q else None

    @non_blocking(lambda s: len(s.q) > 0)
    def peek(s): return s.q[-1]


class QPipe(Component):         # deq < peek < enq
    def construct(s):
        s.q = deque()
        s.add_constraints(M(s.deq) < M(s.peek), M(s.peek) < M(s.enq))

    @method_port
    def enq(s, msg): s.q.appendleft(msg)

    @method_port
    def deq(s): return s.q.pop() if s.q else None

    @non_blocking(lambda s: len(s.q) > 0)
    def peek(s): return s.q[-1]


class Top(Component):
    def construct(s, Q):
        s.foo = Q()
        s.n = 0
        s.seen = []

        @update_once
        def up_src():
            s.foo.enq(s.n); s.n += 1

        @update_once
        def up_sink():
            s.foo.deq()

        @update_once
        def up_peek():
            if s.foo.peek.rdy():
                s.seen.append((s.n, s.foo.peek()))   # (items enqueued so far, head)


def view(top):
    ifcs = sorted((repr(x), x is top.foo.peek) for x in top.get_all_object_filter(lambda x: isinstance(x, Interface)))
    calls = top.get_all_upblk_metadata()[2]
    blk = next(b for b in calls if b.__name__ == "up_peek")
    called = sorted((repr(x), x is top.foo.peek) for x in calls[blk] if isinstance(x, Interface))
    return ifcs, called


def sim(top):
    top.apply(DefaultPassGroup()); top.sim_reset()
    for _ in range(5): top.sim_tick()
    return top.seen


fresh = Top(QPipe); fresh.elaborate()
top = Top(QByp); top.elaborate()
top.replace_component(top.foo, QPipe)
print("from scratch  (name, is the live object):", view(fresh))
print("after replace (name, is the live object):", view(top))
a, b = sim(fresh), sim(top)
print("peeked, from scratch :", a)
print("peeked, after replace:", b)
print("DEFECT REPRODUCED" if view(fresh) != view(top) or a != b else "ok")
