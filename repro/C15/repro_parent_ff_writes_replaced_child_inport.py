"""C15: a parent update_ff block writes the in-port of a child (s.c.in_ <<= s.in_).  After
replace_component(s.c, Leaf2) the new port is not marked as double-buffered, so the register never
commits: the replaced design simulates differently from the same design built from scratch.
Exit 1 = reproduced."""
import sys
from pymtl3 import *

class Leaf( Component ):
  def construct( s, k=1 ):
    s.in_ = InPort( Bits8 )
    s.out = OutPort( Bits8 )
    @update
    def up_leaf():
      s.out @= s.in_ + k

class Leaf2( Component ):
  def construct( s, k=1 ):
    s.in_ = InPort( Bits8 )
    s.out = OutPort( Bits8 )
    @update
    def up_leaf2():
      s.out @= s.in_ + k + 1

class Top( Component ):
  def construct( s, Cls ):
    s.in_ = InPort( Bits8 )
    s.out = OutPort( Bits8 )
    s.c = Cls( 3 )
    s.c.out //= s.out
    @update_ff
    def up_top():
      s.c.in_ <<= s.in_

def run( top ):
  top.apply( DefaultPassGroup() )
  top.sim_reset()
  tr = []
  for v in [1,5,9,200]:
    top.in_ @= v
    top.sim_tick()
    tr.append( int(top.out) )
  return tr

a = Top( Leaf ); a.elaborate()
a.replace_component( a.c, Leaf2 )
b = Top( Leaf2 ); b.elaborate()
ta, tb = run( a ), run( b )
print( "replaced:", ta, " from scratch:", tb )
sys.exit( 0 if ta == tb else 1 )
