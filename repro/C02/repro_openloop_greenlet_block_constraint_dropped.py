"""C02 (CL part, open loop): constraints between a top-level method and a block that calls a blocking method
are dropped.

GenDAGPass records M(top.push) < U(b0), U(b1) < M(top.pull) (and the pairs derived from M(x) < M(y) when a
block calls x and y is a top-level callee) in top._dag.top_level_callee_constraints with the ORIGINAL block
functions.  WrapGreenletPass replaces blocks that call @blocking / CalleeIfcFL / CallerIfcFL methods by
greenlet tickers in final_upblks / all_constraints only; OpenLoopCLPass keeps an edge only when both ends are
scheduled vertices, so every such constraint silently disappears and the slot of push / pull is placed
anywhere relative to the block.  (With @method_port instead of @blocking in Leaf all 20 tie-breaks are right.)

Run:  PYTHONPATH=/repo python repro_openloop_greenlet_block_constraint_dropped.py
"""
import random

from pymtl3 import *
from pymtl3.passes.autotick.OpenLoopCLPass import OpenLoopCLPass
from pymtl3.passes.sim.GenDAGPass import GenDAGPass
from pymtl3.passes.sim.WrapGreenletPass import WrapGreenletPass

log = []

class Leaf( Component ):
  def construct( s ): pass
  @blocking
  def work( s ): return 1

class Top( Component ):
  def construct( s ):
    s.l = Leaf()
    @update_once
    def b0():
      log.append("b0"); s.l.work()
    @update_once
    def b1():
      log.append("b1"); s.l.work()
    s.add_constraints( M(s.push) < U(b0), U(b1) < M(s.pull) )
  @method_port
  def push( s ): log.append("push")
  @method_port
  def pull( s ): log.append("pull")

def first_cycle_after( call ):
  top = Top()
  top.elaborate()
  GenDAGPass()( top ); WrapGreenletPass()( top ); OpenLoopCLPass( print_line_trace=False )( top )
  del log[:]
  getattr( top, call )()      # the very first call of the simulation: everything logged is in cycle 1
  return list( log )

bad = 0
for seed in range(20):
  random.seed( seed )
  a = first_cycle_after( "push" )
  random.seed( seed )
  b = first_cycle_after( "pull" )
  msgs = []
  if "b0" in a:      msgs.append( f"b0 ran before push in the same cycle {a}" )
  if "b1" not in b:  msgs.append( f"pull ran before b1 in the same cycle {b}" )
  if msgs:
    bad += 1
    print( f"tie-break {seed}: " + "; ".join( msgs ) )
print( f"{'VIOLATED' if bad else 'ok'}: M(push) < U(b0) / U(b1) < M(pull) broken within one cycle for {bad} of 20 tie-breaks" )
