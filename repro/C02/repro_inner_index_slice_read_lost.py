"""C02/C01: a signal used as a list index in an INNER position of a reference, written as a slice of a
signal (s.arr[ s.selw[1:2] ][0:4]), is not recorded as read by the update block, so the block that writes
s.selw is not ordered before the reader.  Exit 1 = reproduced (some schedule runs the reader first)."""
import random, sys
from pymtl3 import *
from pymtl3.passes.PassGroups import SimpleSimPass

class Top( Component ):
  def construct( s ):
    s.si  = InPort( Bits4 )
    s.arr = [ Wire( Bits8 ) for _ in range(2) ]
    s.selw = Wire( Bits4 )
    s.o   = OutPort( Bits8 )
    @update
    def ws():
      s.selw @= s.si
    @update
    def we():
      s.arr[0] @= 0x11
      s.arr[1] @= 0x22
    @update
    def r0():
      s.o @= zext( s.arr[ s.selw[1:2] ][0:4], 8 )

bad = 0
for seed in range(20):
  random.seed( seed )
  m = Top()
  m.elaborate()
  m.apply( SimpleSimPass() )
  m.sim_reset()
  m.si @= 0b0010          # selw[1] = 1 -> arr[1][0:4] = 2
  m.sim_eval_combinational()
  if m.o != 2:
    bad += 1
print( "schedules with a stale result:", bad, "of 20" )
sys.exit( 1 if bad else 0 )
