"""C02 (CL part): U(v) < M(x) is not applied to a caller of x that is itself declared U(b0) < M(x).

b0 and b1 both call x.  U(b0) < M(x) (b0 before the other callers of x) and U(v) < M(x) (v before every
call of x) are declared.  GenDAGPass._process_methods skips (v, b0) because of its test
`if blk not in pred[u]`, so v and b0 are unordered and x is invoked (by b0) before v has run.

Run:  PYTHONPATH=/repo python repro_self_constrained_block_drops_other_constraint.py
Expected (property C02): ('v', 'b0') among the block-level constraints; v runs before b0 in every schedule.
"""
from pymtl3 import *
from pymtl3.passes.sim.GenDAGPass import GenDAGPass
from pymtl3.passes.PassGroups import DefaultPassGroup

log = []

class Leaf( Component ):
  def construct( s ): pass
  @method_port
  def x( s ): log.append("x")

class Top( Component ):
  def construct( s ):
    s.l = Leaf()
    @update_once
    def b0(): log.append("b0"); s.l.x()
    @update_once
    def b1(): log.append("b1"); s.l.x()
    @update_once
    def v(): log.append("v")
    s.add_constraints( U(b0) < M(s.l.x), U(v) < M(s.l.x) )

top = Top(); top.elaborate(); GenDAGPass()( top )
cons = sorted( (a.__name__, b.__name__) for a, b in top._dag.all_constraints if a.__name__[0] != 's' )
print( "block-level constraints:", cons )
top = Top(); top.apply( DefaultPassGroup() ); top.sim_tick()
print( "cycle:", log )
print( "ok" if ('v', 'b0') in cons else "VIOLATED: nothing orders v before b0, which invokes x" )
