"""C02 (CL part): OpenLoopCLPass does not follow a chain of method constraints from a top-level method.

M(pull) < M(mid) and M(mid) < M(push) are declared (nobody calls mid); `<` is transitive (GenDAGPass follows
such chains between methods that update blocks call), so within a cycle pull must come before push: when
the test bench calls push and then pull, pull belongs to the NEXT cycle.  For some tie-break seeds both
calls land in the same cycle, push first.

Run:  PYTHONPATH=/repo python repro_openloop_chain_not_followed.py
"""
import random
from pymtl3 import *
from pymtl3.passes.sim.GenDAGPass import GenDAGPass
from pymtl3.passes.autotick.OpenLoopCLPass import OpenLoopCLPass

class Leaf( Component ):
  def construct( s ):
    s.add_constraints( M(s.pull) < M(s.mid), M(s.mid) < M(s.push) )
  @method_port
  def push( s ): pass
  @method_port
  def pull( s ): pass
  @method_port
  def mid( s ): pass

class Top( Component ):
  def construct( s ):
    s.l = Leaf()
    s.push = CalleePort(); s.push //= s.l.push
    s.pull = CalleePort(); s.pull //= s.l.pull      # mid is not exposed: it has no slot of its own
    @update_once
    def blk(): pass

bad = 0
for seed in range(8):
  top = Top(); top.elaborate(); GenDAGPass()( top )
  random.seed( seed )
  OpenLoopCLPass( print_line_trace=False )( top )
  top.push(); c0 = top.sim_cycle_count()
  top.pull(); c1 = top.sim_cycle_count()
  print( "seed", seed, "push in cycle", c0, "pull in cycle", c1 )
  bad += c1 == c0
print( "VIOLATED for %d of 8 seeds: pull ran after push inside one cycle" % bad if bad else "ok" )
