"""C02 (CL part): HeuTopoUnrollSim cannot schedule a design with a block that calls a blocking method.

WrapGreenletPass replaces every update block that calls a @blocking / CalleeIfcFL / CallerIfcFL method by a
greenlet ticker in top._dag.final_upblks.  HeuristicTopoPass.schedule_intra_cycle computes `branchiness` for
the original blocks (top.get_all_update_blocks()) only and then looks up branchiness[v] for the scheduled
vertices V = final_upblks - update_ff, so it raises KeyError for the ticker: the (acyclic) design is refused
by this scheduler instead of being scheduled.  Mamba2020Pass handles the tickers (blk_greenlet_mapping).

Run:  PYTHONPATH=/repo python repro_heutopo_greenlet_ticker_keyerror.py
"""
from pymtl3 import *
from pymtl3.passes.mamba.PassGroups import HeuTopoUnrollSim, Mamba2020

log = []

class Leaf( Component ):
  def construct( s ):
    s.add_constraints( M(s.x) < M(s.y) )
  @blocking
  def x( s ): log.append("x")
  @blocking
  def y( s ): log.append("y")

class Top( Component ):
  def construct( s ):
    s.l = Leaf()
    @update_once
    def b0(): s.l.y()
    @update_once
    def b1(): s.l.x()

for name, pg in ( ("Mamba2020", Mamba2020), ("HeuTopoUnrollSim", HeuTopoUnrollSim) ):
  top = Top()
  del log[:]
  try:
    top.apply( pg( print_line_trace=False ) )
  except KeyError as e:
    print( f"VIOLATED: {name} refuses a schedulable design: KeyError {e}" )
  else:
    top.sim_tick()
    print( f"ok: {name} scheduled it; invocation order in the cycle: {log}" )
