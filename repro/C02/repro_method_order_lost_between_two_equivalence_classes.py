"""C02 (CL part): M(x) < M(y) is lost when BOTH callers reach x and y only through M(..) == M(..) classes.

Leaf declares M(x) < M(y).  PX.fwd calls x, PY.fwd calls y through caller ports; each pass-through declares
M(fwd) == M(out) (pymtl3's convention for a method that calls a method).  b_y calls py.fwd, b_x calls px.fwd:
x is invoked inside b_x, y inside b_y, so b_x has to run before b_y.  GenDAGPass._process_methods looks for the
callers of a constrained method only at the method named by the M(..) < M(..) constraint itself (`if v in
method_blks`), not at the members of its == class, and expands == classes only for the method it started from:
with an == class on both ends no block-level constraint is derived and the schedule is a coin flip.
(With a class on one end only -- b_x calling s.leaf.x directly -- the walk from the other end finds the pair.)

Run:  PYTHONPATH=/repo python repro_method_order_lost_between_two_equivalence_classes.py
"""
import random

from pymtl3 import *
from pymtl3.passes.PassGroups import SimpleSimPass

log = []

class Leaf( Component ):
  def construct( s ):
    s.add_constraints( M(s.x) < M(s.y) )
  @method_port
  def x( s ): log.append("x")
  @method_port
  def y( s ): log.append("y")

class Fwd( Component ):
  def construct( s ):
    s.out = CallerPort()
    s.add_constraints( M(s.fwd) == M(s.out) )
  @method_port
  def fwd( s ): s.out()

class Top( Component ):
  def construct( s ):
    s.leaf = Leaf()
    s.px, s.py = Fwd(), Fwd()
    s.px.out //= s.leaf.x
    s.py.out //= s.leaf.y
    @update_once
    def b_y(): s.py.fwd()
    @update_once
    def b_x(): s.px.fwd()

bad = 0
for seed in range(20):
  random.seed( seed )
  top = Top()
  top.apply( SimpleSimPass() )
  del log[:]
  top.sim_tick()
  if log != ["x", "y"]:
    bad += 1
print( f"{'VIOLATED' if bad else 'ok'}: y invoked before x although M(x) < M(y) for {bad} of 20 tie-breaks" )
