"""C02 (CL part): OpenLoopCLPass ignores M(deq) < M(enq) when enq is a top-level callee method (called by
the test bench) and deq is called by an internal update block: for some tie-break seeds the top-level
call runs BEFORE the block although the constraint orders every deq before every enq.

Run:  PYTHONPATH=/repo python repro_openloop_toplevel_vs_inner_method.py
Expected (property C02): 'consumer/deq' printed before 'enq' in every cycle, for every seed.
"""
import random
from pymtl3 import *
from pymtl3.passes.sim.GenDAGPass import GenDAGPass
from pymtl3.passes.autotick.OpenLoopCLPass import OpenLoopCLPass

log = []

class Q( Component ):
  def construct( s ):
    s.add_constraints( M(s.deq) < M(s.enq) )      # pipe behaviour
  @method_port
  def enq( s ): log.append("enq")
  @method_port
  def deq( s ): log.append("deq")

class Top( Component ):
  def construct( s ):
    s.q = Q()
    s.push = CalleePort()
    s.push //= s.q.enq                             # the test bench calls top.push() == q.enq()
    @update_once
    def consumer():
      s.q.deq()

bad = 0
for seed in range(8):
  del log[:]
  top = Top()
  top.elaborate()
  GenDAGPass()( top )
  random.seed( seed )
  OpenLoopCLPass( print_line_trace=False )( top )
  top.push(); top.push()                           # second call finishes cycle 0
  first_cycle = log[:2]
  print( "seed", seed, "cycle 0:", first_cycle )
  bad += first_cycle != ["deq", "enq"]
print( "VIOLATED for %d of 8 seeds" % bad if bad else "ok" )
