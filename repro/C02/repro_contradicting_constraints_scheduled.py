"""C02 (CL part): contradicting explicit constraints are scheduled instead of rejected.

M(x) < M(y) (declared by the leaf), b0 calls x, b1 calls y  =>  b0 before b1.
U(b1) < M(x) (declared by the parent)                       =>  b1 before b0 (b0 invokes x).
A constraint cycle that carries no signal; the statement asks for an error.  GenDAGPass._process_methods
silently drops the pair derived from M(x) < M(y) ("INVALID if we have explicit constraint"), every scheduler
accepts the design, and y is invoked before x although M(x) < M(y).

Run:  PYTHONPATH=/repo python repro_contradicting_constraints_scheduled.py
"""
from pymtl3 import *
from pymtl3.dsl.errors import UpblkCyclicError
from pymtl3.passes.PassGroups import DefaultPassGroup

log = []

class Leaf( Component ):
  def construct( s ):
    s.add_constraints( M(s.x) < M(s.y) )
  @method_port
  def x( s ): log.append("x")
  @method_port
  def y( s ): log.append("y")

class Top( Component ):
  def construct( s ):
    s.l = Leaf()
    @update_once
    def b0(): s.l.x()
    @update_once
    def b1(): s.l.y()
    s.add_constraints( U(b1) < M(s.l.x) )

top = Top()
try:
  top.apply( DefaultPassGroup() )
except UpblkCyclicError:
  print( "ok: rejected" )
else:
  top.sim_tick()
  print( "VIOLATED: scheduled; invocation order in the cycle:", log, "although M(x) < M(y)" )
