"""C18: a CL master reading 2 bytes from a MagicMemoryFL through MemIfcCL2FLAdapter.
The direct connection to MagicMemoryCL answers rd:..:0x3344; the adapter raises ValueError
(RespType( ..., s.right.read( addr, len_ ) ) gets a Bits16 for the Bits32 data field)."""
from pymtl3 import *
from pymtl3.stdlib.mem import MagicMemoryFL, mk_mem_msg
from pymtl3.stdlib.mem.mem_ifcs import MemIfcCL2FLAdapter

Req, Resp = mk_mem_msg(8, 32, 32)

class Top(Component):
  def construct(s):
    s.mem = MagicMemoryFL(1 << 13)
    s.adp = MemIfcCL2FLAdapter(Req, Resp)
    connect(s.adp.right, s.mem.ifc)
    s.got = []
    s.reqs = [Req(1, 0, 0x1000, 0, 0x11223344),   # write word
              Req(0, 1, 0x1000, 2, 0)]            # read 2 bytes (len = 2)
    @update_once
    def up_master():
      if s.reqs and s.adp.left.req.rdy():
        s.adp.left.req(s.reqs.pop(0))
    connect(s.adp.left.resp, s.recv)
  @non_blocking(lambda s: True)
  def recv(s, msg):
    s.got.append(str(msg))

top = Top(); top.elaborate(); top.apply(DefaultPassGroup()); top.sim_reset()
for _ in range(6):
  top.sim_tick()          # -> ValueError: The Bits16 object on RHS is too narrow to be used to construct Bits32!
print(top.got)            # expected: ['wr:00:0:0:        ', 'rd:01:0:2:00003344']
