"""C18 repro: stream.MagicMemoryRTL applied a request in every cycle in which it was merely OFFERED
(req val high) although the response pipe was full (req rdy low), i.e. before it was accepted.  A
stalled amo.add was therefore added once per stalled cycle (up_mem tested `send.val` only).  Fixed in
/repo by 1fc3b85 (`send.val & send.rdy`).

One port, extra_latency 1, a sink that does not take anything for 12 cycles.  Three reads fill the
response pipe, then ONE amo.add of 1 to the word at 0x1000 (initially 5) waits at the request port.

  PYTHONPATH=/repo python repro_stream_mem_amo_reapplied.py
fixed code  : word = 6, amo response (old value) = 5                       -> exit 0
unfixed code: word = 5 + number of cycles the request was presented (11) = 16,
              amo response = 15, the value before the last of these additions -> exit 1
"""
import sys
from pymtl3 import *
from pymtl3.stdlib.mem.MemMsg import MemMsgType, mk_mem_msg
from pymtl3.stdlib.stream.magic_memory import MagicMemoryRTL
from pymtl3.stdlib.stream.SourceRTL import SourceRTL
from pymtl3.stdlib.stream.SinkRTL import SinkRTL

Req, Resp = mk_mem_msg( 8, 32, 32 )
ADDR = 0x1000
reqs = [ Req( MemMsgType.READ, i, ADDR + 16, 0, 0 ) for i in range(3) ] + \
       [ Req( MemMsgType.AMO_ADD, 3, ADDR, 0, 1 ) ]
got = []

def record( msg, _expected ):      # the sink's comparison function: accept and record everything
  got.append( msg.clone() )
  return True

class Top( Component ):
  def construct( s ):
    s.src  = SourceRTL( Req, reqs )
    s.mem  = MagicMemoryRTL( 1, [ (Req, Resp) ], stall_prob=0, extra_latency=1, mem_nbytes=1 << 13 )
    s.sink = SinkRTL( Resp, [ None ] * len(reqs), initial_delay=12, cmp_fn=record )
    s.src.send      //= s.mem.ifc[0].req
    s.mem.ifc[0].resp //= s.sink.recv
  def line_trace( s ):
    return s.mem.line_trace()

top = Top()
top.elaborate()
top.mem.write_mem( ADDR, bytearray([ 5, 0, 0, 0 ]) )
top.apply( DefaultPassGroup() )
top.sim_reset()
offered = accepted = 0
for _ in range(40):
  req = top.mem.ifc[0].req
  if int(req.val) and req.msg.type_ == MemMsgType.AMO_ADD:
    offered  += 1
    accepted += int(req.rdy)
  top.sim_tick()

word = int.from_bytes( top.mem.read_mem( ADDR, 4 ), 'little' )
amo  = [ int(m.data) for m in got if m.type_ == MemMsgType.AMO_ADD ]
print( f"amo.add presented for {offered} cycles, accepted {accepted} time(s)" )
print( f"responses received: {len(got)} of {len(reqs)}; amo.add response data (old value): {amo}" )
print( f"memory word: 5 -> {word}   (one amo.add of 1 must give 6)" )
ok = accepted == 1 and len(got) == len(reqs) and word == 6 and amo == [ 5 ]
print( "OK: applied exactly once" if ok else f"DEFECT: the amo.add was applied {word - 5} times" )
sys.exit( 0 if ok else 1 )
