--------------------------------- MODULE BV ---------------------------------
(***************************************************************************)
(* Bit-vectors of arbitrary width for TLC (whose integers are 32-bit).     *)
(*                                                                         *)
(* USE      B == INSTANCE BV WITH LB <- 15        then  B!Add(a, b)  ...   *)
(*          (LB = bits per limb; 2 <= LB <= 15 keeps every intermediate    *)
(*          limb product below 2^31.  The self check BVSelfCheck.tla also  *)
(*          runs the library with LB = 2 and 3 so that multi-limb carry    *)
(*          paths are exercised at widths 1..6.)                           *)
(*                                                                         *)
(* VALUE    a bit-vector is the record  [w |-> width, d |-> <<limbs>>]     *)
(*          with  w >= 1,  Len(d) = NL(w) = ceil(w / LB),  limbs least     *)
(*          significant first, every limb in 0 .. 2^LB-1 and the top limb  *)
(*          below 2^TopBits(w):   value = SUM d[k] * 2^(LB*(k-1)) < 2^w.   *)
(*          IsBV(a) states exactly this.  JSON: {"w": 8, "d": [180]}.      *)
(*          Every operator returns normalised vectors (concrete tuples).   *)
(*                                                                         *)
(* MEANING  Val(a) is the natural number above.  Each operator is the      *)
(*          mathematical operation on Val reduced modulo 2^w:              *)
(*                                                                         *)
(*   constructors   Zero(w) One(w) Ones(w) Pow2(w,k)  FromNat(w,n) (n mod  *)
(*                  2^w, 0 <= n < 2^31)     ToNat(a) (only if FitsNat(a),  *)
(*                  i.e. Val(a) < 2^30)  Mk(w,d) (limb sequence d of any   *)
(*                  length, reduced mod 2^w)  FromBits(w, f) (bit i = f(i))*)
(*   bit access     Bit(a,i) in {0,1} (0 outside 0..w-1)   IsZero(a)       *)
(*   arithmetic     Add Sub Mul Neg (same width operands, result width w)  *)
(*                  AddC(a,b,cin)   MulFull(a,b) (width a.w+b.w, exact)    *)
(*                  DivMod(a,b) = <<a div b, a mod b>> (b # 0, bit serial, *)
(*                  cost O(w * NL)), Div, Mod                              *)
(*                  IsQuotRem(a,b,q,r)  <=>  b # 0 /\ a = q*b + r /\ r < b *)
(*                  (cheap check of a given quotient/remainder pair)       *)
(*   bitwise        And Or Xor Not                                         *)
(*   shifts         Shl(a,s) Shr(a,s) with s a TLC natural; result width   *)
(*                  a.w; s >= a.w gives 0                                  *)
(*   comparison     Eq(a,b) (widths may differ: compares values)  Lt Le    *)
(*                  LtNat(a,n) GeNat(a,n)  for a TLC natural n             *)
(*   structure      Slice(a,lo,hi) = bits lo..hi-1, width hi-lo            *)
(*                  SetSlice(a,lo,hi,v): bits lo..hi-1 := v (v.w = hi-lo), *)
(*                  all other bits kept                                    *)
(*                  Concat(a,b): a is the HIGH part;  ConcatSeq(<<x1..xn>>)*)
(*                  x1 most significant                                    *)
(*                  Zext(a,n) Sext(a,n) (n >= a.w)  Trunc(a,n) (n <= a.w)  *)
(*                  Resize(a,n) = Val(a) mod 2^n at width n (any n >= 1)   *)
(*   reductions     RedAnd RedOr RedXor  -> 0 or 1 (naturals)              *)
(*   measures       BitLen(a) = least L with Val(a) < 2^L                  *)
(*                  IsClog2(a,k) <=> 2^k >= Val(a) /\ (k = 0 \/ 2^(k-1) <  *)
(*                  Val(a));  Clog2(a) = the k with IsClog2 (Val(a) >= 1)  *)
(*   signed view    SignBit(a), IsNegative(a); Abs2c(a) = magnitude of the *)
(*                  two's complement reading (width w, value <= 2^(w-1))   *)
(*                                                                         *)
(* No operator recurses deeper than LB frames: limb loops are FoldLeft     *)
(* (Java override in SequencesExt), bit-level operators are function       *)
(* constructors over a bit accessor.  TLCEval forces the lazily built      *)
(* limb functions so that later limb accesses are array lookups.           *)
(*                                                                         *)
(* Cost guide (LB = 15, w = 1023, 69 limbs): Add/And/Shl/Slice < 1 ms,     *)
(* Mul ~ 2 400 limb products, DivMod ~ 1 000 Add+Lt rounds (slow: use      *)
(* IsQuotRem to check a known quotient).                                   *)
(***************************************************************************)
EXTENDS Integers, Sequences
LOCAL INSTANCE SequencesExt
LOCAL INSTANCE TLC

CONSTANT LB

Base       == 2^LB
NL(w)      == (w + LB - 1) \div LB
TopBits(w) == w - LB * (NL(w) - 1)
LOCAL Idx(n)      == [i \in 1..n |-> i]
LOCAL Sum(f(_), n) == FoldLeft(LAMBDA acc, j : acc + f(j - 1), 0, Idx(n))   \* f(0)+...+f(n-1)

IsBV(a) == /\ a.w \in Nat /\ a.w >= 1
           /\ Len(a.d) = NL(a.w)
           /\ \A k \in 1..Len(a.d) : a.d[k] \in 0..(Base - 1)
           /\ a.d[NL(a.w)] < 2^TopBits(a.w)

LOCAL LimbAt(d, k) == IF k >= 1 /\ k <= Len(d) THEN d[k] ELSE 0

\* limb sequence d (any length, limbs in 0..Base-1) reduced modulo 2^w
Mk(w, d) == [w |-> w,
             d |-> TLCEval([k \in 1..NL(w) |->
                      IF k < NL(w) THEN LimbAt(d, k) ELSE LimbAt(d, k) % 2^TopBits(w)])]

Bit(a, i) == IF i < 0 \/ i >= a.w THEN 0
             ELSE (a.d[(i \div LB) + 1] \div 2^(i % LB)) % 2

\* the vector of width w whose bit i is f(i)  (f(i) in {0,1})
FromBits(w, f(_)) ==
    [w |-> w,
     d |-> TLCEval([k \in 1..NL(w) |->
              LET lo == (k - 1) * LB
                  n  == IF k < NL(w) THEN LB ELSE TopBits(w)
              IN  Sum(LAMBDA j : f(lo + j) * 2^j, n)])]

Zero(w)    == [w |-> w, d |-> TLCEval([k \in 1..NL(w) |-> 0])]
Ones(w)    == [w |-> w, d |-> TLCEval([k \in 1..NL(w) |->
                                 IF k < NL(w) THEN Base - 1 ELSE 2^TopBits(w) - 1])]
Pow2(w, e) == FromBits(w, LAMBDA i : IF i = e THEN 1 ELSE 0)          \* 2^e mod 2^w
One(w)     == Pow2(w, 0)
IsZero(a)  == \A k \in 1..Len(a.d) : a.d[k] = 0

\* small naturals (TLC ints, 0 <= n < 2^31)
FromNat(w, n) == FromBits(w, LAMBDA i : IF i < 31 THEN (n \div 2^i) % 2 ELSE 0)      \* n mod 2^w
FitsNat(a)    == \A i \in 30..(a.w - 1) : Bit(a, i) = 0
ToNat(a)      == Sum(LAMBDA i : Bit(a, i) * 2^i, IF a.w < 30 THEN a.w ELSE 30)

---------------------------------------------------------------------------
\* arithmetic

AddC(a, b, cin) ==
    LET step(acc, k) == LET s == a.d[k] + b.d[k] + acc[2]
                        IN  <<Append(acc[1], s % Base), s \div Base>>
    IN  Mk(a.w, FoldLeft(step, <<<<>>, cin>>, Idx(NL(a.w)))[1])

Not(a) == [w |-> a.w,
           d |-> TLCEval([k \in 1..NL(a.w) |->
                    (IF k < NL(a.w) THEN Base - 1 ELSE 2^TopBits(a.w) - 1) - a.d[k]])]

Add(a, b) == AddC(a, b, 0)
Sub(a, b) == AddC(a, Not(b), 1)             \* a + (2^w - 1 - b) + 1  =  a - b  (mod 2^w)
Neg(a)    == AddC(Zero(a.w), Not(a), 1)

Mul(a, b) ==
    LET n == NL(a.w)
        row(acc, i) ==
            IF a.d[i] = 0 THEN acc
            ELSE LET m == a.d[i]
                     st(s, j) == LET t == acc[j] + m * b.d[j - i + 1] + s[2]
                                 IN  <<Append(s[1], t % Base), t \div Base>>
                 IN  FoldLeft(st, <<SubSeq(acc, 1, i - 1), 0>>,
                              [x \in 1..(n - i + 1) |-> i + x - 1])[1]
    IN  Mk(a.w, FoldLeft(row, [k \in 1..n |-> 0], Idx(n)))

Resize(a, n) == Mk(n, a.d)                  \* Val(a) mod 2^n at width n
Zext(a, n)   == Resize(a, n)                \* n >= a.w
Trunc(a, n)  == Resize(a, n)                \* n <= a.w
MulFull(a, b) == Mul(Resize(a, a.w + b.w), Resize(b, a.w + b.w))

\* comparison of values (widths may differ)
LOCAL MaxLen(a, b) == IF Len(a.d) >= Len(b.d) THEN Len(a.d) ELSE Len(b.d)
Eq(a, b) == \A k \in 1..MaxLen(a, b) : LimbAt(a.d, k) = LimbAt(b.d, k)
\* -1 / 0 / 1: the most significant differing limb decides (later fold steps override earlier ones)
Cmp(a, b) == FoldLeft(LAMBDA c, k : IF LimbAt(a.d, k) = LimbAt(b.d, k) THEN c
                                     ELSE IF LimbAt(a.d, k) < LimbAt(b.d, k) THEN -1 ELSE 1,
                      0, Idx(MaxLen(a, b)))
Lt(a, b) == Cmp(a, b) = -1
Le(a, b) == ~Lt(b, a)
LtNat(a, n) == Lt(a, FromNat(31, n))
GeNat(a, n) == ~LtNat(a, n)

\* <<a div b, a mod b>>, b # 0; restoring division, most significant bit first.
\* The partial remainder is kept at width w+1 so that 2r+1 never wraps.
DivMod(a, b) ==
    LET w  == a.w
        b1 == Resize(b, w + 1)
        step(s, j) ==                       \* s = <<quotient bits (msb first), remainder>>
            LET r2 == AddC(s[2], s[2], Bit(a, w - j))
            IN  IF Lt(r2, b1) THEN <<Append(s[1], 0), r2>>
                              ELSE <<Append(s[1], 1), Sub(r2, b1)>>
        r == FoldLeft(step, <<<<>>, Zero(w + 1)>>, Idx(w))
    IN  <<FromBits(w, LAMBDA i : r[1][w - i]), Resize(r[2], w)>>
Div(a, b) == DivMod(a, b)[1]
Mod(a, b) == DivMod(a, b)[2]

\* a = q*b + r with r < b, evaluated exactly at width a.w + b.w + 1
IsQuotRem(a, b, q, r) ==
    /\ ~IsZero(b)
    /\ Lt(r, b)
    /\ LET n == q.w + b.w + 1
       IN  Eq(Add(Resize(MulFull(q, b), n), Resize(r, n)), a)

---------------------------------------------------------------------------
\* bitwise, shifts, structure (all through the bit accessor)

And(a, b) == FromBits(a.w, LAMBDA i : Bit(a, i) * Bit(b, i))
Or(a, b)  == FromBits(a.w, LAMBDA i : Bit(a, i) + Bit(b, i) - Bit(a, i) * Bit(b, i))
Xor(a, b) == FromBits(a.w, LAMBDA i : (Bit(a, i) + Bit(b, i)) % 2)

Shl(a, s) == FromBits(a.w, LAMBDA i : IF i >= s THEN Bit(a, i - s) ELSE 0)
Shr(a, s) == FromBits(a.w, LAMBDA i : Bit(a, i + s))

Slice(a, lo, hi)       == FromBits(hi - lo, LAMBDA i : Bit(a, lo + i))
SetSlice(a, lo, hi, v) == FromBits(a.w, LAMBDA i : IF lo <= i /\ i < hi THEN Bit(v, i - lo) ELSE Bit(a, i))
Concat(a, b)           == FromBits(a.w + b.w, LAMBDA i : IF i < b.w THEN Bit(b, i) ELSE Bit(a, i - b.w))
ConcatSeq(xs)          == FoldLeft(LAMBDA acc, k : Concat(acc, xs[k]), xs[1], [i \in 1..(Len(xs) - 1) |-> i + 1])

SignBit(a)    == Bit(a, a.w - 1)
IsNegative(a) == SignBit(a) = 1
Sext(a, n)    == FromBits(n, LAMBDA i : IF i < a.w THEN Bit(a, i) ELSE SignBit(a))
Abs2c(a)      == IF IsNegative(a) THEN Neg(a) ELSE a      \* |two's complement value|, <= 2^(w-1)

RedAnd(a) == IF \A i \in 0..(a.w - 1) : Bit(a, i) = 1 THEN 1 ELSE 0
RedOr(a)  == IF \E i \in 0..(a.w - 1) : Bit(a, i) = 1 THEN 1 ELSE 0
RedXor(a) == FoldLeft(LAMBDA acc, k : (acc + Sum(LAMBDA j : (a.d[k] \div 2^j) % 2, LB)) % 2, 0, Idx(Len(a.d)))

---------------------------------------------------------------------------
\* measures

\* least L with Val(a) < 2^L   (0 for the value 0)
BitLen(a) ==
    IF IsZero(a) THEN 0
    ELSE LET k == CHOOSE k \in 1..Len(a.d) : a.d[k] # 0 /\ \A j \in (k + 1)..Len(a.d) : a.d[j] = 0
             n == CHOOSE n \in 1..LB : 2^(n - 1) <= a.d[k] /\ a.d[k] < 2^n
         IN  (k - 1) * LB + n

\* 2^k >= Val(a), and 2^(k-1) < Val(a) unless k = 0    (the defining property of clog2)
IsClog2(a, k) ==
    LET n == (IF a.w > k THEN a.w ELSE k) + 1
    IN  /\ k >= 0
        /\ Le(a, Pow2(n, k))
        /\ (k = 0 \/ Lt(Pow2(n, k - 1), a))

\* the unique such k, Val(a) >= 1: as 2^(L-1) <= Val(a) < 2^L for L = BitLen(a), k is L-1 or L
Clog2(a) == CHOOSE k \in {BitLen(a) - 1, BitLen(a)} : IsClog2(a, k)
=============================================================================
