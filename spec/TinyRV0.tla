------------------------------ MODULE TinyRV0 ------------------------------
(***************************************************************************)
(* The TinyRV0 instruction set, written from                              *)
(* examples/ex03_proc/tinyrv0-isa.md (NOT from the Python models).         *)
(* Property C20.                                                           *)
(*                                                                         *)
(* Architectural state (section "Architectural State" of the document):    *)
(*   pc         program counter (a byte address; reset vector 0x200)       *)
(*   R          the 32 general purpose registers, R[0] hardwired to zero   *)
(*   M          memory: a function from WORD index (byte address / 4) to a *)
(*              32-bit word; its domain is the loaded image (sparse)       *)
(*   mngr2proc  CSR 0xFC0: FIFO the processor dequeues from (csrr)         *)
(*   proc2mngr  CSR 0x7C0: sequence of words the processor enqueued (csrw) *)
(*   status     "run", or the name of the clause of the document that      *)
(*              makes the next step undefined (the machine then stops)     *)
(*                                                                         *)
(* 32-bit words.  TLC integers are 32-bit signed, so a word is the pair    *)
(* <<hi, lo>> of its two 16-bit halves; all W* operators below stay below  *)
(* 2^31.  pc and effective addresses are converted to naturals only after  *)
(* checking that they lie in the 1 MB address space (hi < 16).             *)
(*                                                                         *)
(* One action per instruction of the document: CSRR, CSRW, ADD, AND, SLL,  *)
(* SRL, ADDI, LW, SW, BNE, plus Undefined (stops the machine).  The        *)
(* document has no NOP instruction: the assembler's `nop` is the encoding  *)
(* of `addi x0, x0, 0` and is an ADDI here.                                *)
(*                                                                         *)
(* Cases the document leaves undefined (unaligned LW/SW, addresses above   *)
(* 0xfffff, reading proc2mngr, writing mngr2proc, accelerator CSRs, any    *)
(* encoding outside the ten tables) and cases outside our harness          *)
(* assumptions (access outside the loaded image, csrr on an empty          *)
(* mngr2proc: "stalls") stop the machine with a descriptive status, so a   *)
(* program that reaches them is rejected by the trace specification as a   *)
(* bad program instead of being judged.                                    *)
(***************************************************************************)
EXTENDS Naturals, Sequences, FiniteSets, Bitwise

VARIABLES pc, R, M, mngr2proc, proc2mngr, status
isavars == <<pc, R, M, mngr2proc, proc2mngr, status>>

---------------------------------------------------------------------------
\* 32-bit words as <<hi, lo>>

H        == 65536
IsHalf(x) == x \in 0 .. H - 1
IsW32(w) == /\ DOMAIN w = 1 .. 2 /\ IsHalf(w[1]) /\ IsHalf(w[2])
WZero    == <<0, 0>>

WAdd(a, b) == LET lo == a[2] + b[2]
              IN  <<(a[1] + b[1] + (lo \div H)) % H, lo % H>>
WAnd(a, b) == <<a[1] & b[1], a[2] & b[2]>>
\* logical shifts by s \in 0 .. 31, zeroes shifted in
WShl(a, s) == IF s >= 16
              THEN <<(a[2] * 2^(s - 16)) % H, 0>>
              ELSE <<((a[1] * 2^s) % H) + ((a[2] * 2^s) \div H), (a[2] * 2^s) % H>>
WShr(a, s) == IF s >= 16
              THEN <<0, a[1] \div 2^(s - 16)>>
              ELSE <<a[1] \div 2^s, (a[2] \div 2^s) + (a[1] % 2^s) * 2^(16 - s)>>
Low5(b)    == b[2] % 32                     \* R[rs2][4:0]
\* sign extension of a 12-bit / 13-bit immediate to 32 bits
Sext12(i)  == IF i >= 2048 THEN <<H - 1, i + 61440>> ELSE <<0, i>>
Sext13(i)  == IF i >= 4096 THEN <<H - 1, i + 57344>> ELSE <<0, i>>
\* words that are byte addresses inside the 1 MB space
InSpace(w) == w[1] < 16
ToNat(w)   == w[1] * H + w[2]               \* only used when InSpace(w)
OfNat(n)   == <<n \div H, n % H>>           \* only used for n < 2^31

---------------------------------------------------------------------------
\* Instruction fields (section "TinyRV0 Instruction and Immediate Encoding")
\*   w = <<hi, lo>>:  hi = inst[31:16], lo = inst[15:0]

Opcode(w) == w[2] % 128                            \* inst[6:0]
Rd(w)     == (w[2] \div 128) % 32                  \* inst[11:7]
Funct3(w) == (w[2] \div 4096) % 8                  \* inst[14:12]
Rs1(w)    == (w[2] \div 32768) + 2 * (w[1] % 16)   \* inst[19:15]
Rs2(w)    == (w[1] \div 16) % 32                   \* inst[24:20]
Funct7(w) == w[1] \div 512                         \* inst[31:25]
Csr(w)    == w[1] \div 16                          \* inst[31:20]
\* I-immediate: inst[31] sign | inst[30:25] | inst[24:21] | inst[20]  = inst[31:20]
ImmI(w)   == w[1] \div 16
\* S-immediate: inst[31] sign | inst[30:25] | inst[11:8] | inst[7]    = inst[31:25] ++ inst[11:7]
ImmS(w)   == Funct7(w) * 32 + Rd(w)
\* B-immediate: inst[31] sign (bit 12) | inst[7] (bit 11) | inst[30:25] (10:5) | inst[11:8] (4:1) | 0
ImmB(w)   == (w[1] \div 32768) * 4096 + (Rd(w) % 2) * 2048
             + ((w[1] \div 512) % 64) * 32 + (Rd(w) \div 2) * 2

\* Encoders (the inverse direction of the same tables), used to cross-check the
\* decoder and the repository's assembler
EncR(f7, rs2, rs1, f3, rd, op) ==
    LET n == op + 128 * rd + 4096 * f3 + 32768 * (rs1 % 2)   \* low half
    IN  <<f7 * 512 + rs2 * 16 + (rs1 \div 2), n>>
EncI(imm, rs1, f3, rd, op) == EncR(imm \div 32, imm % 32, rs1, f3, rd, op)
EncS(imm, rs2, rs1, f3, op) == EncR(imm \div 32, rs2, rs1, f3, imm % 32, op)
EncB(imm, rs2, rs1, f3, op) ==      \* imm: 13-bit, bit 0 must be 0
    EncR((imm \div 4096) * 64 + ((imm \div 32) % 64), rs2, rs1, f3,
         ((imm \div 2) % 16) * 2 + ((imm \div 2048) % 2), op)

CSR_PROC2MNGR == 1984     \* 0x7C0
CSR_MNGR2PROC == 4032     \* 0xFC0

Ops == {"csrr", "csrw", "add", "and", "sll", "srl", "addi", "lw", "sw", "bne"}

\* i = [op, rd, rs1, rs2, imm]  (unused fields 0; imm is the raw 12/13-bit field; csr number for csrr/csrw)
Encode(i) ==
    CASE i.op = "csrr" -> EncI(i.imm, i.rs1, 2, i.rd, 115)
      [] i.op = "csrw" -> EncI(i.imm, i.rs1, 1, i.rd, 115)
      [] i.op = "add"  -> EncR(0, i.rs2, i.rs1, 0, i.rd, 51)
      [] i.op = "and"  -> EncR(0, i.rs2, i.rs1, 7, i.rd, 51)
      [] i.op = "sll"  -> EncR(0, i.rs2, i.rs1, 1, i.rd, 51)
      [] i.op = "srl"  -> EncR(0, i.rs2, i.rs1, 5, i.rd, 51)
      [] i.op = "addi" -> EncI(i.imm, i.rs1, 0, i.rd, 19)
      [] i.op = "lw"   -> EncI(i.imm, i.rs1, 2, i.rd, 3)
      [] i.op = "sw"   -> EncS(i.imm, i.rs2, i.rs1, 2, 35)
      [] i.op = "bne"  -> EncB(i.imm, i.rs2, i.rs1, 1, 99)

\* The ten encoding tables of section "TinyRV0 Instruction Details", as predicates on the
\* opcode / funct3 / funct7 fields
MatchF(op, opc, f3, f7) ==
    CASE op = "csrr" -> opc = 115 /\ f3 = 2
      [] op = "csrw" -> opc = 115 /\ f3 = 1
      [] op = "add"  -> opc = 51  /\ f3 = 0 /\ f7 = 0
      [] op = "and"  -> opc = 51  /\ f3 = 7 /\ f7 = 0
      [] op = "sll"  -> opc = 51  /\ f3 = 1 /\ f7 = 0
      [] op = "srl"  -> opc = 51  /\ f3 = 5 /\ f7 = 0
      [] op = "addi" -> opc = 19  /\ f3 = 0
      [] op = "lw"   -> opc = 3   /\ f3 = 2
      [] op = "sw"   -> opc = 35  /\ f3 = 2
      [] op = "bne"  -> opc = 99  /\ f3 = 1
Match(op, w) == MatchF(op, Opcode(w), Funct3(w), Funct7(w))
Matching(w)  == {op \in Ops : Match(op, w)}
\* no 32-bit word matches two tables (checked over the whole field space by TinyRV0MC)
TablesDisjoint == \A opc \in 0 .. 127, f3 \in 0 .. 7, f7 \in 0 .. 127 :
                     Cardinality({op \in Ops : MatchF(op, opc, f3, f7)}) <= 1

\* structured view of an encoded instruction (inverse of Encode on its range)
Decode(w) ==
    LET op == CHOOSE o \in Matching(w) : TRUE
        z  == [op |-> op, rd |-> 0, rs1 |-> 0, rs2 |-> 0, imm |-> 0]
    IN  CASE op \in {"add", "and", "sll", "srl"} -> [z EXCEPT !.rd = Rd(w), !.rs1 = Rs1(w), !.rs2 = Rs2(w)]
          [] op \in {"addi", "lw", "csrr", "csrw"} -> [z EXCEPT !.rd = Rd(w), !.rs1 = Rs1(w), !.imm = ImmI(w)]
          [] op = "sw"  -> [z EXCEPT !.rs1 = Rs1(w), !.rs2 = Rs2(w), !.imm = ImmS(w)]
          [] op = "bne" -> [z EXCEPT !.rs1 = Rs1(w), !.rs2 = Rs2(w), !.imm = ImmB(w)]

---------------------------------------------------------------------------
\* Fetch

PcOK     == pc % 4 = 0 /\ pc < 1048576 /\ (pc \div 4) \in DOMAIN M
Inst     == M[pc \div 4]
Running  == status = "run"
Is(op)   == Running /\ PcOK /\ Match(op, Inst)

\* register write (x0 is hardwired to zero)
SetR(rd, v) == IF rd = 0 THEN R ELSE [R EXCEPT ![rd] = v]
Next4       == pc + 4

\* effective address of LW / SW and why it may be unusable
EA(immw)      == WAdd(R[Rs1(Inst)], immw)
EAProblem(a)  == IF ~InSpace(a)             THEN "address-above-1MB"
                 ELSE IF a[2] % 4 # 0       THEN "unaligned-address"
                 ELSE IF (ToNat(a) \div 4) \notin DOMAIN M THEN "address-outside-image"
                 ELSE "none"

Stop(why) == /\ status' = why
             /\ UNCHANGED <<pc, R, M, mngr2proc, proc2mngr>>

---------------------------------------------------------------------------
\* One action per instruction

\* csrr rd, csr :  R[rd] = CSR[csr]      (mngr2proc: dequeue the head of the FIFO)
CSRR == /\ Is("csrr")
        /\ IF Csr(Inst) # CSR_MNGR2PROC THEN Stop("csrr-of-unsupported-csr")
           ELSE IF mngr2proc = <<>>     THEN Stop("csrr-mngr2proc-empty")
           ELSE /\ R' = SetR(Rd(Inst), Head(mngr2proc))
                /\ mngr2proc' = Tail(mngr2proc)
                /\ pc' = Next4
                /\ UNCHANGED <<M, proc2mngr, status>>

\* csrw csr, rs1 :  CSR[csr] = R[rs1]    (proc2mngr: enqueue)
CSRW == /\ Is("csrw")
        /\ IF Csr(Inst) # CSR_PROC2MNGR THEN Stop("csrw-of-unsupported-csr")
           ELSE /\ proc2mngr' = Append(proc2mngr, R[Rs1(Inst)])
                /\ pc' = Next4
                /\ UNCHANGED <<R, M, mngr2proc, status>>

Alu(v) == /\ R' = SetR(Rd(Inst), v)
          /\ pc' = Next4
          /\ UNCHANGED <<M, mngr2proc, proc2mngr, status>>

\* add rd, rs1, rs2 :  R[rd] = R[rs1] + R[rs2]
ADD  == Is("add")  /\ Alu(WAdd(R[Rs1(Inst)], R[Rs2(Inst)]))
\* and rd, rs1, rs2 :  R[rd] = R[rs1] & R[rs2]
AND  == Is("and")  /\ Alu(WAnd(R[Rs1(Inst)], R[Rs2(Inst)]))
\* sll rd, rs1, rs2 :  R[rd] = R[rs1] << R[rs2][4:0]
SLL  == Is("sll")  /\ Alu(WShl(R[Rs1(Inst)], Low5(R[Rs2(Inst)])))
\* srl rd, rs1, rs2 :  R[rd] = R[rs1] >> R[rs2][4:0]
SRL  == Is("srl")  /\ Alu(WShr(R[Rs1(Inst)], Low5(R[Rs2(Inst)])))
\* addi rd, rs1, imm :  R[rd] = R[rs1] + sext(imm)
ADDI == Is("addi") /\ Alu(WAdd(R[Rs1(Inst)], Sext12(ImmI(Inst))))

\* lw rd, imm(rs1) :  R[rd] = M_4B[ R[rs1] + sext(imm) ]
LW == /\ Is("lw")
      /\ LET a == EA(Sext12(ImmI(Inst)))
         IN  IF EAProblem(a) # "none" THEN Stop("lw-" \o EAProblem(a))
             ELSE /\ R' = SetR(Rd(Inst), M[ToNat(a) \div 4])
                  /\ pc' = Next4
                  /\ UNCHANGED <<M, mngr2proc, proc2mngr, status>>

\* sw rs2, imm(rs1) :  M_4B[ R[rs1] + sext(imm) ] = R[rs2]
SW == /\ Is("sw")
      /\ LET a == EA(Sext12(ImmS(Inst)))
         IN  IF EAProblem(a) # "none" THEN Stop("sw-" \o EAProblem(a))
             ELSE /\ M' = [M EXCEPT ![ToNat(a) \div 4] = R[Rs2(Inst)]]
                  /\ pc' = Next4
                  /\ UNCHANGED <<R, mngr2proc, proc2mngr, status>>

\* bne rs1, rs2, imm :  PC = ( R[rs1] != R[rs2] ) ? PC + sext(imm) : PC + 4
BneTarget == WAdd(OfNat(pc), Sext13(ImmB(Inst)))
BNE == /\ Is("bne")
       /\ IF R[Rs1(Inst)] = R[Rs2(Inst)]
          THEN pc' = Next4 /\ UNCHANGED <<R, M, mngr2proc, proc2mngr, status>>
          ELSE IF ~InSpace(BneTarget) THEN Stop("bne-target-above-1MB")
          ELSE pc' = ToNat(BneTarget) /\ UNCHANGED <<R, M, mngr2proc, proc2mngr, status>>

\* nothing in the document gives the next step a meaning
UndefWhy == IF pc % 4 # 0 \/ pc >= 1048576     THEN "pc-misaligned-or-above-1MB"
            ELSE IF (pc \div 4) \notin DOMAIN M THEN "fetch-outside-image"
            ELSE "illegal-instruction"
Legal     == PcOK /\ \E op \in Ops : Match(op, Inst)
Undefined == /\ Running /\ ~Legal
             /\ Stop(UndefWhy)

Step == \/ CSRR \/ CSRW \/ ADD \/ AND \/ SLL \/ SRL \/ ADDI \/ LW \/ SW \/ BNE
        \/ Undefined

\* a taken branch to itself: the only way a step can leave the state unchanged
SelfLoop == /\ Is("bne")
            /\ ImmB(Inst) = 0 /\ R[Rs1(Inst)] # R[Rs2(Inst)]

---------------------------------------------------------------------------
\* Initial state for a memory image (function word index -> word), an input queue, registers

InitWith(mem, inq, regs) ==
    /\ pc = 512                \* reset vector 0x200
    /\ R = regs
    /\ M = mem
    /\ mngr2proc = inq
    /\ proc2mngr = <<>>
    /\ status = "run"

ZeroRegs == [r \in 0 .. 31 |-> WZero]

---------------------------------------------------------------------------
\* Invariants / action properties checked by TLC on bounded instances (TinyRV0MC)

TypeOK ==
    /\ pc \in Nat
    /\ DOMAIN R = 0 .. 31 /\ \A r \in 0 .. 31 : IsW32(R[r])
    /\ \A a \in DOMAIN M : IsW32(M[a])
    /\ \A i \in DOMAIN mngr2proc : IsW32(mngr2proc[i])
    /\ \A i \in DOMAIN proc2mngr : IsW32(proc2mngr[i])
X0IsZero    == R[0] = WZero
PcAligned   == Running => pc % 4 = 0
\* determinism: in every running state exactly one of the eleven action guards holds
GuardCount  == Cardinality({op \in Ops : Is(op)}) + (IF Running /\ ~Legal THEN 1 ELSE 0)
OneGuard    == Running => GuardCount = 1
\* frame conditions of the document's semantics lines
OutGrows    == [][proc2mngr' = proc2mngr \/ (Is("csrw") /\ proc2mngr' = Append(proc2mngr, R[Rs1(Inst)]))]_isavars
InShrinks   == [][mngr2proc' = mngr2proc \/ (Is("csrr") /\ mngr2proc' = Tail(mngr2proc))]_isavars
OnlyRdMoves == [][\A r \in 0 .. 31 : R'[r] # R[r] =>
                      (r = Rd(Inst) /\ r # 0 /\ ~Is("sw") /\ ~Is("bne") /\ ~Is("csrw"))]_isavars
OnlySwWrites == [][M' # M => Is("sw")]_isavars
PcRule      == [][(status' = "run" /\ pc' # pc + 4) => Is("bne")]_isavars
StoppedStays == [][status # "run" => UNCHANGED isavars]_isavars
=============================================================================
