SPECIFICATION Spec
INVARIANT OpAgrees
CHECK_DEADLOCK FALSE
