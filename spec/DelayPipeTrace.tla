--------------------------- MODULE DelayPipeTrace ---------------------------
(***************************************************************************)
(* Trace validation for the delay-pipe part of C18: per-cycle histories    *)
(* recorded from the real DelayPipeDeqCL / DelayPipeSendCL (optionally     *)
(* behind a StallCL) by harness/c18_pipe.py are checked to be behaviours   *)
(* of DelayPipe.tla.  One TLC run validates a batch (`tid` picks the       *)
(* trace, `l` the cycle).  Event actions are total: a mismatch sets `err`  *)
(* to the name of the failing clause.                                      *)
(*                                                                         *)
(* Trace := [kind: "deq"|"send", d: Nat, stall: BOOLEAN,                   *)
(*           mode: "lin"|"inf", nacc: Nat, ev: Seq(Event)]                 *)
(* Event := [eo, do : 0/1   offers of producer / consumer                  *)
(*           m      : Nat   the serial number offered (0 when eo = 0)      *)
(*           st     : 0/1   stall decision of this cycle (mode lin, stall) *)
(*           er, ex : 0/1   enq.rdy() seen by the producer, message taken  *)
(*           dr, dx : 0/1   deq.rdy() / a message left the pipe            *)
(*           g      : Nat   message at the exit (peek / received), 0 none  *)
(*           p      : Seq(Nat)  list(pipeline) after the cycle ]           *)
(*                                                                         *)
(* The clauses come in two groups, checked in this order:                  *)
(*  (S) statement level, independent of the pipe model: an abstract FIFO   *)
(*      `pend` of <<message, cycle accepted>>: the message that leaves is  *)
(*      the oldest accepted one, unchanged, not before `d` cycles have     *)
(*      passed, never more in flight than slots, nothing left at the end.  *)
(*  (C) model of the code: rdy / transfer bits and the slots equal         *)
(*      DelayPipe!Step in every cycle.                                     *)
(* mode "lin": everything is logged (the stall decision too), validation   *)
(*   is linear.                                                            *)
(* mode "inf" (StallCL): st, er, ex, p are NOT read; TLC guesses the stall *)
(*   decision of every cycle in which it matters and keeps the branches    *)
(*   that explain the offers and the deliveries: the stall may only choose *)
(*   WHEN.  Only accepting branches print a verdict.                       *)
(***************************************************************************)
EXTENDS Naturals, Sequences, FiniteSets, TLC, Json, IOUtils

D == INSTANCE DelayPipe WITH Kind <- "deq", Delay <- 0, NMsgs <- 0, HasStall <- FALSE, Track <- FALSE,
                             pipe <- <<>>, nxt <- 0, out <- <<>>, delivered <- <<>>, age <- <<>>, blk <- {}
   \* only the pure operators parameterised by (kind, delay) are used here

Input  == JsonDeserialize(IOEnv.VERIF_INPUT)
Traces == Input.traces

VARIABLES tid, l, err, fin, pipe, nxt, pend
tvars == <<tid, l, err, fin, pipe, nxt, pend>>

T   == Traces[tid]
Ev  == T.ev[l]
NEv == Len(T.ev)
B(x) == x = 1
Lin == T.mode = "lin"

Init == /\ tid \in 1 .. Len(Traces)
        /\ l = 1 /\ err = "ok" /\ fin = FALSE
        /\ pipe = D!EmptyPipe(Traces[tid].kind, Traces[tid].d) /\ nxt = 1 /\ pend = <<>>

Fail(c) == err' = c /\ UNCHANGED <<tid, l, fin, pipe, nxt, pend>>

PendMsgs(q) == {q[i][1] : i \in 1 .. Len(q)}

\* one cycle under the stall decision st
CycleWith(st) ==
    LET k   == T.kind
        d   == T.d
        eo  == B(Ev.eo)
        do  == B(Ev.do)
        r   == D!Step(k, d, pipe, eo, Ev.m, do, st)
        ex  == IF Lin THEN B(Ev.ex) ELSE r.enq_x          \* mode inf: the guessed branch decides
        q1  == IF ex THEN Append(pend, <<Ev.m, l>>) ELSE pend
        dx  == B(Ev.dx)
        q2  == IF dx /\ q1 # <<>> THEN Tail(q1) ELSE q1
    IN  IF k \notin D!Kinds \/ (eo /\ Ev.m # nxt) \/ (ex /\ ~eo) THEN Fail("bad-trace")
        \* ---- (S) statement level
        ELSE IF dx /\ q1 = <<>>                                 THEN Fail("delivered-message-never-accepted")
        ELSE IF dx /\ Ev.g # Head(q1)[1]
             THEN Fail(IF Ev.g \in PendMsgs(q1) THEN "delivered-out-of-order"
                                                ELSE "delivered-message-changed-or-invented")
        ELSE IF dx /\ l - Head(q1)[2] < d                       THEN Fail("delivered-before-delay-elapsed")
        ELSE IF Len(q2) > D!NSlots(k, d)                        THEN Fail("more-messages-in-flight-than-slots")
        \* ---- (C) model of the code
        ELSE IF Lin /\ B(Ev.er) # r.enq_rdy
             THEN Fail(IF r.enq_rdy THEN "enq-not-ready-but-model-says-ready" ELSE "enq-ready-but-model-says-not-ready")
        ELSE IF Lin /\ B(Ev.ex) # r.enq_x                       THEN Fail("enq-transfer-differs-from-model")
        ELSE IF B(Ev.dr) # r.deq_rdy
             THEN Fail(IF r.deq_rdy THEN "message-not-at-exit-when-model-says-so" ELSE "message-at-exit-earlier-than-model")
        ELSE IF dx # r.deq_x                                    THEN Fail("delivery-differs-from-model")
        ELSE IF B(Ev.dr) /\ Ev.g # r.msg                        THEN Fail("message-at-exit-differs-from-model")
        ELSE IF Lin /\ Ev.p # r.pipe                            THEN Fail("pipeline-slots-differ-from-model")
        ELSE /\ pipe' = r.pipe /\ pend' = q2
             /\ nxt' = IF ex THEN nxt + 1 ELSE nxt
             /\ l' = l + 1 /\ UNCHANGED <<tid, err, fin>>

\* does the stall decision matter in this cycle ?  (only when the producer offers and downstream is ready)
StallMatters == B(Ev.eo) /\ D!StepPlain(T.kind, T.d, pipe, TRUE, Ev.m, B(Ev.do)).enq_x

CycleEv ==
    IF ~T.stall THEN CycleWith(FALSE)
    ELSE IF Lin THEN (IF Ev.st \notin {0, 1} THEN Fail("bad-trace-stall-draws") ELSE CycleWith(B(Ev.st)))
    ELSE IF StallMatters THEN \E st \in BOOLEAN : CycleWith(st)
    ELSE CycleWith(FALSE)

\* after the last cycle (the driver drained the pipe): everything accepted was delivered
EndEv ==
    IF pend # <<>> THEN Fail("accepted-messages-never-delivered")
    ELSE IF pipe # D!EmptyPipe(T.kind, T.d) THEN Fail("pipe-not-empty-after-drain")
    ELSE IF nxt - 1 # T.nacc THEN Fail("accepted-count-differs")
    ELSE l' = l + 1 /\ UNCHANGED <<tid, err, fin, pipe, nxt, pend>>

Finish == /\ ~fin /\ (err # "ok" \/ l = NEv + 2)
          /\ IF Lin \/ err = "ok" THEN PrintT(<<"V", tid, err, l>>) ELSE TRUE
          /\ fin' = TRUE /\ UNCHANGED <<tid, l, err, pipe, nxt, pend>>

Next == \/ /\ ~fin /\ err = "ok" /\ l <= NEv /\ CycleEv
        \/ /\ ~fin /\ err = "ok" /\ l = NEv + 1 /\ EndEv
        \/ Finish

Spec == Init /\ [][Next]_tvars
=============================================================================
