----------------------------- MODULE BVSelfCheck -----------------------------
(***************************************************************************)
(* Self check of the limb library BV.tla (run in every tier of C04/C05).   *)
(*                                                                         *)
(* Part 1 (exhaustive): for EVERY width w in 1..W and ALL operands of that *)
(* width each BV operator is compared with its one-line definition on the  *)
(* naturals ((a+b) % 2^w, (a \div 2^lo) % 2^(hi-lo), ...); every result    *)
(* must also be a well-formed vector (IsBV).  The cfg sets the limb size   *)
(* LB: with LB = 2 or 3 the widths 1..6 span up to 3 limbs (6 for MulFull) *)
(* so every carry / borrow / cross-limb path is exercised; LB = 15 is the  *)
(* production base.                                                        *)
(*                                                                         *)
(* Part 2 (wide identities): at the widths in Wide (up to 1023 bits with   *)
(* LB = 15, where limb products are largest) algebraic identities that tie *)
(* the operators to each other are evaluated on extreme bit patterns.      *)
(*                                                                         *)
(* One initial state per job (a width of part 1, or a width of part 2);    *)
(* the invariant evaluates the job and prints  <<"R", kind, w, nchecks,    *)
(* failures>>;  a non-empty failure set violates the invariant.            *)
(***************************************************************************)
EXTENDS Integers, Sequences, FiniteSets, TLC

CONSTANTS LB,      \* bits per limb
          WMin, W, \* part 1: widths WMin..W (operand widths of mixed-width checks range over 1..W)
          WQ,      \* part 1: widths 1..WQ get the full IsQuotRem equivalence (4 nested loops)
          Wide     \* part 2: set of widths

B == INSTANCE BV

VARIABLE job
Jobs == {<<"small", w>> : w \in WMin..W} \cup {<<"wide", w>> : w \in Wide}

---------------------------------------------------------------------------
\* definitions on the naturals
nb(a, i)       == (a \div 2^i) % 2
NBitOp(f(_, _), a, b, w) == LET S[i \in 0..w] == IF i = 0 THEN 0
                                                 ELSE S[i - 1] + f(nb(a, i - 1), nb(b, i - 1)) * 2^(i - 1)
                            IN  S[w]
NAnd(a, b, w)  == NBitOp(LAMBDA p, q : p * q, a, b, w)
NOr(a, b, w)   == NBitOp(LAMBDA p, q : IF p + q > 0 THEN 1 ELSE 0, a, b, w)
NXor(a, b, w)  == NBitOp(LAMBDA p, q : IF p # q THEN 1 ELSE 0, a, b, w)
NPop(a, w)     == Cardinality({i \in 0..(w - 1) : nb(a, i) = 1})
NBitLen(a, w)  == CHOOSE L \in 0..w : a < 2^L /\ (L = 0 \/ a >= 2^(L - 1))
NIsClog2(a, k) == 2^k >= a /\ (k = 0 \/ 2^(k - 1) < a)
NClog2(a, w)   == CHOOSE k \in 0..w : 2^k >= a /\ \A j \in 0..(k - 1) : 2^j < a      \* min {k : 2^k >= a}
NCmp(a, b)     == IF a < b THEN -1 ELSE IF a = b THEN 0 ELSE 1

V(w, n)     == B!FromNat(w, n)
OK(x, w, n) == B!IsBV(x) /\ x.w = w /\ B!ToNat(x) = n
b2n(p)      == IF p THEN 1 ELSE 0

\* a list of <<name, holds>> pairs -> the names that do not hold, tagged with the operands
Fails(s, tag) == {<<s[i][1], tag>> : i \in {j \in DOMAIN s : ~s[j][2]}}

---------------------------------------------------------------------------
\* Part 1

C1(w, a) ==
    LET x == V(w, a)
        M == 2^w
    IN  << <<"fromnat", OK(x, w, a)>>,
           <<"frombits", OK(B!FromBits(w, LAMBDA i : nb(a, i)), w, a)>>,
           <<"not", OK(B!Not(x), w, M - 1 - a)>>,
           <<"neg", OK(B!Neg(x), w, (M - a) % M)>>,
           <<"redand", B!RedAnd(x) = b2n(a = M - 1)>>,
           <<"redor", B!RedOr(x) = b2n(a # 0)>>,
           <<"redxor", B!RedXor(x) = NPop(a, w) % 2>>,
           <<"bitlen", B!BitLen(x) = NBitLen(a, w)>>,
           <<"clog2", a = 0 \/ B!Clog2(x) = NClog2(a, w)>>,
           <<"isclog2", \A k \in 0..(w + 2) : B!IsClog2(x, k) <=> NIsClog2(a, k)>>,
           <<"signbit", B!SignBit(x) = nb(a, w - 1) /\ (B!IsNegative(x) <=> a >= M \div 2)>>,
           <<"abs2c", OK(B!Abs2c(x), w, IF a >= M \div 2 THEN M - a ELSE a)>>,
           <<"iszero", B!IsZero(x) <=> a = 0>>,
           <<"fitsnat", B!FitsNat(x)>>,
           <<"ltnat", \A n \in 0..(M + 1) : (B!LtNat(x, n) <=> a < n) /\ (B!GeNat(x, n) <=> a >= n)>>,
           <<"bit", \A i \in -2..(w + 2) : B!Bit(x, i) = IF 0 <= i /\ i < w THEN nb(a, i) ELSE 0>>,
           <<"shl", \A s \in 0..(w + 3) : OK(B!Shl(x, s), w, (a * 2^s) % M)>>,
           <<"shr", \A s \in 0..(w + 3) : OK(B!Shr(x, s), w, a \div 2^s)>>,
           <<"zext", \A n \in w..(W + 3) : OK(B!Zext(x, n), n, a)>>,
           <<"sext", \A n \in w..(W + 3) : OK(B!Sext(x, n), n, IF a >= M \div 2 THEN a + 2^n - M ELSE a)>>,
           <<"trunc", \A n \in 1..w : OK(B!Trunc(x, n), n, a % 2^n)>>,
           <<"resize", \A n \in 1..(W + 3) : OK(B!Resize(x, n), n, a % 2^n)>>,
           <<"slice", \A lo \in 0..(w - 1) : \A hi \in (lo + 1)..w :
                         OK(B!Slice(x, lo, hi), hi - lo, (a \div 2^lo) % 2^(hi - lo))>>,
           <<"setslice", \A lo \in 0..(w - 1) : \A hi \in (lo + 1)..w : \A v \in 0..(2^(hi - lo) - 1) :
                         OK(B!SetSlice(x, lo, hi, V(hi - lo, v)), w,
                            a - ((a \div 2^lo) % 2^(hi - lo)) * 2^lo + v * 2^lo)>>,
           <<"consts", /\ OK(B!Zero(w), w, 0) /\ OK(B!One(w), w, 1) /\ OK(B!Ones(w), w, M - 1)
                       /\ \A e \in 0..(w + 1) : OK(B!Pow2(w, e), w, IF e < w THEN 2^e ELSE 0)>> >>

C2(w, a, b) ==
    LET x == V(w, a)
        y == V(w, b)
        M == 2^w
    IN  << <<"add", OK(B!Add(x, y), w, (a + b) % M)>>,
           <<"addc", OK(B!AddC(x, y, 1), w, (a + b + 1) % M)>>,
           <<"sub", OK(B!Sub(x, y), w, (a - b + M) % M)>>,
           <<"mul", OK(B!Mul(x, y), w, (a * b) % M)>>,
           <<"mulfull", OK(B!MulFull(x, y), 2 * w, a * b)>>,
           <<"and", OK(B!And(x, y), w, NAnd(a, b, w))>>,
           <<"or", OK(B!Or(x, y), w, NOr(a, b, w))>>,
           <<"xor", OK(B!Xor(x, y), w, NXor(a, b, w))>>,
           <<"cmp", /\ B!Cmp(x, y) = NCmp(a, b) /\ (B!Eq(x, y) <=> a = b)
                    /\ (B!Lt(x, y) <=> a < b) /\ (B!Le(x, y) <=> a <= b)>>,
           <<"divmod", b = 0 \/ (LET qr == B!DivMod(x, y)
                                 IN  OK(qr[1], w, a \div b) /\ OK(qr[2], w, a % b)
                                     /\ OK(B!Div(x, y), w, a \div b) /\ OK(B!Mod(x, y), w, a % b))>>,
           <<"isquotrem", IF b = 0 THEN ~B!IsQuotRem(x, y, V(w, 0), V(w, 0))
                          ELSE /\ B!IsQuotRem(x, y, V(w, a \div b), V(w, a % b))
                               /\ ~B!IsQuotRem(x, y, V(w, ((a \div b) + 1) % M), V(w, a % b))
                               /\ ~B!IsQuotRem(x, y, V(w, a \div b), V(w, ((a % b) + 1) % M))
                               /\ (a \div b = 0 \/ ~B!IsQuotRem(x, y, V(w, (a \div b) - 1), V(w, ((a % b) + b) % M)))>>,
           <<"isquotrem-all", w > WQ \/ \A q \in 0..(M - 1) : \A r \in 0..(M - 1) :
                          B!IsQuotRem(x, y, V(w, q), V(w, r)) <=> (b # 0 /\ q = a \div b /\ r = a % b)>> >>

\* operands of different widths
CX(w, a, w2, b) ==
    LET x == V(w, a)
        y == V(w2, b)
    IN  << <<"concat", OK(B!Concat(x, y), w + w2, a * 2^w2 + b)>>,
           <<"concatseq", /\ OK(B!ConcatSeq(<<x, y, V(1, a % 2)>>), w + w2 + 1, (a * 2^w2 + b) * 2 + (a % 2))
                          /\ OK(B!ConcatSeq(<<x>>), w, a)>>,
           <<"cmpx", /\ B!Cmp(x, y) = NCmp(a, b) /\ (B!Eq(x, y) <=> a = b) /\ (B!Lt(x, y) <=> a < b)>> >>

Small(w) ==
    LET M == 2^w
        f1 == UNION {Fails(C1(w, a), <<w, a>>) : a \in 0..(M - 1)}
        f2 == UNION {Fails(C2(w, a, b), <<w, a, b>>) : a \in 0..(M - 1), b \in 0..(M - 1)}
        fx == UNION {UNION {Fails(CX(w, a, w2, b), <<w, a, w2, b>>) : a \in 0..(M - 1), b \in 0..(2^w2 - 1)}
                       : w2 \in 1..W}
        n  == M * 25 + M * M * 12 + M * (2^(W + 1) - 2) * 3
    IN  <<n, f1 \cup f2 \cup fx>>

---------------------------------------------------------------------------
\* Part 2

Pats(w) == << B!Ones(w), B!One(w), B!Pow2(w, w - 1),
              B!FromBits(w, LAMBDA i : i % 2),
              B!FromBits(w, LAMBDA i : IF (i \div 3) % 2 = 0 THEN 1 ELSE 0),
              B!FromBits(w, LAMBDA i : IF (i * i + i \div 7) % 5 < 2 THEN 1 ELSE 0),
              B!Sub(B!Pow2(w, w \div 2), B!One(w)),
              B!Not(B!Pow2(w, w \div 2)) >>
Shifts(w) == {s \in {0, 1, LB - 1, LB, LB + 1, 2 * LB, w \div 2, w - 1, w, w + 1} : s >= 0}

W1(w, x) ==
    << <<"wf", B!IsBV(x)>>,
       <<"not-sub", B!Not(x) = B!Sub(B!Ones(w), x)>>,
       <<"neg", B!IsZero(B!Add(x, B!Neg(x)))>>,
       <<"shl-mul", \A s \in Shifts(w) : B!Shl(x, s) = B!Mul(x, B!Pow2(w, s))>>,
       <<"shr-shl", \A s \in Shifts(w) : B!Shr(B!Shl(x, s), s) = B!And(x, B!Shr(B!Ones(w), s))>>,
       <<"shr-div", \A s \in {t \in Shifts(w) : t < w /\ w <= 64} : B!Shr(x, s) = B!Div(x, B!Pow2(w, s))>>,
       <<"slice-concat", \A k \in {t \in Shifts(w) : 0 < t /\ t < w} :
                            B!Concat(B!Slice(x, k, w), B!Slice(x, 0, k)) = x>>,
       <<"setslice", \A k \in {t \in Shifts(w) : 0 < t /\ t < w} :
                            /\ B!SetSlice(B!Zero(w), k, w, B!Slice(x, k, w)) = B!Shl(B!Shr(x, k), k)
                            /\ B!SetSlice(x, 0, k, B!Slice(x, 0, k)) = x>>,
       <<"ext", /\ B!Trunc(B!Zext(x, w + LB + 1), w) = x /\ B!Trunc(B!Sext(x, w + LB + 1), w) = x
                /\ B!Slice(B!Sext(x, w + LB + 1), w, w + LB + 1)
                     = (IF B!IsNegative(x) THEN B!Ones(LB + 1) ELSE B!Zero(LB + 1))
                /\ B!IsZero(B!Slice(B!Zext(x, w + LB + 1), w, w + LB + 1))>>,
       <<"red", /\ B!RedAnd(x) = (IF x = B!Ones(w) THEN 1 ELSE 0) /\ B!RedOr(x) = (IF B!IsZero(x) THEN 0 ELSE 1)
                /\ B!RedXor(B!Concat(x, x)) = 0 /\ B!RedXor(B!Concat(x, B!Concat(B!One(1), x))) = 1>>,
       <<"bitlen", /\ \A e \in {t \in Shifts(w) : t < w} :
                         /\ B!BitLen(B!Pow2(w, e)) = e + 1
                         /\ B!Clog2(B!Pow2(w, e)) = e
                         /\ (e + 1 < w => B!Clog2(B!Add(B!Pow2(w, e), B!One(w))) = e + 1)
                         /\ (e >= 2 => B!Clog2(B!Sub(B!Pow2(w, e), B!One(w))) = e)
                   /\ B!BitLen(B!Ones(w)) = w /\ B!Clog2(B!Ones(w)) = w>> >>

W2(w, x, y) ==
    << <<"add-sub", B!Sub(B!Add(x, y), y) = x /\ B!Add(B!Sub(x, y), y) = x>>,
       <<"add-comm", B!Add(x, y) = B!Add(y, x) /\ B!Mul(x, y) = B!Mul(y, x)>>,
       <<"distrib", B!Mul(x, B!Add(y, B!One(w))) = B!Add(B!Mul(x, y), x)>>,
       <<"mulfull-lo", B!Trunc(B!MulFull(x, y), w) = B!Mul(x, y) /\ B!IsBV(B!MulFull(x, y))>>,
       <<"xor", B!Xor(x, y) = B!Sub(B!Or(x, y), B!And(x, y)) /\ B!Add(B!Or(x, y), B!And(x, y)) = B!Add(x, y)>>,
       <<"cmp", /\ B!Cmp(x, y) = -B!Cmp(y, x) /\ (B!Eq(x, y) <=> x = y)
                \* x < y  iff  x - y computed at width w+1 borrows into bit w
                /\ (B!Lt(x, y) <=> B!Bit(B!Sub(B!Resize(x, w + 1), B!Resize(y, w + 1)), w) = 1)>>,
       <<"divmod", B!IsZero(y) \/ w > 128 \/
                   LET qr == B!DivMod(x, y)
                   IN  /\ B!IsQuotRem(x, y, qr[1], qr[2]) /\ B!IsBV(qr[1]) /\ B!IsBV(qr[2])
                       /\ B!Add(B!Mul(qr[1], y), qr[2]) = x>>,
       <<"quotrem", B!IsZero(y) \/ B!Lt(x, y) = FALSE \/      \* x < y: quotient 0, remainder x
                    (/\ B!IsQuotRem(x, y, B!Zero(w), x) /\ ~B!IsQuotRem(x, y, B!One(w), x)
                     /\ ~B!IsQuotRem(y, x, B!Zero(w), y))>> >>

W0(w) ==
    << <<"ones-sq", B!Mul(B!Ones(w), B!Ones(w)) = B!One(w)>>,
       <<"ones-sq-full", w < 2 \/ B!MulFull(B!Ones(w), B!Ones(w)) = B!Add(B!Neg(B!Pow2(2 * w, w + 1)), B!One(2 * w))>>,
       <<"divmod-wide", LET x == B!Ones(w)
                            y == B!Resize(B!Ones((w + 1) \div 2), w)
                            qr == B!DivMod(x, y)
                        IN  B!IsQuotRem(x, y, qr[1], qr[2]) /\ B!Add(B!Mul(qr[1], y), qr[2]) = x>> >>

WideJob(w) ==
    LET P  == Pats(w)
        f1 == UNION {Fails(W1(w, P[i]), <<w, i>>) : i \in DOMAIN P}
        f2 == UNION {Fails(W2(w, P[i], P[j]), <<w, i, j>>) : i \in DOMAIN P, j \in DOMAIN P}
        f0 == Fails(W0(w), <<w>>)
    IN  <<Len(P) * 11 + Len(P) * Len(P) * 8 + 3, f0 \cup f1 \cup f2>>

---------------------------------------------------------------------------
Run(j) == IF j[1] = "small" THEN Small(j[2]) ELSE WideJob(j[2])

Init == job \in Jobs
Next == UNCHANGED job
Spec == Init /\ [][Next]_job

AllAgree == LET r == Run(job)
            IN  /\ PrintT(<<"R", job[1], job[2], r[1], r[2]>>)
                /\ r[2] = {}
=============================================================================
