--------------------------- MODULE ReplaceTrace ---------------------------
(***************************************************************************)
(* Trace validation for C15: histories of replace_component /              *)
(* replace_component_with_obj calls executed on real pymtl3 designs are     *)
(* checked to be behaviours of Replace.tla, and the metadata projected     *)
(* from the mutated top component after a step is compared with the        *)
(* specification's `meta` (through the derived views of Replace!View).     *)
(*                                                                         *)
(* One TLC run validates a batch of traces (`tid` picks the trace, `l` the *)
(* position in it).  Every event action is total: a mismatch sets `err`    *)
(* to the first failing clause "<category>:<field>" and prints one         *)
(*     <<"R", tid, l, category, field>>                                    *)
(* line per failing clause; Finish prints <<"V", tid, err, l>>.            *)
(*                                                                         *)
(* Input (JSON, together with the model data of Replace.tla):              *)
(*   traces : [init : position -> class,                                   *)
(*             ev   : Seq([k : "Replace" | "ReplaceWithObj", pos, cls,     *)
(*                         has : BOOLEAN, obs : Observation])]             *)
(*   Observation = [parts : tag -> index into `table`  (tag = a position,  *)
(*                          "" = harness, "?" = entries owned by deleted / *)
(*                          stale objects, must be empty),                 *)
(*                  nets, mnets : index into `gtable`]                     *)
(*   table  : Seq([field -> Seq(entry)])  entries owned by one tag, the    *)
(*            owner's own tag written "$" (interned: equal parts share an  *)
(*            index)                                                       *)
(*   gtable : Seq(Seq(<<writer, member, member, ...>>))                    *)
(*   ofields: the observed fields                                          *)
(***************************************************************************)
EXTENDS Replace
   \* the state variables cfg, arg, meta (and the unused scenario index sc and step counter n) and the pure operators Meta,
   \* ReplaceMeta, NextCfg, NextArg, View of Replace.tla are used directly (an INSTANCE with substitutions would make
   \* TLC re-read the JSON input on every use); ReplaceTrace.cfg sets Bug = "none", HistOnly = FALSE; Input.scenarios and Input.bugs are empty

Traces  == Input.traces
Table   == Input.table
GTable  == Input.gtable
OFields == Input.ofields                 \* sequence: fixes the order in which clauses are reported

VARIABLES tid, l, err, fin
tvars == <<tid, l, err, fin, sc, cfg, arg, meta, n>>

T  == Traces[tid]
Ev == T.ev[l]

InitCfgOf(t) == [p \in AllPos |-> t.init[p]]

TInit == /\ tid \in 1 .. Len(Traces) /\ n = 0 /\ sc = 0
        /\ l = 1 /\ err = "ok" /\ fin = FALSE
        /\ cfg = InitCfgOf(Traces[tid])
        /\ arg = [q \in NestedPos |-> Traces[tid].init[q]]
        /\ meta = Meta(InitCfgOf(Traces[tid]))

\* The derived views (nets and their writers are a fixed-point computation) of every configuration
\* at which some trace carries an observation: a constant, evaluated once per TLC run.  It is only
\* used for a step after which the specification's meta equals Meta(cfg) - which ReplaceEv checks
\* first for every step of every trace.
CfgPath(t) ==       \* <<cfg, arg, set of configurations observed so far>> folded over the events
    FoldLeft(LAMBDA a, e :
                 IF e.k \notin {"Replace", "ReplaceWithObj"} \/ e.pos \notin AllPos \/ e.cls \notin Classes
                 THEN <<a[1], a[2], IF e.has THEN a[3] \cup {a[1]} ELSE a[3]>>
                 ELSE LET g2 == NextCfg(a[1], a[2], e.k, e.pos, e.cls)
                      IN  <<g2, NextArg(a[1], a[2], e.k, e.pos), IF e.has THEN a[3] \cup {g2} ELSE a[3]>>,
             <<InitCfgOf(t), [q \in NestedPos |-> t.init[q]], {}>>, t.ev)
ObservedCfgs == UNION {CfgPath(Traces[i])[3] : i \in 1 .. Len(Traces)}
ViewTab      == [g \in ObservedCfgs |-> View(Meta(g))]

---------------------------------------------------------------------------
\* comparison of an observation with the specification's state

Tags == AllPos \cup {"", "?"}

\* all observed entries of a field: the union of the parts (own tag "$" renamed back)
ObsField(obs, f) == UNION {{RenameEntry(e, t) : e \in ToSet(Table[obs.parts[t]][f])} : t \in Tags}

ObsNets(id) == {<<o[1], ToSet(Tail(o))>> : o \in ToSet(GTable[id])}

\* set of failing clauses <<category, field>>
Bad(V, obs) ==
    {<<"stale", f>>   : f \in {g \in ToSet(OFields) : ObsField(obs, g) \ V[g] # {}}}
    \cup {<<"missing", f>> : f \in {g \in ToSet(OFields) : V[g] \ ObsField(obs, g) # {}}}
    \cup (IF ObsNets(obs.nets) \ V.nets # {} THEN {<<"stale", "nets">>} ELSE {})
    \cup (IF V.nets \ ObsNets(obs.nets) # {} THEN {<<"missing", "nets">>} ELSE {})
    \cup (IF ObsNets(obs.mnets) \ V.mnets # {} THEN {<<"stale", "mnets">>} ELSE {})
    \cup (IF V.mnets \ ObsNets(obs.mnets) # {} THEN {<<"missing", "mnets">>} ELSE {})

AllClauses == [i \in 1 .. 2 * (Len(OFields) + 2) |->
                 LET fs == OFields \o <<"nets", "mnets">>
                     k  == (i + 1) \div 2
                 IN  <<IF i % 2 = 1 THEN "stale" ELSE "missing", fs[k]>>]
First(bad) == LET i == CHOOSE j \in DOMAIN AllClauses :
                           /\ AllClauses[j] \in bad
                           /\ \A k \in 1 .. j - 1 : AllClauses[k] \notin bad
              IN  AllClauses[i][1] \o ":" \o AllClauses[i][2]

---------------------------------------------------------------------------

Fail(c) == err' = c /\ UNCHANGED <<tid, l, fin, sc, cfg, arg, meta, n>>

ReplaceEv ==
    /\ Ev.k \in {"Replace", "ReplaceWithObj"}
    /\ IF Ev.pos \notin AllPos \/ Ev.cls \notin Classes THEN Fail("bad-trace-event")
       ELSE IF Ev.cls \notin FullPaletteOf(Ev.pos) THEN Fail("bad-trace-event")
       ELSE LET g2  == NextCfg(cfg, arg, Ev.k, Ev.pos, Ev.cls)
                m2  == ReplaceMeta(meta, cfg, g2, Ev.pos)
            IN  IF m2 # Meta(g2) THEN Fail("model-history-dependent")
                ELSE LET bad == IF Ev.has THEN Bad(ViewTab[g2], Ev.obs) ELSE {}
                     IN  IF bad # {}
                         THEN /\ \A x \in bad : PrintT(<<"R", tid, l, x[1], x[2]>>)
                              /\ Fail(First(bad))
                         ELSE /\ meta' = m2 /\ cfg' = g2
                              /\ arg' = NextArg(cfg, arg, Ev.k, Ev.pos)
                              /\ l' = l + 1 /\ UNCHANGED <<tid, err, fin, sc, n>>

\* observation of the freshly elaborated design, before any replacement
ObserveEv ==
    /\ Ev.k = "Observe"
    /\ LET bad == Bad(ViewTab[cfg], Ev.obs)       \* meta = Meta(cfg) holds in every state reached
       IN  IF bad # {}
           THEN /\ \A x \in bad : PrintT(<<"R", tid, l, x[1], x[2]>>)
                /\ Fail(First(bad))
           ELSE l' = l + 1 /\ UNCHANGED <<tid, err, fin, sc, cfg, arg, meta, n>>

Other == /\ Ev.k \notin {"Replace", "ReplaceWithObj", "Observe"} /\ Fail("unknown-event")

Finish == /\ ~fin /\ (err # "ok" \/ l > Len(T.ev))
          /\ PrintT(<<"V", tid, err, l>>)
          /\ fin' = TRUE /\ UNCHANGED <<tid, l, err, sc, cfg, arg, meta, n>>

TNext == \/ /\ ~fin /\ err = "ok" /\ l <= Len(T.ev)
            /\ (ReplaceEv \/ ObserveEv \/ Other)
         \/ Finish

TSpec == TInit /\ [][TNext]_tvars
=============================================================================
