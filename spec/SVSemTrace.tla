---------------------------- MODULE SVSemTrace ----------------------------
(***************************************************************************)
(* Trace validation for C03 / C12 with the roles                           *)
(*     spec  = SVSem semantics of the emitted (System)Verilog text,        *)
(*     trace = behaviour of the PyMTL simulation of the same design.       *)
(* One TLC run validates a batch of traces (`tid` picks the trace, `l` the *)
(* position in it).  Every step is total: a mismatch sets `err` to the     *)
(* failing clause; Finish prints <<"V", tid, err, l>> once per trace and   *)
(* <<"T", tid, k, ncmp, nflat, bad>> (k = index of the offending port      *)
(* entry / variable; ncmp / nflat = leaf comparisons made / made through a *)
(* multi-leaf FlatMap layout; bad = indices of all port entries that       *)
(* differ in any event of the trace, printed in chunks) and, in mode       *)
(* "drv", <<"R", tid, first multiply driven variable, #multiply driven,    *)
(* #undriven>>.  An output mismatch does not end a trace (see AllBad).     *)
(*                                                                         *)
(* Trace := [d: design (see SVSem), mode: "run" | "drv", ev: Seq(Event)]   *)
(* Event := [in:   Seq(Port)   values driven before settling,              *)
(*           outc: Seq(Port)   expected after sim_eval_combinational,      *)
(*           tick: BOOLEAN     a rising clock edge follows,                *)
(*           outt: Seq(Port)]  expected after sim_tick                     *)
(* Port  := [n: name, ix: Seq(Nat) unpacked indices, ty: shape of the      *)
(*           PyMTL port (BitStruct!Leaf / Struct / List), v: packed bits   *)
(*           LSB first]                                                    *)
(* For the SystemVerilog back end ty is always Leaf(w): a struct port is   *)
(* one packed variable, and the layout of its members is SVSem's reading   *)
(* of the emitted typedef.  For the yosys back end ty is the PyMTL data    *)
(* type of the port, and the flattened ports p__field__i are driven /      *)
(* compared THROUGH BitStruct!Layout (clause FlatMap of C12: first field   *)
(* most significant, list element 0 least significant).                    *)
(* mode "drv": only SVSem!Drivers is evaluated (clause OneDriver).         *)
(***************************************************************************)
EXTENDS Integers, Sequences, FiniteSets, TLC, SequencesExt, Json, IOUtils

S  == INSTANCE SVSem
BS == INSTANCE BitStruct WITH Shape <- [k |-> "leaf", w |-> 1], Names <- {}, objs <- <<>>

Input  == JsonDeserialize(IOEnv.VERIF_INPUT)
Traces == Input.traces

VARIABLES tid, l, err, fin, st, k, ncmp, nflat, bad, merr, ml
tvars == <<tid, l, err, fin, st, k, ncmp, nflat, bad, merr, ml>>

T == Traces[tid]
D == T.d

FlatIdx(ud, ix) == FoldLeft(LAMBDA a, j : a * ud[j] + ix[j], 0, S!Idx(Len(ud)))

\* FlatMap: the flattened variables a port entry denotes, one per leaf of BitStruct!Layout:
\* [n |-> mangled name p__path..., lo |-> first bit of the leaf in the packed value, w |-> width]
Mangle(n, path) == FoldLeft(LAMBDA a, x : a \o "__" \o x, n, path)
Locs(p) == LET lay == BS!Layout(p.ty)
           IN  [i \in 1..Len(lay) |-> [n |-> Mangle(p.n, lay[i].path), lo |-> lay[i].lo, w |-> lay[i].hi - lay[i].lo]]

LocOk(d, p, lf) ==
    /\ lf.n \in DOMAIN d.vars
    /\ Len(p.ix) = Len(d.vars[lf.n].ty.ud)
    /\ \A j \in 1..Len(p.ix) : p.ix[j] < d.vars[lf.n].ty.ud[j]
    /\ S!VarW(d, d.vars[lf.n].ty) = lf.w

\* drive the inputs: result [st, err, k]
Drive(d, s, ins) ==
    LET one(acc, i) ==
            IF acc.err # "ok" THEN acc
            ELSE LET p  == ins[i]
                     ls == Locs(p)
                 IN  IF Len(p.v) # BS!NBits(p.ty) THEN [acc EXCEPT !.err = "trace-value-width", !.k = i]
                     ELSE FoldLeft(LAMBDA a, lf :
                            IF a.err # "ok" THEN a
                            ELSE IF ~LocOk(d, p, lf) THEN [a EXCEPT !.err = "port-map-input", !.k = i]
                            ELSE IF d.vars[lf.n].kind # "in" THEN [a EXCEPT !.err = "port-direction-input", !.k = i]
                            ELSE [a EXCEPT !.st = [@ EXCEPT ![lf.n][FlatIdx(d.vars[lf.n].ty.ud, p.ix) + 1] =
                                                     SubSeq(p.v, lf.lo + 1, lf.lo + lf.w)]],
                            acc, ls)
    IN  FoldLeft(one, [st |-> s, err |-> "ok", k |-> 0], S!Idx(Len(ins)))

\* compare the outputs: result [err, k]
Compare(d, s, outs, clause) ==
    LET one(acc, i) ==
            IF acc.err # "ok" THEN acc
            ELSE LET p  == outs[i]
                     ls == Locs(p)
                 IN  IF Len(p.v) # BS!NBits(p.ty) THEN [err |-> "trace-value-width", k |-> i]
                     ELSE FoldLeft(LAMBDA a, lf :
                            IF a.err # "ok" THEN a
                            ELSE IF ~LocOk(d, p, lf) THEN [err |-> "port-map-output", k |-> i]
                            ELSE IF s[lf.n][FlatIdx(d.vars[lf.n].ty.ud, p.ix) + 1] # SubSeq(p.v, lf.lo + 1, lf.lo + lf.w)
                                 THEN [err |-> clause, k |-> i]
                            ELSE a,
                            acc, ls)
    IN  FoldLeft(one, [err |-> "ok", k |-> 0], S!Idx(Len(outs)))

\* coverage counters: leaf comparisons made so far, and how many of them went through a
\* multi-leaf layout (clause FlatMap)
NLeaves(ps, flatonly) ==
    FoldLeft(LAMBDA a, p : IF flatonly /\ p.ty.k = "leaf" THEN a ELSE a + Len(BS!Layout(p.ty)), 0, ps)

\* every port entry of `outs` that differs.  An output mismatch does not end the validation of a trace:
\* the first mismatch is remembered (merr, ml, k) and the run goes on with the state of the Verilog model,
\* collecting in `bad` the indices of all port entries that ever differ (the entries of every event of a
\* recorded run list the same ports in the same order) - a known mismatch on one port, or in an early
\* cycle, must not hide a mismatch on another port or in a later cycle.
AllBad(d, s, outs, clause) ==
    LET one(i) == Compare(d, s, <<outs[i]>>, clause).err # "ok"
    IN  SelectSeq(S!Idx(Len(outs)), one)
MaxBad == 48
Merge(b, new) ==
    LET fresh(i) == \A j \in 1..Len(b) : b[j] # i
        all == b \o SelectSeq(new, fresh)
    IN  SubSeq(all, 1, S!Min2(Len(all), MaxBad))

Init == /\ tid \in 1 .. Len(Traces)
        /\ l = 0 /\ err = "ok" /\ fin = FALSE /\ k = 0
        /\ st = <<>> /\ ncmp = 0 /\ nflat = 0 /\ bad = <<>>
        /\ merr = "ok" /\ ml = 0

Fail(c, kk) == /\ err' = c
               /\ k' = IF merr = "ok" THEN kk ELSE k
               /\ UNCHANGED <<tid, l, fin, st, ncmp, nflat, bad, merr, ml>>

\* l = 0: build the initial state (or, in mode "drv", evaluate OneDriver)
Start ==
    /\ l = 0
    /\ IF T.mode = "drv" THEN
           LET r == S!Drivers(D)
           IN  /\ err' = IF r.multi # 0 THEN "multi-driver" ELSE "ok"
               /\ k' = r.multi
               /\ PrintT(<<"R", tid, r.multi, r.nmulti, r.undriven>>)
               /\ l' = Len(T.ev) + 1
               /\ UNCHANGED <<tid, fin, st, ncmp, nflat, bad, merr, ml>>
       ELSE
           LET c == S!InitState(D)
           IN  IF c.err # "ok" THEN Fail(c.err, 0)
               ELSE /\ st' = c.st /\ l' = 1 /\ UNCHANGED <<tid, err, fin, k, ncmp, nflat, bad, merr, ml>>

\* d.stop = TRUE: the first output mismatch ends the trace (used for the first validation of a design with
\* signed variables: it is validated again with every operand unsigned, and that run collects everything)
StopAtMismatch == "stop" \in DOMAIN D /\ D.stop

\* One event.  (Everything is computed in this one LET and the expensive values are forced with TLCEval:
\* TLC passes operator arguments and LET definitions lazily and may evaluate them once per use.)
Step ==
    /\ l >= 1
    /\ LET ev == T.ev[l]
           s1 == TLCEval(Drive(D, st, ev.in))
           s2 == TLCEval(IF s1.err = "ok" THEN S!SettleAll(D, s1.st) ELSE [st |-> st, err |-> "skipped"])
           c1 == TLCEval(IF s2.err = "ok" THEN Compare(D, s2.st, ev.outc, "mismatch-comb") ELSE [err |-> "skipped", k |-> 0])
           m1 == c1.err = "mismatch-comb"
           go == c1.err = "ok" \/ m1
           s3 == TLCEval(IF go /\ ev.tick THEN S!Edge(D, s2.st) ELSE [st |-> st, err |-> "skipped"])
           s4 == TLCEval(IF s3.err = "ok" THEN S!SettleAll(D, s3.st) ELSE [st |-> st, err |-> "skipped"])
           c2 == TLCEval(IF s4.err = "ok" THEN Compare(D, s4.st, ev.outt, "mismatch-tick") ELSE [err |-> "skipped", k |-> 0])
           m2 == c2.err = "mismatch-tick"
           b1 == IF m1 THEN AllBad(D, s2.st, ev.outc, "mismatch-comb") ELSE <<>>
           b2 == IF m2 THEN AllBad(D, s4.st, ev.outt, "mismatch-tick") ELSE <<>>
           first == IF m1 THEN c1 ELSE c2
           ticked == ev.tick
       IN  IF s1.err # "ok" THEN Fail(s1.err, s1.k)
           ELSE IF s2.err # "ok" THEN Fail("comb:" \o s2.err, 0)
           ELSE IF ~go THEN Fail(c1.err, c1.k)                                  \* port-map errors
           ELSE IF StopAtMismatch /\ m1 THEN Fail(c1.err, c1.k)
           ELSE IF ticked /\ s3.err # "ok" THEN Fail("edge:" \o s3.err, 0)
           ELSE IF ticked /\ s4.err # "ok" THEN Fail("tick:" \o s4.err, 0)
           ELSE IF ticked /\ ~(c2.err = "ok" \/ m2) THEN Fail(c2.err, c2.k)
           ELSE IF ticked /\ StopAtMismatch /\ m2 THEN Fail(c2.err, c2.k)
           ELSE \* go on to the next event, remembering the first mismatch and every differing entry
                /\ st' = (IF ticked THEN s4.st ELSE s2.st) /\ l' = l + 1 /\ UNCHANGED <<tid, err, fin>>
                /\ IF merr = "ok" /\ (m1 \/ (ticked /\ m2))
                   THEN merr' = first.err /\ ml' = l /\ k' = first.k
                   ELSE UNCHANGED <<merr, ml, k>>
                /\ bad' = (IF m1 \/ (ticked /\ m2) THEN Merge(Merge(bad, b1), IF ticked THEN b2 ELSE <<>>) ELSE bad)
                /\ ncmp' = ncmp + NLeaves(ev.outc, FALSE) + (IF ticked THEN NLeaves(ev.outt, FALSE) ELSE 0)
                /\ nflat' = nflat + NLeaves(ev.outc, TRUE) + (IF ticked THEN NLeaves(ev.outt, TRUE) ELSE 0)

\* the verdict: the first failure - an output mismatch seen earlier wins over a later error
Verdict == IF merr # "ok" THEN <<merr, ml>> ELSE <<err, l>>
\* (the list of differing entries is printed in chunks: TLC wraps long values over several lines)
Chunk == 6
NChunks == IF Len(bad) = 0 THEN 1 ELSE (Len(bad) + Chunk - 1) \div Chunk
\* (IF, not \/: TLC would split a disjunction into two evaluations and print twice)
Finish == /\ ~fin /\ (IF err # "ok" THEN TRUE ELSE l > Len(T.ev))
          /\ PrintT(<<"V", tid, Verdict[1], Verdict[2]>>)
          /\ \A c \in 1..NChunks :
                PrintT(<<"T", tid, k, ncmp, nflat, SubSeq(bad, (c - 1) * Chunk + 1, S!Min2(c * Chunk, Len(bad)))>>)
          /\ fin' = TRUE /\ UNCHANGED <<tid, l, err, st, k, ncmp, nflat, bad, merr, ml>>

Next == \/ /\ ~fin /\ err = "ok" /\ l <= Len(T.ev)
           /\ (Start \/ Step)
        \/ Finish

Spec == Init /\ [][Next]_tvars
=============================================================================
