---------------------------- MODULE SVSemTrace ----------------------------
(***************************************************************************)
(* Trace validation for C03 / C12 with the roles                           *)
(*     spec  = SVSem semantics of the emitted (System)Verilog text,        *)
(*     trace = behaviour of the PyMTL simulation of the same design.       *)
(* One TLC run validates a batch of traces (`tid` picks the trace, `l` the *)
(* position in it).  Every step is total: a mismatch sets `err` to the     *)
(* failing clause; Finish prints <<"V", tid, err, l>> once per trace and   *)
(* <<"T", tid, k, ncmp, nflat, bad>> (k = index of the offending port      *)
(* entry / variable; ncmp / nflat = leaf comparisons made / made through a *)
(* multi-leaf FlatMap layout; bad = indices of all differing port entries  *)
(* of the failing event) and, in mode "drv", <<"R", tid, first        *)
(* multiply driven variable, #multiply driven, #undriven>>.                *)
(*                                                                         *)
(* Trace := [d: design (see SVSem), mode: "run" | "drv", ev: Seq(Event)]   *)
(* Event := [in:   Seq(Port)   values driven before settling,              *)
(*           outc: Seq(Port)   expected after sim_eval_combinational,      *)
(*           tick: BOOLEAN     a rising clock edge follows,                *)
(*           outt: Seq(Port)]  expected after sim_tick                     *)
(* Port  := [n: name, ix: Seq(Nat) unpacked indices, ty: shape of the      *)
(*           PyMTL port (BitStruct!Leaf / Struct / List), v: packed bits   *)
(*           LSB first]                                                    *)
(* For the SystemVerilog back end ty is always Leaf(w): a struct port is   *)
(* one packed variable, and the layout of its members is SVSem's reading   *)
(* of the emitted typedef.  For the yosys back end ty is the PyMTL data    *)
(* type of the port, and the flattened ports p__field__i are driven /      *)
(* compared THROUGH BitStruct!Layout (clause FlatMap of C12: first field   *)
(* most significant, list element 0 least significant).                    *)
(* mode "drv": only SVSem!Drivers is evaluated (clause OneDriver).         *)
(***************************************************************************)
EXTENDS Integers, Sequences, FiniteSets, TLC, SequencesExt, Json, IOUtils

S  == INSTANCE SVSem
BS == INSTANCE BitStruct WITH Shape <- [k |-> "leaf", w |-> 1], Names <- {}, objs <- <<>>

Input  == JsonDeserialize(IOEnv.VERIF_INPUT)
Traces == Input.traces

VARIABLES tid, l, err, fin, st, k, ncmp, nflat, bad
tvars == <<tid, l, err, fin, st, k, ncmp, nflat, bad>>

T == Traces[tid]
D == T.d

FlatIdx(ud, ix) == FoldLeft(LAMBDA a, j : a * ud[j] + ix[j], 0, S!Idx(Len(ud)))

\* FlatMap: the flattened variables a port entry denotes, one per leaf of BitStruct!Layout:
\* [n |-> mangled name p__path..., lo |-> first bit of the leaf in the packed value, w |-> width]
Mangle(n, path) == FoldLeft(LAMBDA a, x : a \o "__" \o x, n, path)
Locs(p) == LET lay == BS!Layout(p.ty)
           IN  [i \in 1..Len(lay) |-> [n |-> Mangle(p.n, lay[i].path), lo |-> lay[i].lo, w |-> lay[i].hi - lay[i].lo]]

LocOk(d, p, lf) ==
    /\ lf.n \in DOMAIN d.vars
    /\ Len(p.ix) = Len(d.vars[lf.n].ty.ud)
    /\ \A j \in 1..Len(p.ix) : p.ix[j] < d.vars[lf.n].ty.ud[j]
    /\ S!VarW(d, d.vars[lf.n].ty) = lf.w

\* drive the inputs: result [st, err, k]
Drive(d, s, ins) ==
    LET one(acc, i) ==
            IF acc.err # "ok" THEN acc
            ELSE LET p  == ins[i]
                     ls == Locs(p)
                 IN  IF Len(p.v) # BS!NBits(p.ty) THEN [acc EXCEPT !.err = "trace-value-width", !.k = i]
                     ELSE FoldLeft(LAMBDA a, lf :
                            IF a.err # "ok" THEN a
                            ELSE IF ~LocOk(d, p, lf) THEN [a EXCEPT !.err = "port-map-input", !.k = i]
                            ELSE IF d.vars[lf.n].kind # "in" THEN [a EXCEPT !.err = "port-direction-input", !.k = i]
                            ELSE [a EXCEPT !.st = [@ EXCEPT ![lf.n][FlatIdx(d.vars[lf.n].ty.ud, p.ix) + 1] =
                                                     SubSeq(p.v, lf.lo + 1, lf.lo + lf.w)]],
                            acc, ls)
    IN  FoldLeft(one, [st |-> s, err |-> "ok", k |-> 0], S!Idx(Len(ins)))

\* compare the outputs: result [err, k]
Compare(d, s, outs, clause) ==
    LET one(acc, i) ==
            IF acc.err # "ok" THEN acc
            ELSE LET p  == outs[i]
                     ls == Locs(p)
                 IN  IF Len(p.v) # BS!NBits(p.ty) THEN [err |-> "trace-value-width", k |-> i]
                     ELSE FoldLeft(LAMBDA a, lf :
                            IF a.err # "ok" THEN a
                            ELSE IF ~LocOk(d, p, lf) THEN [err |-> "port-map-output", k |-> i]
                            ELSE IF s[lf.n][FlatIdx(d.vars[lf.n].ty.ud, p.ix) + 1] # SubSeq(p.v, lf.lo + 1, lf.lo + lf.w)
                                 THEN [err |-> clause, k |-> i]
                            ELSE a,
                            acc, ls)
    IN  FoldLeft(one, [err |-> "ok", k |-> 0], S!Idx(Len(outs)))

\* coverage counters: leaf comparisons made so far, and how many of them went through a
\* multi-leaf layout (clause FlatMap)
NLeaves(ps, flatonly) ==
    FoldLeft(LAMBDA a, p : IF flatonly /\ p.ty.k = "leaf" THEN a ELSE a + Len(BS!Layout(p.ty)), 0, ps)

\* every port entry of `outs` that differs (at most 8 are reported): a known mismatch on one port must
\* not hide a mismatch on another one
AllBad(d, s, outs, clause) ==
    LET one(i) == Compare(d, s, <<outs[i]>>, clause).err # "ok"
        all    == SelectSeq(S!Idx(Len(outs)), one)
    IN  SubSeq(all, 1, S!Min2(Len(all), 8))

Init == /\ tid \in 1 .. Len(Traces)
        /\ l = 0 /\ err = "ok" /\ fin = FALSE /\ k = 0
        /\ st = <<>> /\ ncmp = 0 /\ nflat = 0 /\ bad = <<>>

Fail(c, kk) == err' = c /\ k' = kk /\ UNCHANGED <<tid, l, fin, st, ncmp, nflat, bad>>
FailAll(c, kk, b) == err' = c /\ k' = kk /\ bad' = b /\ UNCHANGED <<tid, l, fin, st, ncmp, nflat>>

\* l = 0: build the initial state (or, in mode "drv", evaluate OneDriver)
Start ==
    /\ l = 0
    /\ IF T.mode = "drv" THEN
           LET r == S!Drivers(D)
           IN  /\ err' = IF r.multi # 0 THEN "multi-driver" ELSE "ok"
               /\ k' = r.multi
               /\ PrintT(<<"R", tid, r.multi, r.nmulti, r.undriven>>)
               /\ l' = Len(T.ev) + 1
               /\ UNCHANGED <<tid, fin, st, ncmp, nflat, bad>>
       ELSE
           LET c == S!InitState(D)
           IN  IF c.err # "ok" THEN Fail(c.err, 0)
               ELSE /\ st' = c.st /\ l' = 1 /\ UNCHANGED <<tid, err, fin, k, ncmp, nflat, bad>>

Step ==
    /\ l >= 1
    /\ LET ev == T.ev[l]
           s1 == Drive(D, st, ev.in)
           s2 == S!SettleAll(D, s1.st)
           c1 == Compare(D, s2.st, ev.outc, "mismatch-comb")
           s3 == S!Edge(D, s2.st)
           s4 == S!SettleAll(D, s3.st)
           c2 == Compare(D, s4.st, ev.outt, "mismatch-tick")
       IN  IF s1.err # "ok" THEN Fail(s1.err, s1.k)
           ELSE IF s2.err # "ok" THEN Fail("comb:" \o s2.err, 0)
           ELSE IF c1.err # "ok" THEN FailAll(c1.err, c1.k, AllBad(D, s2.st, ev.outc, "mismatch-comb"))
           ELSE IF ~ev.tick THEN /\ st' = s2.st /\ l' = l + 1 /\ UNCHANGED <<tid, err, fin, k, bad>>
                                 /\ ncmp' = ncmp + NLeaves(ev.outc, FALSE)
                                 /\ nflat' = nflat + NLeaves(ev.outc, TRUE)
           ELSE IF s3.err # "ok" THEN Fail("edge:" \o s3.err, 0)
           ELSE IF s4.err # "ok" THEN Fail("tick:" \o s4.err, 0)
           ELSE IF c2.err # "ok" THEN FailAll(c2.err, c2.k, AllBad(D, s4.st, ev.outt, "mismatch-tick"))
           ELSE /\ st' = s4.st /\ l' = l + 1 /\ UNCHANGED <<tid, err, fin, k, bad>>
                /\ ncmp' = ncmp + NLeaves(ev.outc, FALSE) + NLeaves(ev.outt, FALSE)
                /\ nflat' = nflat + NLeaves(ev.outc, TRUE) + NLeaves(ev.outt, TRUE)

\* (IF, not \/: TLC would split a disjunction into two evaluations and print twice)
Finish == /\ ~fin /\ (IF err # "ok" THEN TRUE ELSE l > Len(T.ev))
          /\ PrintT(<<"V", tid, err, l>>)
          /\ PrintT(<<"T", tid, k, ncmp, nflat, bad>>)
          /\ fin' = TRUE /\ UNCHANGED <<tid, l, err, st, k, ncmp, nflat, bad>>

Next == \/ /\ ~fin /\ err = "ok" /\ l <= Len(T.ev)
           /\ (Start \/ Step)
        \/ Finish

Spec == Init /\ [][Next]_tvars
=============================================================================
